(* Loader2.v — decoded-message model of the REMAINING cache loaders (collection files) and of the whole
   start-up / refresh orchestration.  Continues Loader.v (per-stop files, per-line files, data status).

   File states and uuid texts as in Loader.v: a file is FMissing | FUnreadable | FGarbled prefix | FDecoded msg
   (msg an ARBITRARY well-typed message), an unparsable uuid text is None (boost's string_generator throws
   std::runtime_error).  A std::map<uuid,T> is a list sorted by strictly ascending key.

   Map of definitions to the C++ sources (/repo, line numbers of the current tree):

     rc, rc_fatal               the int returned by every CacheFetcher::getX: 0 | -ENOENT | -errno (open failed otherwise)
                                | -EBADMSG (kj::Exception) | -EINVAL (anything else); "ret < 0 && ret != -ENOENT"
                                transit_data.cpp:282,288,318,324,330,336,342,348
     ins_first                  std::map::emplace (first entry of a key wins): nodes_cache_fetcher.cpp:77,
                                lines_cache_fetcher.cpp:69, paths_cache_fetcher.cpp:94, trips_and_connections_cache_fetcher.cpp:105
     ins_last                   ts[key] = t (last entry wins): agencies_cache_fetcher.cpp:79, services_cache_fetcher.cpp:106,
                                scenarios_cache_fetcher.cpp:86-170 (field by field)
     fold_entries, load_coll    the common skeleton "ts.clear(); open(); try { for (entry) {...} } catch (kj::Exception)
                                {-EBADMSG} catch (...) {-EINVAL}": agencies_cache_fetcher.cpp:35-94, services :32-121,
                                nodes :34-96, lines :33-95, paths :34-121, scenarios :35-186, data_sources :31-110.
                                The entries consumed before the exception STAY in the map (no rollback).
     agency_step                agencies_cache_fetcher.cpp:67-80
     service_step               services_cache_fetcher.cpp:64-106 (dates: boost::gregorian::from_string may throw)
     nodecoll_step              nodes_cache_fetcher.cpp:67-83
     NMODES, mode_known         modes_initialization.cpp:22-37 (15 keys; "transferable" is number 0)
     line_step                  lines_cache_fetcher.cpp:64-76: agencies.at() :70 / modes.at() :71 throw std::out_of_range, caught at :83
     seg_dists, path_step       paths_cache_fetcher.cpp:64-102: nodes.at() :77, json parse :80, segment loop :82-92
                                (distance pushed only when present), lines.at() :95; all caught at :109
     refs_filter_known,
     scenario_fields, scenario_step  scenarios_cache_fetcher.cpp:67-172: the scenario is inserted FIRST (:86), then nine lists are
                                assigned one after the other; ids not in the loaded collections are skipped (:94,:103,...),
                                an unparsable uuid throws (caught at :179) and leaves the scenario half filled
     node_rows_p, push_rev,
     load_node_files_p          nodes_cache_fetcher.cpp:107-179 as Loader.load_node_files, but keeping what the C++ keeps in
                                the map when it returns -EBADMSG / -EINVAL (:165-177): reverse rows already pushed stay
     load_nodes2                nodes_cache_fetcher.cpp:23-244 (collection file, then per-stop files; the "sort" of :181-237
                                copies element i to position i, i.e. is the identity)
     trips_map                  trips_and_connections_cache_fetcher.cpp:105-115 (emplace + at: first trip of a uuid wins)
     load_schedules_tagged, schedules_consistent
                                the line a Trip is given (:106-109: the line of the FILE) and the connections of repeated
                                trip uuids (:105-141): where the C++ state is not a Data.data
     reload_*                   TransitData::updateNodes/Agencies/Services/Lines/Paths/Scenarios/Schedules,
                                transit_data.cpp:85-159 (each getX starts with ts.clear())
     load_steps                 TransitData::loadAllData, transit_data.cpp:273-354 (order and early returns)
     load_all                   TransitData::TransitData + main: the constructor only logs the result of loadAllData
                                (transit_data.cpp:40-45); main recomputes the status from the collection sizes
                                (transit_routing_http_server.cpp:129)
     kind, handler_order, update_one, update
                                the /updateCache handler, transit_routing_http_server.cpp:189-265: for every given name, the
                                fixed chain of "if (name == X || name == all) updateX()"; return codes are IGNORED, there is
                                no early return; dataStatus recomputed at :265.  (The reply text is Params.handle_update.)
     refs_of, dangling          C++ object lifetime: Line holds `const Agency&` (line.hpp:37), Path `const Line&` and
                                reference_wrapper<const Node> (path.hpp:56-59), Trip `const Agency& / Line& / Path& / Service&`
                                (trip.hpp:41-45), Scenario vectors of reference_wrapper (scenario.hpp:21-29); ts.clear() of the
                                referenced map destroys the referents.

   Not modelled (no influence on routing): persons and odTrips loaders (persons_cache_fetcher.cpp, od_trips_cache_fetcher.cpp:
   every exception is swallowed per file, both always return 0; odTripsRouting is not wired to any endpoint).  The data sources
   collection matters only through its return code (transit_data.cpp:286-291). *)
From TrV Require Export Loader.
Local Open Scope Z_scope.

(* ---- return codes --------------------------------------------------------------------------------- *)
Inductive rc := RC_OK | RC_ENOENT | RC_EOTHER | RC_EBADMSG | RC_EINVAL.
Definition rc_fatal (r : rc) : bool := match r with RC_OK | RC_ENOENT => false | _ => true end.

(* ---- std::map as a key-sorted list ------------------------------------------------------------------ *)
Section SortedMap.
  Context {A : Type} (kf : A -> nat).
  (* emplace: nothing happens when the key is present *)
  Fixpoint ins_first (x : A) (l : list A) : list A :=
    match l with
    | [] => [x]
    | y :: r => if Nat.ltb (kf x) (kf y) then x :: y :: r
                else if Nat.eqb (kf x) (kf y) then y :: r
                else y :: ins_first x r
    end.
  (* operator[] assignment: the entry of the key is replaced *)
  Fixpoint ins_last (x : A) (l : list A) : list A :=
    match l with
    | [] => [x]
    | y :: r => if Nat.ltb (kf x) (kf y) then x :: y :: r
                else if Nat.eqb (kf x) (kf y) then x :: r
                else y :: ins_last x r
    end.
End SortedMap.

Definition set_add (x : nat) (l : list nat) : list nat := ins_first (fun n => n) x l.

(* the entry loop: f returns the new map and whether the loop goes on (false = an exception left the loop) *)
Fixpoint fold_entries {S M : Type} (f : S -> M -> S * bool) (l : list M) (s : S) : S * bool :=
  match l with
  | [] => (s, true)
  | m :: r => let '(s1, ok) := f s m in if ok then fold_entries f r s1 else (s1, false)
  end.

Definition load_coll {S M : Type} (f : S -> M -> S * bool) (empty : S) (file : fstate (list M)) : S * rc :=
  match file with
  | FMissing => (empty, RC_ENOENT)
  | FUnreadable => (empty, RC_EOTHER)
  | FGarbled pre => let '(s, ok) := fold_entries f pre empty in (s, if ok then RC_EBADMSG else RC_EINVAL)
  | FDecoded msg => let '(s, ok) := fold_entries f msg empty in (s, if ok then RC_OK else RC_EINVAL)
  end.

(* ---- agencies, services, data sources, node collection ------------------------------------------------ *)
(* am_rest_ok: the simulation uuid text is empty or a uuid *)
Record agency_msg := { am_id : uref; am_rest_ok : bool }.
(* vm_rest_ok: the simulation uuid is empty or a uuid and every date text (start, end, only, except) is a date *)
Record service_msg := { vm_id : uref; vm_rest_ok : bool }.

Definition agency_step (s : list nat) (m : agency_msg) : list nat * bool :=
  match am_id m with
  | Some a => if am_rest_ok m then (set_add a s, true) else (s, false)
  | None => (s, false)
  end.
Definition service_step (s : list nat) (m : service_msg) : list nat * bool :=
  match vm_id m with
  | Some a => if vm_rest_ok m then (set_add a s, true) else (s, false)
  | None => (s, false)
  end.
Definition nodecoll_step (s : list nat) (m : uref) : list nat * bool :=
  match m with Some n => (set_add n s, true) | None => (s, false) end.

Definition load_agencies (f : fstate (list agency_msg)) : list nat * rc := load_coll agency_step [] f.
Definition load_services (f : fstate (list service_msg)) : list nat * rc := load_coll service_step [] f.
Definition load_nodecoll (f : fstate (list uref)) : list nat * rc := load_coll nodecoll_step [] f.
Definition load_datasources (f : fstate (list uref)) : rc := snd (load_coll nodecoll_step [] f).

(* ---- lines --------------------------------------------------------------------------------------------- *)
(* a mode text is a number: the 15 keys of the mode table are 0..14 (0 = "transferable"), any other text is >= 15 *)
Definition NMODES : nat := 15.
Definition mode_known (k : nat) : bool := Nat.ltb k NMODES.

Record line_msg := { lm_id : uref; lm_agency : uref; lm_mode : nat }.

Definition line_step (agencies : list nat) (s : list line) (m : line_msg) : list line * bool :=
  match lm_id m, lm_agency m with
  | Some l, Some a =>
      if memb a agencies && mode_known (lm_mode m)
      then (ins_first l_id {| l_id := l; l_agency := a; l_mode := lm_mode m |} s, true)
      else (s, false)                        (* std::out_of_range from agencies.at() / modes.at() *)
  | _, _ => (s, false)
  end.
Definition load_lines (agencies : list nat) (f : fstate (list line_msg)) : list line * rc :=
  load_coll (line_step agencies) [] f.

(* ---- paths --------------------------------------------------------------------------------------------- *)
(* one entry of data.segments as the loop reads it: absent / null, an integer distance, or something on which
   nlohmann::json throws (wrong type of the entry, of distanceMeters or of travelTimeSeconds) *)
Inductive seg := SNull | SDist (z : Z) | SBad.

Record path_msg := { pm_id : uref; pm_line : uref; pm_nodes : list uref;
                     pm_segs : option (list seg) (* None: data is not JSON, or "segments" cannot be indexed *) }.

(* .at() on every element: an unparsable or unknown id throws *)
Fixpoint refs_all_known (known : list nat) (l : list uref) : option (list nat) :=
  match l with
  | [] => Some []
  | None :: _ => None
  | Some n :: r => if memb n known
                   then match refs_all_known known r with Some t => Some (n :: t) | None => None end
                   else None
  end.

(* the loop runs over the NODES of the path (n of them), reading segments[i]: past the end of the array = null *)
Fixpoint seg_dists (n : nat) (l : list seg) : option (list Z) :=
  match n with
  | O => Some []
  | S n' =>
      match l with
      | [] => Some []
      | SNull :: r => seg_dists n' r
      | SDist z :: r => match seg_dists n' r with Some t => Some (z :: t) | None => None end
      | SBad :: _ => None
      end
  end.

Definition path_step (lines : list nat) (nodes : list nat) (s : list path) (m : path_msg) : list path * bool :=
  match pm_id m, refs_all_known nodes (pm_nodes m), pm_segs m, pm_line m with
  | Some p, Some ns, Some segs, Some l =>
      match seg_dists (length ns) segs with
      | Some ds => if memb l lines
                   then (ins_first p_id {| p_id := p; p_line := l; p_nodes := ns; p_dists := ds |} s, true)
                   else (s, false)
      | None => (s, false)
      end
  | _, _, _, _ => (s, false)
  end.
Definition load_paths (lines : list nat) (nodes : list nat) (f : fstate (list path_msg)) : list path * rc :=
  load_coll (path_step lines nodes) [] f.

(* ---- scenarios ----------------------------------------------------------------------------------------- *)
Record scenario_msg := { cm_id : uref; cm_sim_ok : bool;
                         cm_services : list uref;
                         cm_onlyLines : list uref; cm_onlyAgencies : list uref; cm_onlyNodes : list uref;
                         cm_onlyModes : list nat;
                         cm_exceptLines : list uref; cm_exceptAgencies : list uref; cm_exceptNodes : list uref;
                         cm_exceptModes : list nat }.

(* count() != 0 before at(): unknown ids are skipped; an unparsable one throws *)
Fixpoint refs_filter_known (known : list nat) (l : list uref) : option (list nat) :=
  match l with
  | [] => Some []
  | None :: _ => None
  | Some n :: r => match refs_filter_known known r with
                   | Some t => Some (if memb n known then n :: t else t)
                   | None => None
                   end
  end.

Definition scenario_blank (id : nat) : scenario :=
  {| s_id := id; s_services := []; s_onlyLines := []; s_onlyModes := []; s_onlyAgencies := []; s_onlyNodes := [];
     s_exceptLines := []; s_exceptModes := []; s_exceptAgencies := []; s_exceptNodes := [] |}.

Definition set_s_services (c : scenario) (v : list nat) : scenario :=
  {| s_id := s_id c; s_services := v; s_onlyLines := s_onlyLines c; s_onlyModes := s_onlyModes c;
     s_onlyAgencies := s_onlyAgencies c; s_onlyNodes := s_onlyNodes c; s_exceptLines := s_exceptLines c;
     s_exceptModes := s_exceptModes c; s_exceptAgencies := s_exceptAgencies c; s_exceptNodes := s_exceptNodes c |}.
Definition set_s_onlyLines (c : scenario) (v : list nat) : scenario :=
  {| s_id := s_id c; s_services := s_services c; s_onlyLines := v; s_onlyModes := s_onlyModes c;
     s_onlyAgencies := s_onlyAgencies c; s_onlyNodes := s_onlyNodes c; s_exceptLines := s_exceptLines c;
     s_exceptModes := s_exceptModes c; s_exceptAgencies := s_exceptAgencies c; s_exceptNodes := s_exceptNodes c |}.
Definition set_s_onlyModes (c : scenario) (v : list nat) : scenario :=
  {| s_id := s_id c; s_services := s_services c; s_onlyLines := s_onlyLines c; s_onlyModes := v;
     s_onlyAgencies := s_onlyAgencies c; s_onlyNodes := s_onlyNodes c; s_exceptLines := s_exceptLines c;
     s_exceptModes := s_exceptModes c; s_exceptAgencies := s_exceptAgencies c; s_exceptNodes := s_exceptNodes c |}.
Definition set_s_onlyAgencies (c : scenario) (v : list nat) : scenario :=
  {| s_id := s_id c; s_services := s_services c; s_onlyLines := s_onlyLines c; s_onlyModes := s_onlyModes c;
     s_onlyAgencies := v; s_onlyNodes := s_onlyNodes c; s_exceptLines := s_exceptLines c;
     s_exceptModes := s_exceptModes c; s_exceptAgencies := s_exceptAgencies c; s_exceptNodes := s_exceptNodes c |}.
Definition set_s_onlyNodes (c : scenario) (v : list nat) : scenario :=
  {| s_id := s_id c; s_services := s_services c; s_onlyLines := s_onlyLines c; s_onlyModes := s_onlyModes c;
     s_onlyAgencies := s_onlyAgencies c; s_onlyNodes := v; s_exceptLines := s_exceptLines c;
     s_exceptModes := s_exceptModes c; s_exceptAgencies := s_exceptAgencies c; s_exceptNodes := s_exceptNodes c |}.
Definition set_s_exceptLines (c : scenario) (v : list nat) : scenario :=
  {| s_id := s_id c; s_services := s_services c; s_onlyLines := s_onlyLines c; s_onlyModes := s_onlyModes c;
     s_onlyAgencies := s_onlyAgencies c; s_onlyNodes := s_onlyNodes c; s_exceptLines := v;
     s_exceptModes := s_exceptModes c; s_exceptAgencies := s_exceptAgencies c; s_exceptNodes := s_exceptNodes c |}.
Definition set_s_exceptModes (c : scenario) (v : list nat) : scenario :=
  {| s_id := s_id c; s_services := s_services c; s_onlyLines := s_onlyLines c; s_onlyModes := s_onlyModes c;
     s_onlyAgencies := s_onlyAgencies c; s_onlyNodes := s_onlyNodes c; s_exceptLines := s_exceptLines c;
     s_exceptModes := v; s_exceptAgencies := s_exceptAgencies c; s_exceptNodes := s_exceptNodes c |}.
Definition set_s_exceptAgencies (c : scenario) (v : list nat) : scenario :=
  {| s_id := s_id c; s_services := s_services c; s_onlyLines := s_onlyLines c; s_onlyModes := s_onlyModes c;
     s_onlyAgencies := s_onlyAgencies c; s_onlyNodes := s_onlyNodes c; s_exceptLines := s_exceptLines c;
     s_exceptModes := s_exceptModes c; s_exceptAgencies := v; s_exceptNodes := s_exceptNodes c |}.
Definition set_s_exceptNodes (c : scenario) (v : list nat) : scenario :=
  {| s_id := s_id c; s_services := s_services c; s_onlyLines := s_onlyLines c; s_onlyModes := s_onlyModes c;
     s_onlyAgencies := s_onlyAgencies c; s_onlyNodes := s_onlyNodes c; s_exceptLines := s_exceptLines c;
     s_exceptModes := s_exceptModes c; s_exceptAgencies := s_exceptAgencies c; s_exceptNodes := v |}.

(* what the loaders of the referenced collections produced *)
Record scen_env := { se_services : list nat; se_lines : list nat; se_agencies : list nat; se_nodes : list nat }.

(* the assignments of one entry in source order; None = the statement throws *)
Definition scenario_fields (e : scen_env) (m : scenario_msg) : list (option (scenario -> scenario)) :=
  let upd (set : scenario -> list nat -> scenario) (o : option (list nat)) : option (scenario -> scenario) :=
    match o with Some v => Some (fun c => set c v) | None => None end in
  [ (if cm_sim_ok m then Some (fun c => c) else None);                                     (* :89  *)
    upd set_s_services (refs_filter_known (se_services e) (cm_services m));                 (* :91-99 *)
    upd set_s_onlyLines (refs_filter_known (se_lines e) (cm_onlyLines m));                  (* :100-108 *)
    upd set_s_onlyAgencies (refs_filter_known (se_agencies e) (cm_onlyAgencies m));         (* :109-117 *)
    upd set_s_onlyNodes (refs_filter_known (se_nodes e) (cm_onlyNodes m));                  (* :118-126 *)
    Some (fun c => set_s_onlyModes c (filter mode_known (cm_onlyModes m)));                 (* :127-134 *)
    upd set_s_exceptLines (refs_filter_known (se_lines e) (cm_exceptLines m));              (* :136-144 *)
    upd set_s_exceptAgencies (refs_filter_known (se_agencies e) (cm_exceptAgencies m));     (* :145-153 *)
    upd set_s_exceptNodes (refs_filter_known (se_nodes e) (cm_exceptNodes m));              (* :154-162 *)
    Some (fun c => set_s_exceptModes c (filter mode_known (cm_exceptModes m))) ].           (* :163-170 *)

Fixpoint apply_fields (fs : list (option (scenario -> scenario))) (c : scenario) : scenario * bool :=
  match fs with
  | [] => (c, true)
  | None :: _ => (c, false)
  | Some g :: r => apply_fields r (g c)
  end.

Definition scenario_step (e : scen_env) (s : list scenario) (m : scenario_msg) : list scenario * bool :=
  match cm_id m with
  | None => (s, false)
  | Some id =>
      (* ts[uuid]: the existing entry of a repeated uuid, else a fresh one *)
      let c0 := match find (fun c => Nat.eqb (s_id c) id) s with Some c => c | None => scenario_blank id end in
      let '(c1, ok) := apply_fields (scenario_fields e m) c0 in
      (ins_last s_id c1 s, ok)
  end.
Definition load_scenarios (e : scen_env) (f : fstate (list scenario_msg)) : list scenario * rc :=
  load_coll (scenario_step e) [] f.

(* ---- stops: collection file, then the per-stop files ---------------------------------------------------- *)
(* rows consumed before the first unparsable uuid (the reverse rows of these are already pushed) *)
Fixpoint node_rows_p (known : list nat) (l : list fp_msg) : list fprow * bool :=
  match l with
  | [] => ([], true)
  | m :: r =>
      match fm_node m with
      | None => ([], false)
      | Some n =>
          let '(rows, ok) := node_rows_p known r in
          ((if memb n known && (0 <=? fm_time m)
            then {| fp_node := n; fp_time := fm_time m; fp_dist := fm_dist m |} :: rows else rows), ok)
      end
  end.

Definition push_rev (t : nat) (rows : list fprow) (rfp : list (nat * list fprow)) : list (nat * list fprow) :=
  fold_left (fun m r => app_at m (fp_node r) [{| fp_node := t; fp_time := fp_time r; fp_dist := fp_dist r |}]) rows rfp.

Fixpoint load_node_files_p (known : list nat) (todo : list nat) (files : nat -> fstate (list fp_msg))
         (fp rfp : list (nat * list fprow)) : (list (nat * list fprow) * list (nat * list fprow)) * rc :=
  match todo with
  | [] => ((fp, rfp), RC_OK)
  | t :: rest =>
      match files t with
      | FMissing | FUnreadable => load_node_files_p known rest files fp rfp
      | FGarbled pre =>
          let '(rows, ok) := node_rows_p known pre in
          ((fp, push_rev t rows rfp), if ok then RC_EBADMSG else RC_EINVAL)
      | FDecoded msg =>
          let '(rows, ok) := node_rows_p known msg in
          if ok
          then load_node_files_p known rest files (app_at fp t rows)
                                 (app_at (push_rev t rows rfp) t [{| fp_node := t; fp_time := 0; fp_dist := 0 |}])
          else ((fp, push_rev t rows rfp), RC_EINVAL)
      end
  end.

Definition load_nodes2 (coll : fstate (list uref)) (files : nat -> fstate (list fp_msg))
  : (list nat * list (nat * list fprow) * list (nat * list fprow)) * rc :=
  let '(ids, r) := load_nodecoll coll in
  let empty := map (fun n => (n, @nil fprow)) ids in
  match r with
  | RC_OK => let '((fp, rfp), r2) := load_node_files_p ids ids files empty empty in ((ids, fp, rfp), r2)
  | _ => ((ids, empty, empty), r)          (* the per-stop files are not read *)
  end.

(* ---- trips ---------------------------------------------------------------------------------------------- *)
Definition trips_map (raw : list trip) : list trip := fold_left (fun acc t => ins_first t_id t acc) raw [].

(* what the C++ keeps and Data.v cannot express: the Trip takes line / agency / mode from the line whose FILE it was read
   from (:106-109), and a repeated trip uuid leaves the first Trip in the map but still appends the connections of the
   later entry (:105-141).  Data.v reads the line of a trip through its path and derives connections from the trips.
   The two views coincide exactly when the loaded entries are consistent: *)
Definition load_schedules_tagged (lines : list line) (paths : list path) (services : list nat)
           (files : nat -> fstate (list sched_msg)) : list (nat * trip) :=
  flat_map (fun l => map (fun t => (l_id l, t)) (load_line_file paths services (files (l_id l)))) lines.
Fixpoint nodup_ids (l : list nat) : bool :=
  match l with [] => true | x :: r => negb (memb x r) && nodup_ids r end.
Definition schedules_consistent (paths : list path) (tagged : list (nat * trip)) : bool :=
  nodup_ids (map (fun lt => t_id (snd lt)) tagged) &&
  forallb (fun lt => match find (fun p => Nat.eqb (p_id p) (t_path (snd lt))) paths with
                     | Some p => Nat.eqb (p_line p) (fst lt)
                     | None => false
                     end) tagged.

(* ---- what the files hold -------------------------------------------------------------------------------- *)
Record fs := { f_nodes : fstate (list uref); f_stop : nat -> fstate (list fp_msg);
               f_datasources : fstate (list uref);
               f_agencies : fstate (list agency_msg); f_services : fstate (list service_msg);
               f_lines : fstate (list line_msg); f_paths : fstate (list path_msg);
               f_scenarios : fstate (list scenario_msg); f_line : nat -> fstate (list sched_msg) }.

(* ---- the collections in memory --------------------------------------------------------------------------- *)
Record mem := { mm_agencies : list nat; mm_services : list nat; mm_nodes : list nat;
                mm_fp : list (nat * list fprow); mm_rfp : list (nat * list fprow);
                mm_lines : list line; mm_paths : list path; mm_scenarios : list scenario; mm_trips : list trip }.

Definition mem_empty : mem :=
  {| mm_agencies := []; mm_services := []; mm_nodes := []; mm_fp := []; mm_rfp := [];
     mm_lines := []; mm_paths := []; mm_scenarios := []; mm_trips := [] |}.

Definition data_of (m : mem) : data :=
  {| d_nodes := mm_nodes m; d_fp := mm_fp m; d_rfp := mm_rfp m; d_lines := mm_lines m; d_paths := mm_paths m;
     d_trips := mm_trips m; d_scenarios := mm_scenarios m |}.

Definition sizes_of (m : mem) : sizes :=
  {| z_agencies := length (mm_agencies m); z_services := length (mm_services m); z_nodes := length (mm_nodes m);
     z_lines := length (mm_lines m); z_paths := length (mm_paths m); z_scenarios := length (mm_scenarios m);
     z_trips := length (mm_trips m) |}.

Definition scen_env_of (m : mem) : scen_env :=
  {| se_services := mm_services m; se_lines := map l_id (mm_lines m); se_agencies := mm_agencies m; se_nodes := mm_nodes m |}.

(* every update function replaces ITS collection and reads the others as they are now *)
Definition reload_nodes (f : fs) (m : mem) : mem * rc :=
  let '((ids, fp, rfp), r) := load_nodes2 (f_nodes f) (f_stop f) in
  ({| mm_agencies := mm_agencies m; mm_services := mm_services m; mm_nodes := ids; mm_fp := fp; mm_rfp := rfp;
      mm_lines := mm_lines m; mm_paths := mm_paths m; mm_scenarios := mm_scenarios m; mm_trips := mm_trips m |}, r).
Definition reload_agencies (f : fs) (m : mem) : mem * rc :=
  let '(v, r) := load_agencies (f_agencies f) in
  ({| mm_agencies := v; mm_services := mm_services m; mm_nodes := mm_nodes m; mm_fp := mm_fp m; mm_rfp := mm_rfp m;
      mm_lines := mm_lines m; mm_paths := mm_paths m; mm_scenarios := mm_scenarios m; mm_trips := mm_trips m |}, r).
Definition reload_services (f : fs) (m : mem) : mem * rc :=
  let '(v, r) := load_services (f_services f) in
  ({| mm_agencies := mm_agencies m; mm_services := v; mm_nodes := mm_nodes m; mm_fp := mm_fp m; mm_rfp := mm_rfp m;
      mm_lines := mm_lines m; mm_paths := mm_paths m; mm_scenarios := mm_scenarios m; mm_trips := mm_trips m |}, r).
Definition reload_lines (f : fs) (m : mem) : mem * rc :=
  let '(v, r) := load_lines (mm_agencies m) (f_lines f) in
  ({| mm_agencies := mm_agencies m; mm_services := mm_services m; mm_nodes := mm_nodes m; mm_fp := mm_fp m; mm_rfp := mm_rfp m;
      mm_lines := v; mm_paths := mm_paths m; mm_scenarios := mm_scenarios m; mm_trips := mm_trips m |}, r).
Definition reload_paths (f : fs) (m : mem) : mem * rc :=
  let '(v, r) := load_paths (map l_id (mm_lines m)) (mm_nodes m) (f_paths f) in
  ({| mm_agencies := mm_agencies m; mm_services := mm_services m; mm_nodes := mm_nodes m; mm_fp := mm_fp m; mm_rfp := mm_rfp m;
      mm_lines := mm_lines m; mm_paths := v; mm_scenarios := mm_scenarios m; mm_trips := mm_trips m |}, r).
Definition reload_scenarios (f : fs) (m : mem) : mem * rc :=
  let '(v, r) := load_scenarios (scen_env_of m) (f_scenarios f) in
  ({| mm_agencies := mm_agencies m; mm_services := mm_services m; mm_nodes := mm_nodes m; mm_fp := mm_fp m; mm_rfp := mm_rfp m;
      mm_lines := mm_lines m; mm_paths := mm_paths m; mm_scenarios := v; mm_trips := mm_trips m |}, r).
(* getSchedules always returns 0; generateForwardAndReverseConnections (sorting: Data.sorted_fwd / sorted_rev) only
   fails on std::bad_alloc *)
Definition reload_schedules (f : fs) (m : mem) : mem * rc :=
  ({| mm_agencies := mm_agencies m; mm_services := mm_services m; mm_nodes := mm_nodes m; mm_fp := mm_fp m; mm_rfp := mm_rfp m;
      mm_lines := mm_lines m; mm_paths := mm_paths m; mm_scenarios := mm_scenarios m;
      mm_trips := trips_map (load_schedules (mm_lines m) (mm_paths m) (mm_services m) (f_line f)) |}, RC_OK).

(* ---- start-up: loadAllData ------------------------------------------------------------------------------- *)
(* second component: loadAllData returned DATA_READ_ERROR (only logged) *)
Definition load_steps (f : fs) : mem * bool :=
  let '(m1, r1) := reload_nodes f mem_empty in
  if rc_fatal r1 then (m1, true) else
  if rc_fatal (load_datasources (f_datasources f)) then (m1, true) else
  (* persons, odTrips: always 0 *)
  let '(m2, r2) := reload_agencies f m1 in
  if rc_fatal r2 then (m2, true) else
  let '(m3, r3) := reload_services f m2 in
  if rc_fatal r3 then (m3, true) else
  let '(m4, r4) := reload_lines f m3 in
  if rc_fatal r4 then (m4, true) else
  let '(m5, r5) := reload_paths f m4 in
  if rc_fatal r5 then (m5, true) else
  let '(m6, r6) := reload_scenarios f m5 in
  if rc_fatal r6 then (m6, true) else
  let '(m7, r7) := reload_schedules f m6 in
  (m7, rc_fatal r7).

(* the state a started server answers from, and the status main computes from it *)
Definition load_all (f : fs) : mem * nat :=
  let m := fst (load_steps f) in (m, data_status (sizes_of m)).

(* no statement of the loaders lets an exception escape: every loop body is inside try blocks whose handlers cover
   kj::Exception and std::exception (or everything); so start-up always produces a state *)
Definition startup (f : fs) : outcome (mem * nat) := Ok (load_all f).

(* ---- /updateCache ------------------------------------------------------------------------------------------ *)
Inductive kind := KDataSources | KPersons | KOdTrips | KAgencies | KServices | KNodes | KLines | KPaths
                | KScenarios | KSchedules.
Definition kind_idx (k : kind) : nat :=
  match k with KDataSources => 0 | KPersons => 1 | KOdTrips => 2 | KAgencies => 3 | KServices => 4 | KNodes => 5
             | KLines => 6 | KPaths => 7 | KScenarios => 8 | KSchedules => 9 end%nat.
Definition kind_eqb (a b : kind) : bool := Nat.eqb (kind_idx a) (kind_idx b).
Definition kmemb (k : kind) (l : list kind) : bool := existsb (kind_eqb k) l.

(* the order of the if-chain in the handler *)
Definition handler_order : list kind :=
  [KDataSources; KPersons; KOdTrips; KAgencies; KServices; KNodes; KLines; KPaths; KScenarios; KSchedules].

Inductive cname := CName (k : kind) | CAll | CUnknown.
Definition selects (n : cname) (k : kind) : bool :=
  match n with CName k' => kind_eqb k k' | CAll => true | CUnknown => false end.

(* the maps whose elements the objects of a collection keep C++ references to (trips AND connections for
   KSchedules: Trip holds agency / line / path / service, Connection holds two stops) *)
Definition refs_of (k : kind) : list kind :=
  match k with
  | KLines => [KAgencies]
  | KPaths => [KLines; KNodes]
  | KScenarios => [KServices; KLines; KAgencies; KNodes]
  | KSchedules => [KAgencies; KLines; KPaths; KServices; KNodes]
  | _ => []                                            (* persons, odTrips: not modelled *)
  end.

Definition nonnil {A} (l : list A) : bool := match l with [] => false | _ => true end.

(* does some object of collection h hold a reference into map t right now *)
Definition holds_refs (m : mem) (h t : kind) : bool :=
  match h, t with
  | KLines, KAgencies => nonnil (mm_lines m)
  | KPaths, KLines => nonnil (mm_paths m)
  | KPaths, KNodes => existsb (fun p => nonnil (p_nodes p)) (mm_paths m)
  | KScenarios, KServices => existsb (fun c => nonnil (s_services c)) (mm_scenarios m)
  | KScenarios, KLines => existsb (fun c => nonnil (s_onlyLines c ++ s_exceptLines c)) (mm_scenarios m)
  | KScenarios, KAgencies => existsb (fun c => nonnil (s_onlyAgencies c ++ s_exceptAgencies c)) (mm_scenarios m)
  | KScenarios, KNodes => existsb (fun c => nonnil (s_onlyNodes c ++ s_exceptNodes c)) (mm_scenarios m)
  | KSchedules, KAgencies | KSchedules, KLines | KSchedules, KPaths | KSchedules, KServices | KSchedules, KNodes =>
      nonnil (mm_trips m)
  | _, _ => false
  end.

Definition pair_eqb (a b : kind * kind) : bool := kind_eqb (fst a) (fst b) && kind_eqb (snd a) (snd b).
Definition pmemb (p : kind * kind) (l : list (kind * kind)) : bool := existsb (pair_eqb p) l.

(* sv_dangling: pairs (h, t): objects of collection h hold a reference to a DESTROYED object of map t *)
Record srv := { sv_mem : mem; sv_dangling : list (kind * kind) }.

Definition reload_kind (f : fs) (k : kind) (m : mem) : mem :=
  match k with
  | KAgencies => fst (reload_agencies f m)
  | KServices => fst (reload_services f m)
  | KNodes => fst (reload_nodes f m)
  | KLines => fst (reload_lines f m)
  | KPaths => fst (reload_paths f m)
  | KScenarios => fst (reload_scenarios f m)
  | KSchedules => fst (reload_schedules f m)
  | _ => m
  end.

(* reloading k destroys the old objects of k (ts.clear()): their own references are gone, every other collection
   that refers to k now dangles; new trips COPY line.agency (trips_and_connections_cache_fetcher.cpp:106) and new
   connections copy path.nodesRef[i] (:131-132), dangling or not *)
Definition update_one (f : fs) (s : srv) (k : kind) : srv :=
  let m := sv_mem s in
  let m' := reload_kind f k m in
  let kept := filter (fun p => negb (kind_eqb (fst p) k)) (sv_dangling s) in
  let fresh := map (fun h => (h, k)) (filter (fun h => negb (kind_eqb h k) && holds_refs m h k) handler_order) in
  let copied :=
    match k with
    | KSchedules =>
        if nonnil (mm_trips m')
        then (if pmemb (KLines, KAgencies) (sv_dangling s) then [(KSchedules, KAgencies)] else []) ++
             (if pmemb (KPaths, KNodes) (sv_dangling s) then [(KSchedules, KNodes)] else [])
        else []
    | _ => []
    end in
  {| sv_mem := m'; sv_dangling := kept ++ fresh ++ copied |}.

Definition update_name (f : fs) (s : srv) (n : cname) : srv :=
  fold_left (fun s k => if selects n k then update_one f s k else s) handler_order s.

Definition update (f : fs) (names : list cname) (s : srv) : srv := fold_left (update_name f) names s.

(* the status the endpoints answer from after the handler (recomputed at :265) *)
Definition status_of (s : srv) : nat := data_status (sizes_of (sv_mem s)).

(* what a request that reaches the router does afterwards: reading through a dangling reference is undefined *)
Definition refs_safe (s : srv) : bool := match sv_dangling s with [] => true | _ => false end.

(* every collection reloaded in the handler's order, whatever the return codes *)
Definition load_full (f : fs) : mem :=
  fold_left (fun m k => reload_kind f k m) handler_order mem_empty.

(* ---- encoding a dataset ------------------------------------------------------------------------------------ *)
Definition enc_uref_list (l : list nat) : list uref := map (@Some nat) l.

Definition agencies_of (d : data) : list nat :=
  fold_left (fun acc a => set_add a acc)
            (map l_agency (d_lines d) ++ flat_map (fun c => s_onlyAgencies c ++ s_exceptAgencies c) (d_scenarios d)) [].
Definition services_of (d : data) : list nat :=
  fold_left (fun acc a => set_add a acc)
            (map t_service (d_trips d) ++ flat_map s_services (d_scenarios d)) [].

Definition encode_line (l : line) : line_msg := {| lm_id := Some (l_id l); lm_agency := Some (l_agency l); lm_mode := l_mode l |}.
Definition encode_path (p : path) : path_msg :=
  {| pm_id := Some (p_id p); pm_line := Some (p_line p); pm_nodes := enc_uref_list (p_nodes p);
     pm_segs := Some (map SDist (p_dists p)) |}.
Definition encode_scenario (c : scenario) : scenario_msg :=
  {| cm_id := Some (s_id c); cm_sim_ok := true; cm_services := enc_uref_list (s_services c);
     cm_onlyLines := enc_uref_list (s_onlyLines c); cm_onlyAgencies := enc_uref_list (s_onlyAgencies c);
     cm_onlyNodes := enc_uref_list (s_onlyNodes c); cm_onlyModes := s_onlyModes c;
     cm_exceptLines := enc_uref_list (s_exceptLines c); cm_exceptAgencies := enc_uref_list (s_exceptAgencies c);
     cm_exceptNodes := enc_uref_list (s_exceptNodes c); cm_exceptModes := s_exceptModes c |}.
Definition encode_row (r : fprow) : fp_msg := {| fm_node := Some (fp_node r); fm_time := fp_time r; fm_dist := fp_dist r |}.

Definition encode_all (d : data) : fs :=
  {| f_nodes := FDecoded (enc_uref_list (d_nodes d));
     f_stop := fun n => FDecoded (map encode_row (fp_of d n));
     f_datasources := FMissing;
     f_agencies := FDecoded (map (fun a => {| am_id := Some a; am_rest_ok := true |}) (agencies_of d));
     f_services := FDecoded (map (fun a => {| vm_id := Some a; vm_rest_ok := true |}) (services_of d));
     f_lines := FDecoded (map encode_line (d_lines d));
     f_paths := FDecoded (map encode_path (d_paths d));
     f_scenarios := FDecoded (map encode_scenario (d_scenarios d));
     f_line := fun l => FDecoded (encode_line_file d l) |}.

(* the dataset with its footpath tables in the loader's layout: one entry per stop in stop order, reverse rows derived *)
Definition canon (d : data) : data :=
  {| d_nodes := d_nodes d;
     d_fp := map (fun n => (n, fp_of d n)) (d_nodes d);
     d_rfp := map (fun n => (n, derive_rfp (d_nodes d) (fp_of d) n)) (d_nodes d);
     d_lines := d_lines d; d_paths := d_paths d; d_trips := d_trips d; d_scenarios := d_scenarios d |}.
