(* RenderJson.v — the three JSON renderers (result_to_v2.cpp, result_to_v2_accessibility.cpp, result_to_v2_summary.cpp)
   as DATA and its interpreter, and the hand model of the JSON each answer becomes.

   tools/gen_render.py reads every `json["key"] = expr;` of the three files IN SOURCE ORDER, grouped by the object that is
   filled, and writes the pairs (key, selector) to gen/Render.v as values of type `list (string * rsel)`.  A selector
   (`rsel`) names the member of the result object that is read (routing_result.hpp gives the vocabulary), a constant, or
   one of a few shapes (`a - b`, `c ? a : b`, `{a, b}`, "only written when c", "array() then push_back(f(x)) for each x").

   Here:
   - `json`: abstract JSON values.  An object is an association list SORTED BY KEY with one binding per key: nlohmann::json
     keeps objects in a std::map<std::string, json>, `j[key] = v` inserts or overwrites, and dump() writes the keys in that
     order - so the list below is the object in wire order, and two writes of one key keep the last.
   - `rsel`, `rcond`, `opaque`: the vocabulary of the generated tables.  OPAQUE selectors (`ROpaque o`) are the names,
     codes, uuids and coordinates the renderers look up in the data objects (agency / line / path / mode / trip / node) and
     the echoed points of the request: the model carries ids, not strings, so they are rendered as `JOpaque o id` - WHICH
     attribute of WHICH object (trip id, stop id, line id) is part of the tie, its text is not.
   - the interpreters `render_*`: what the generated table of each object kind writes for a MODEL value (Journey.route,
     Journey.step, Calc.accnode, the pairs of Render.summary_lines, Http.query_echo, Http.http_body).
   - the hand model `json_of_*`: the JSON of each answer written directly, keys in wire (alphabetical) order.

   Proofs/RenderTie.v proves hand model = interpreter on the generated tables, and the property-level corollaries (C06 on
   the wire format, C19 counts, C08 node objects).  Stdlib only, no axioms. *)
From Coq Require Import Strings.String.
From Coq Require Import List ZArith Bool.
From TrV Require Import Journey Calc Spec Render Http.
Import ListNotations.
Local Open Scope string_scope.
Local Open Scope list_scope.
Local Open Scope Z_scope.

(* ---------------------------------------------------------------------------------------------- *)
(* vocabulary *)

(* attributes looked up in data objects / echoed points: rendered as JOpaque *)
Inductive opaque :=
(* of the trip of a boarding / unboarding step: step.trip.<...> *)
| OTripAgencyAcronym | OTripAgencyName | OTripAgencyUuid | OTripLineShortname | OTripLineLongname | OTripLineUuid
| OTripPathUuid | OTripModeName | OTripModeShortname | OTripUuid
| OTripLineAgencyAcronym | OTripLineAgencyName | OTripLineAgencyUuid
(* of a stop: step.node.<...>, node.node.<...> *)
| ONodeName | ONodeCode | ONodeUuid | ONodeLongitude | ONodeLatitude
(* of the line of a summary entry: summary.trip.line.<...> (the accumulator is keyed by line) *)
| OLineUuid | OLineShortname | OLineLongname | OLineAgencyUuid | OLineAgencyAcronym | OLineAgencyName
(* of the request: the points echoed in "query", through pointTo...Json *)
| OOrigin | ODestination | OPlace
(* inside pointTo...Json *)
| OPointLongitude | OPointLatitude.

Inductive okind := OKTrip | OKNode | OKLine | OKQuery | OKPoint.
Definition opaque_kind (o : opaque) : okind :=
  match o with
  | OTripAgencyAcronym | OTripAgencyName | OTripAgencyUuid | OTripLineShortname | OTripLineLongname | OTripLineUuid
  | OTripPathUuid | OTripModeName | OTripModeShortname | OTripUuid
  | OTripLineAgencyAcronym | OTripLineAgencyName | OTripLineAgencyUuid => OKTrip
  | ONodeName | ONodeCode | ONodeUuid | ONodeLongitude | ONodeLatitude => OKNode
  | OLineUuid | OLineShortname | OLineLongname | OLineAgencyUuid | OLineAgencyAcronym | OLineAgencyName => OKLine
  | OOrigin | ODestination | OPlace => OKQuery
  | OPointLongitude | OPointLatitude => OKPoint
  end.

Inductive rcond :=
| CWalkTypeIs (k : nat)     (* step.walkingType == walking_step_type::X   (0 ACCESS, 1 EGRESS, 2 TRANSFER) *)
| CForward                  (* params.isForwardCalculation() / the isForward argument of nodeToJson *)
| CNot (c : rcond).

Inductive rsel :=
(* SingleCalculationResult *)
| RDepartureTime | RArrivalTime | RTotalTravelTime | RTotalDistance | RTotalInVehicleTime | RTotalInVehicleDistance
| RTotalNonTransitTravelTime | RTotalNonTransitDistance | RNumberOfBoardings | RNumberOfTransfers
| RTransferWalkingTime | RTransferWalkingDistance | RAccessTravelTime | RAccessDistance | REgressTravelTime
| REgressDistance | RTransferWaitingTime | RFirstWaitingTime | RTotalWaitingTime
| RStepsEach          (* json::array(), then push_back(step->accept(StepToV2Visitor)) for every element of result.steps *)
(* RoutingStep and its subclasses *)
| SLegSequenceInTrip | SStopSequenceInTrip | SStepDepartureTime | SStepArrivalTime | SWaitingTime | SInVehicleTime
| SInVehicleDistanceMeters | STravelTime | SDistanceMeters | SReadyToBoardAt | SAction | SWalkingType
(* AccessibleNodes *)
| NArrivalTime | NTotalTravelTime | NNumberOfTransfers
(* AllNodesResult *)
| ATotalNodeCount | ANumberOfReachableNodes
| RNodesEach          (* array(), then push_back(nodeToJson(node, params.isForwardCalculation())) for every element of result.nodes *)
(* AlternativesResult *)
| ATotalAlternativesCalculated | AAlternativesCount (* result.alternatives.size() *)
| RRoutesEach         (* array(), then push_back(getSingleResultJsonString(alternative)) for every element of result.alternatives *)
| RRouteOne           (* array(), then ONE push_back(getSingleResultJsonString(result)) *)
(* LineSummary / the accumulator of result_to_v2_summary.cpp *)
| LCount
| RLinesOfAlternatives   (* lineSummariesToJson(acc) after acc.processSingleCalculationResult(a) for every alternative a *)
| RLinesOfSingle         (* lineSummariesToJson(acc) after acc.processSingleCalculationResult(result) *)
(* request parameters *)
| QTimeOfTrip
| RQueryObj           (* the object returned by the file's parametersTo...QueryResponse(params) *)
(* other shapes *)
| RResultObj          (* the function's local object assigned under this key (its pairs are a table of their own) *)
| RReason             (* the local string the switch over NoRoutingReason assigns *)
| REmptyArray         (* nlohmann::json::array() with nothing pushed *)
| RConst (s : string) | RInt (z : Z)
| RSub (a b : rsel) | RIf (c : rcond) (a b : rsel) | RPair (a b : rsel)
| RWhen (c : rcond) (a : rsel)      (* the assignment sits inside `if (c) { ... }` *)
| ROpaque (o : opaque).

Inductive json :=
| JInt (z : Z)
| JStr (s : string)
| JOpaque (o : opaque) (id : nat)
| JArr (l : list json)
| JObj (l : list (string * json))
| JBad.                                (* a selector that does not exist for the object that is rendered *)

(* ---------------------------------------------------------------------------------------------- *)
(* objects: std::map semantics *)

Fixpoint jset (k : string) (v : json) (l : list (string * json)) : list (string * json) :=
  match l with
  | [] => [(k, v)]
  | (k', v') :: r =>
      if String.eqb k k' then (k, v) :: r
      else if String.ltb k k' then (k, v) :: l
      else (k', v') :: jset k v r
  end.

Fixpoint jfind (k : string) (l : list (string * json)) : option json :=
  match l with
  | [] => None
  | (k', v) :: r => if String.eqb k k' then Some v else jfind k r
  end.

(* value under a key of an object *)
Definition jget (k : string) (j : json) : option json :=
  match j with JObj l => jfind k l | _ => None end.
(* the number under a key *)
Definition jnum (k : string) (j : json) : option Z :=
  match jget k j with Some (JInt z) => Some z | _ => None end.
Definition jkeys (j : json) : list string := match j with JObj l => map fst l | _ => [] end.
Definition jelems (j : json) : list json := match j with JArr l => l | _ => [] end.
(* sum of the numbers found under key k in the elements of an array (elements without the key count 0) *)
Definition jsum (k : string) (l : list json) : Z :=
  fold_right (fun e a => match jnum k e with Some z => z + a | None => a end) 0 l.
(* the elements of an array whose string under key k is s *)
Definition jfilter_str (k s : string) (l : list json) : list json :=
  filter (fun e => match jget k e with Some (JStr t) => String.eqb t s | _ => false end) l.

(* ---------------------------------------------------------------------------------------------- *)
(* interpreter *)

Fixpoint eval_cond (cond : rcond -> option bool) (c : rcond) : option bool :=
  match c with
  | CNot c' => match eval_cond cond c' with Some b => Some (negb b) | None => None end
  | _ => cond c
  end.

(* None = the key is not written *)
Fixpoint eval (leaf : rsel -> json) (cond : rcond -> option bool) (s : rsel) : option json :=
  match s with
  | RConst t => Some (JStr t)
  | RInt z => Some (JInt z)
  | RSub a b =>
      match eval leaf cond a, eval leaf cond b with
      | Some (JInt x), Some (JInt y) => Some (JInt (x - y))
      | _, _ => Some JBad
      end
  | RIf c a b =>
      match eval_cond cond c with
      | Some true => eval leaf cond a
      | Some false => eval leaf cond b
      | None => Some JBad
      end
  | RPair a b =>
      match eval leaf cond a, eval leaf cond b with
      | Some x, Some y => Some (JArr [x; y])
      | _, _ => Some JBad
      end
  | RWhen c a =>
      match eval_cond cond c with
      | Some true => eval leaf cond a
      | Some false => None
      | None => Some JBad
      end
  | _ => Some (leaf s)
  end.

(* `nlohmann::json j; j[k1] = e1; j[k2] = e2; ...` *)
Definition build (leaf : rsel -> json) (cond : rcond -> option bool) (es : list (string * rsel)) : json :=
  JObj (fold_left (fun acc e => match eval leaf cond (snd e) with Some v => jset (fst e) v acc | None => acc end) es []).

Definition no_cond (c : rcond) : option bool := None.

(* ---- steps ---- *)
Definition step_leaf (st : Journey.step) (s : rsel) : json :=
  match st with
  | SWalk kind travel dist dep arr ready =>
      match s with
      | STravelTime => JInt travel
      | SDistanceMeters => JInt dist
      | SStepDepartureTime => JInt dep
      | SStepArrivalTime => JInt arr
      | SReadyToBoardAt => JInt ready
      | _ => JBad
      end
  | SBoard trip legseq stopseq node dep wait =>
      match s with
      | SLegSequenceInTrip => JInt (Z.of_nat legseq)
      | SStopSequenceInTrip => JInt (Z.of_nat stopseq)
      | SStepDepartureTime => JInt dep
      | SWaitingTime => JInt wait
      | ROpaque o => match opaque_kind o with OKTrip => JOpaque o trip | OKNode => JOpaque o node | _ => JBad end
      | _ => JBad
      end
  | SUnboard trip legseq stopseq node arr ivt ivd =>
      match s with
      | SLegSequenceInTrip => JInt (Z.of_nat legseq)
      | SStopSequenceInTrip => JInt (Z.of_nat stopseq)
      | SStepArrivalTime => JInt arr
      | SInVehicleTime => JInt ivt
      | SInVehicleDistanceMeters => JInt ivd
      | ROpaque o => match opaque_kind o with OKTrip => JOpaque o trip | OKNode => JOpaque o node | _ => JBad end
      | _ => JBad
      end
  end.

Definition step_cond (st : Journey.step) (c : rcond) : option bool :=
  match st, c with
  | SWalk kind _ _ _ _ _, CWalkTypeIs k => Some (Nat.eqb kind k)
  | _, _ => None
  end.

(* the tables of the three visit functions; the dispatch on the step's class is C++ virtual dispatch (do_accept) *)
Record step_tables := { tb_walk : list (string * rsel); tb_board : list (string * rsel); tb_unboard : list (string * rsel) }.

Definition render_step (t : step_tables) (st : Journey.step) : json :=
  build (step_leaf st) (step_cond st)
        (match st with SWalk _ _ _ _ _ _ => tb_walk t | SBoard _ _ _ _ _ _ => tb_board t | SUnboard _ _ _ _ _ _ _ => tb_unboard t end).

(* ---- the route object (getSingleResultJsonString) ---- *)
(* `steps` = the elements pushed into "steps" *)
Definition route_leaf (steps : list json) (r : route) (s : rsel) : json :=
  match s with
  | RDepartureTime => JInt (rt_dep r)
  | RArrivalTime => JInt (rt_arr r)
  | RTotalTravelTime => JInt (rt_ttt r)
  | RTotalDistance => JInt (rt_tdist r)
  | RTotalInVehicleTime => JInt (rt_tivt r)
  | RTotalInVehicleDistance => JInt (rt_tivd r)
  | RTotalNonTransitTravelTime => JInt (rt_tnt r)
  | RTotalNonTransitDistance => JInt (rt_tntd r)
  | RNumberOfBoardings => JInt (rt_nboard r)
  | RNumberOfTransfers => JInt (rt_ntransf r)
  | RTransferWalkingTime => JInt (rt_trwalk r)
  | RTransferWalkingDistance => JInt (rt_trdist r)
  | RAccessTravelTime => JInt (rt_acc r)
  | RAccessDistance => JInt (rt_accd r)
  | REgressTravelTime => JInt (rt_egr r)
  | REgressDistance => JInt (rt_egrd r)
  | RTransferWaitingTime => JInt (rt_trwait r)
  | RFirstWaitingTime => JInt (rt_fwait r)
  | RTotalWaitingTime => JInt (rt_twait r)
  | RStepsEach => JArr steps
  | REmptyArray => JArr []
  | _ => JBad
  end.

Definition render_route (t : step_tables) (g : list (string * rsel)) (r : route) : json :=
  build (route_leaf (map (render_step t) (rt_steps r)) r) no_cond g.

(* ---- the query object (parametersTo...QueryResponse) ---- *)
Definition query_leaf (q : query_echo) (s : rsel) : json :=
  match s with
  | QTimeOfTrip => JInt (qe_time q)
  | ROpaque o => match opaque_kind o with OKQuery => JOpaque o 0 | _ => JBad end
  | _ => JBad
  end.
Definition query_cond (q : query_echo) (c : rcond) : option bool :=
  match c with CForward => Some (qe_fwd q) | _ => None end.
Definition render_query (g : list (string * rsel)) (q : query_echo) : json := build (query_leaf q) (query_cond q) g.

(* pointTo...Json: the coordinate order of an echoed point *)
Definition render_point (g : rsel) : option json :=
  eval (fun s => match s with ROpaque o => match opaque_kind o with OKPoint => JOpaque o 0 | _ => JBad end | _ => JBad end) no_cond g.

(* ---- reason strings: the switch over NoRoutingReason as (enumerator, string) rows in source order + the default ---- *)
Definition reason_string (table : list (nat * string)) (default : string) (r : nat) : string :=
  match find (fun e => Nat.eqb (fst e) r) table with Some e => snd e | None => default end.

(* ---- top levels: `json` (status, query, result | reason) and the local object assigned under "result" ---- *)
Definition top_leaf (query result reason : json) (s : rsel) : json :=
  match s with
  | RQueryObj => query
  | RResultObj => result
  | RReason => reason
  | REmptyArray => JArr []
  | _ => JBad
  end.

(* what the object under "result" can read.  `single` = the entry point that is given ONE SingleCalculationResult:
   there is no result.alternatives to loop over / to count, and the other way round *)
Record result_env := { re_single : bool;
                       re_routes : list json;        (* getSingleResultJsonString of the result / of every alternative *)
                       re_count : Z;                 (* result.alternatives.size() *)
                       re_total : Z;                 (* totalAlternativesCalculated / totalNodeCount *)
                       re_nodes : list json;         (* nodeToJson of every element of result.nodes *)
                       re_lines : list json }.       (* lineSummariesToJson of the accumulator fed with the result / every alternative *)
Inductive result_kind := KRoute | KAccess | KSummary.
Definition result_leaf (k : result_kind) (e : result_env) (s : rsel) : json :=
  match s, k with
  | RRoutesEach, KRoute => if re_single e then JBad else JArr (re_routes e)
  | RRouteOne, KRoute => if re_single e then JArr (re_routes e) else JBad
  | ATotalAlternativesCalculated, KRoute => if re_single e then JBad else JInt (re_total e)
  | AAlternativesCount, (KRoute | KSummary) => if re_single e then JBad else JInt (re_count e)
  | RLinesOfAlternatives, KSummary => if re_single e then JBad else JArr (re_lines e)
  | RLinesOfSingle, KSummary => if re_single e then JArr (re_lines e) else JBad
  | RNodesEach, KAccess => JArr (re_nodes e)
  | ATotalNodeCount, KAccess => JInt (re_total e)
  | REmptyArray, _ => JArr []
  | _, _ => JBad
  end.

Definition render_answer (k : result_kind) (gtop gres : list (string * rsel)) (query : json) (e : result_env) : json :=
  build (top_leaf query (build (result_leaf k e) no_cond gres) JBad) no_cond gtop.

(* ---- /v2/route ---- *)
Record route_tables := { rt_steps_tb : step_tables; rt_route_tb : list (string * rsel); rt_query_tb : list (string * rsel) }.

(* resultToJsonString(AlternativesResult&, ...) *)
Definition render_route_alt (t : route_tables) (gtop gres : list (string * rsel)) (rs : list route) (total : Z) (q : query_echo) : json :=
  render_answer KRoute gtop gres (render_query (rt_query_tb t) q)
    {| re_single := false; re_routes := map (render_route (rt_steps_tb t) (rt_route_tb t)) rs;
       re_count := Z.of_nat (length rs); re_total := total; re_nodes := []; re_lines := [] |}.
(* resultToJsonString(SingleCalculationResult&, ...) *)
Definition render_route_single (t : route_tables) (gtop gres : list (string * rsel)) (r : route) (q : query_echo) : json :=
  render_answer KRoute gtop gres (render_query (rt_query_tb t) q)
    {| re_single := true; re_routes := [render_route (rt_steps_tb t) (rt_route_tb t) r];
       re_count := 0; re_total := 0; re_nodes := []; re_lines := [] |}.
(* noRoutingFoundResponse of result_to_v2.cpp and of result_to_v2_accessibility.cpp *)
Definition render_noroute (qtb gtop : list (string * rsel)) (table : list (nat * string)) (default : string)
           (reason : nat) (q : query_echo) : json :=
  build (top_leaf (render_query qtb q) JBad (JStr (reason_string table default reason))) no_cond gtop.

(* ---- /v2/accessibility ---- *)
Definition node_leaf (a : accnode) (s : rsel) : json :=
  match s with
  | NArrivalTime => JInt (an_time a)
  | NTotalTravelTime => JInt (an_ttt a)
  | NNumberOfTransfers => JInt (an_ntr a)
  | ROpaque o => match opaque_kind o with OKNode => JOpaque o (an_node a) | _ => JBad end
  | _ => JBad
  end.
Definition node_cond (fwd : bool) (c : rcond) : option bool := match c with CForward => Some fwd | _ => None end.
(* nodeToJson(node, isForward) on a row of the model's result *)
Definition render_node_obj (g : list (string * rsel)) (fwd : bool) (a : accnode) : json := build (node_leaf a) (node_cond fwd) g.

Definition render_access (qtb gnode gtop gres : list (string * rsel)) (nodes : list accnode) (total : Z) (q : query_echo) : json :=
  render_answer KAccess gtop gres (render_query qtb q)
    {| re_single := true; re_routes := []; re_count := 0; re_total := total;
       re_nodes := map (render_node_obj gnode (qe_fwd q)) nodes; re_lines := [] |}.

(* ---- /v2/summary ---- *)
Definition line_leaf (l : nat * Z) (s : rsel) : json :=
  match s with
  | LCount => JInt (snd l)
  | ROpaque o => match opaque_kind o with OKLine => JOpaque o (fst l) | _ => JBad end
  | _ => JBad
  end.
Definition render_line (g : list (string * rsel)) (l : nat * Z) : json := build (line_leaf l) no_cond g.

(* rs = result.alternatives (single = false) or [result] (single = true); the accumulator is Render.summary_lines *)
Definition render_summary (qtb gline gtop gres : list (string * rsel)) (d : data) (single : bool) (rs : list route) (q : query_echo) : json :=
  render_answer KSummary gtop gres (render_query qtb q)
    {| re_single := single; re_routes := []; re_count := Z.of_nat (length rs); re_total := 0; re_nodes := [];
       re_lines := map (render_line gline) (summary_lines d rs) |}.

(* ---------------------------------------------------------------------------------------------- *)
(* the hand model: the JSON of every answer, keys in wire order *)

Definition json_of_step (st : Journey.step) : json :=
  match st with
  | SWalk kind travel dist dep arr ready =>
      JObj ([("action", JStr "walking"); ("arrivalTime", JInt arr); ("departureTime", JInt dep); ("distance", JInt dist)]
            ++ (if Nat.eqb kind 1 then [] else [("readyToBoardAt", JInt ready)])
            ++ [("travelTime", JInt travel);
                ("type", JStr (if Nat.eqb kind 0 then "access" else if Nat.eqb kind 1 then "egress" else "transfer"))])
  | SBoard trip legseq stopseq node dep wait =>
      JObj [("action", JStr "boarding");
            ("agencyAcronym", JOpaque OTripAgencyAcronym trip); ("agencyName", JOpaque OTripAgencyName trip);
            ("agencyUuid", JOpaque OTripAgencyUuid trip);
            ("departureTime", JInt dep);
            ("legSequenceInTrip", JInt (Z.of_nat legseq));
            ("lineLongname", JOpaque OTripLineLongname trip); ("lineShortname", JOpaque OTripLineShortname trip);
            ("lineUuid", JOpaque OTripLineUuid trip);
            ("mode", JOpaque OTripModeShortname trip); ("modeName", JOpaque OTripModeName trip);
            ("nodeCode", JOpaque ONodeCode node);
            ("nodeCoordinates", JArr [JOpaque ONodeLongitude node; JOpaque ONodeLatitude node]);
            ("nodeName", JOpaque ONodeName node); ("nodeUuid", JOpaque ONodeUuid node);
            ("pathUuid", JOpaque OTripPathUuid trip);
            ("stopSequenceInTrip", JInt (Z.of_nat stopseq));
            ("tripUuid", JOpaque OTripUuid trip);
            ("waitingTime", JInt wait)]
  | SUnboard trip legseq stopseq node arr ivt ivd =>
      JObj [("action", JStr "unboarding");
            ("agencyAcronym", JOpaque OTripAgencyAcronym trip); ("agencyName", JOpaque OTripAgencyName trip);
            ("agencyUuid", JOpaque OTripAgencyUuid trip);
            ("arrivalTime", JInt arr);
            ("inVehicleDistance", JInt ivd); ("inVehicleTime", JInt ivt);
            ("legSequenceInTrip", JInt (Z.of_nat legseq));
            ("lineLongname", JOpaque OTripLineLongname trip); ("lineShortname", JOpaque OTripLineShortname trip);
            ("lineUuid", JOpaque OTripLineUuid trip);
            ("mode", JOpaque OTripModeShortname trip); ("modeName", JOpaque OTripModeName trip);
            ("nodeCode", JOpaque ONodeCode node);
            ("nodeCoordinates", JArr [JOpaque ONodeLongitude node; JOpaque ONodeLatitude node]);
            ("nodeName", JOpaque ONodeName node); ("nodeUuid", JOpaque ONodeUuid node);
            ("pathUuid", JOpaque OTripPathUuid trip);
            ("stopSequenceInTrip", JInt (Z.of_nat stopseq));
            ("tripUuid", JOpaque OTripUuid trip)]
  end.

(* the keys of a route object that carry numbers, in wire order *)
Definition route_total_keys : list string :=
  ["accessDistance"; "accessTravelTime"; "arrivalTime"; "departureTime"; "egressDistance"; "egressTravelTime";
   "firstWaitingTime"; "numberOfBoardings"; "numberOfTransfers"; "totalDistance"; "totalInVehicleDistance";
   "totalInVehicleTime"; "totalNonTransitDistance"; "totalNonTransitTravelTime"; "totalTravelTime"; "totalWaitingTime";
   "transferWaitingTime"; "transferWalkingDistance"; "transferWalkingTime"].

Definition json_of_route (r : route) : json :=
  JObj [("accessDistance", JInt (rt_accd r)); ("accessTravelTime", JInt (rt_acc r));
        ("arrivalTime", JInt (rt_arr r)); ("departureTime", JInt (rt_dep r));
        ("egressDistance", JInt (rt_egrd r)); ("egressTravelTime", JInt (rt_egr r));
        ("firstWaitingTime", JInt (rt_fwait r));
        ("numberOfBoardings", JInt (rt_nboard r)); ("numberOfTransfers", JInt (rt_ntransf r));
        ("steps", JArr (map json_of_step (rt_steps r)));
        ("totalDistance", JInt (rt_tdist r)); ("totalInVehicleDistance", JInt (rt_tivd r));
        ("totalInVehicleTime", JInt (rt_tivt r));
        ("totalNonTransitDistance", JInt (rt_tntd r)); ("totalNonTransitTravelTime", JInt (rt_tnt r));
        ("totalTravelTime", JInt (rt_ttt r)); ("totalWaitingTime", JInt (rt_twait r));
        ("transferWaitingTime", JInt (rt_trwait r));
        ("transferWalkingDistance", JInt (rt_trdist r)); ("transferWalkingTime", JInt (rt_trwalk r))].

(* "query" of /v2/route and /v2/summary, and of /v2/accessibility *)
Definition json_of_route_query (q : query_echo) : json :=
  JObj [("destination", JOpaque ODestination 0); ("origin", JOpaque OOrigin 0);
        ("timeOfTrip", JInt (qe_time q)); ("timeType", JInt (qe_time_type q))].
Definition json_of_access_query (q : query_echo) : json :=
  JObj [("place", JOpaque OPlace 0); ("timeOfTrip", JInt (qe_time q)); ("timeType", JInt (qe_time_type q))].
(* an echoed point: [longitude, latitude] *)
Definition json_of_point : json := JArr [JOpaque OPointLongitude 0; JOpaque OPointLatitude 0].

(* the strings of result_constants.hpp *)
Definition reason_text_string (t : reason_text) : string :=
  match t with
  | RT_NO_ROUTING_FOUND => "NO_ROUTING_FOUND"
  | RT_NO_ACCESS_AT_ORIGIN => "NO_ACCESS_AT_ORIGIN"
  | RT_NO_ACCESS_AT_DESTINATION => "NO_ACCESS_AT_DESTINATION"
  | RT_NO_ACCESS_AT_PLACE => "NO_ACCESS_AT_PLACE"
  | RT_NO_ACCESS_AT_ORIGIN_AND_DESTINATION => "NO_ACCESS_AT_ORIGIN_AND_DESTINATION"
  | RT_NO_SERVICE_FROM_ORIGIN => "NO_SERVICE_FROM_ORIGIN"
  | RT_NO_SERVICE_TO_DESTINATION => "NO_SERVICE_TO_DESTINATION"
  | RT_NO_SERVICE_AT_PLACE => "NO_SERVICE_AT_PLACE"
  end.

(* one entry of "nodes", from a row of the model's result (Calc.accnode) and the direction of the query *)
Definition json_of_access_node (fwd : bool) (a : accnode) : json :=
  JObj [("nodeCode", JOpaque ONodeCode (an_node a));
        ("nodeCoordinates", JArr [JOpaque ONodeLongitude (an_node a); JOpaque ONodeLatitude (an_node a)]);
        ("nodeName", JOpaque ONodeName (an_node a));
        ("nodeTime", JInt (if fwd then an_time a else an_time a - an_ttt a));
        ("nodeUuid", JOpaque ONodeUuid (an_node a));
        ("numberOfTransfers", JInt (an_ntr a));
        ("totalTravelTime", JInt (an_ttt a))].
(* the same from the handler's rendered row (Http.hnode) *)
Definition json_of_hnode (h : hnode) : json :=
  JObj [("nodeCode", JOpaque ONodeCode (hn_node h));
        ("nodeCoordinates", JArr [JOpaque ONodeLongitude (hn_node h); JOpaque ONodeLatitude (hn_node h)]);
        ("nodeName", JOpaque ONodeName (hn_node h));
        ("nodeTime", JInt (hn_time h));
        ("nodeUuid", JOpaque ONodeUuid (hn_node h));
        ("numberOfTransfers", JInt (hn_ntr h));
        ("totalTravelTime", JInt (hn_ttt h))].

(* one entry of "lines" *)
Definition json_of_line (l : nat * Z) : json :=
  JObj [("agencyAcronym", JOpaque OLineAgencyAcronym (fst l)); ("agencyName", JOpaque OLineAgencyName (fst l));
        ("agencyUuid", JOpaque OLineAgencyUuid (fst l));
        ("alternativeCount", JInt (snd l));
        ("lineLongname", JOpaque OLineLongname (fst l)); ("lineShortname", JOpaque OLineShortname (fst l));
        ("lineUuid", JOpaque OLineUuid (fst l))].

(* the body of a /v2/summary answer *)
Definition json_of_summary (nb : Z) (lines : list (nat * Z)) (q : query_echo) : json :=
  JObj [("query", json_of_route_query q);
        ("result", JObj [("lines", JArr (map json_of_line lines)); ("nbRoutes", JInt nb)]);
        ("status", JStr "success")].

(* the body of every /v2 answer of the handler model that carries a result (Http.http_body); error bodies are built by
   the server file (getFastErrorResponse / getResponseCode, tied in Proofs/HandlerGuardsTie.v), not by the renderers.
   `access` = the request came through /v2/accessibility (selects the renderer of the no-routing answer) *)
Definition json_of_body (access : bool) (b : http_body) : option json :=
  match b with
  | HRoute rs total q =>
      Some (JObj [("query", json_of_route_query q);
                  ("result", JObj [("routes", JArr (map json_of_route rs)); ("totalRoutesCalculated", JInt total)]);
                  ("status", JStr "success")])
  | HNoRouting reason q =>
      Some (JObj [("query", if access then json_of_access_query q else json_of_route_query q);
                  ("reason", JStr (reason_text_string reason));
                  ("status", JStr "no_routing_found")])
  | HAccess nodes total q =>
      Some (JObj [("query", json_of_access_query q);
                  ("result", JObj [("nodes", JArr (map json_of_hnode nodes)); ("totalNodeCount", JInt total)]);
                  ("status", JStr "success")])
  | HSummary nb lines q => Some (json_of_summary nb lines q)
  | _ => None
  end.

(* ---------------------------------------------------------------------------------------------- *)
(* property-level vocabulary on the wire format *)

(* the number under a key (0 when the key is absent or not a number: statements using jval also state presence) *)
Definition jval (k : string) (j : json) : Z := match jnum k j with Some z => z | None => 0 end.

(* the identities of C06 between the numbers found under the JSON keys of a route object *)
Definition json_C06_ok (d : data) (r : route) (j : json) : Prop :=
  let steps := match jget "steps" j with Some a => jelems a | None => [] end in
  (forall k, In k route_total_keys -> exists z, jnum k j = Some z) /\
  jval "totalTravelTime" j = jval "arrivalTime" j - jval "departureTime" j /\
  jval "totalWaitingTime" j = jval "firstWaitingTime" j + jval "transferWaitingTime" j /\
  jval "totalInVehicleTime" j = jsum "inVehicleTime" steps /\
  jval "totalWaitingTime" j = jsum "waitingTime" steps /\
  jval "totalTravelTime" j = jsum "travelTime" steps + jsum "inVehicleTime" steps + jsum "waitingTime" steps /\
  (rides_transferable d r = false ->
     jval "totalNonTransitTravelTime" j = jsum "travelTime" steps /\
     jval "numberOfBoardings" j = Z.of_nat (length (jfilter_str "action" "boarding" steps)) /\
     jval "numberOfTransfers" j = jval "numberOfBoardings" j - 1).


(* a /v2/summary body carries nb under "nbRoutes" and, per line object of "lines" and in order, the line (as the opaque
   uuid of that line id) under "lineUuid" and its count under "alternativeCount" *)
Definition summary_wire_ok (j : json) (nb : Z) (lines : list (nat * Z)) : Prop :=
  exists res ls, jget "result" j = Some res /\ jnum "nbRoutes" res = Some nb /\ jget "lines" res = Some (JArr ls) /\
    map (fun e => (jget "lineUuid" e, jnum "alternativeCount" e)) ls =
    map (fun l => (Some (JOpaque OLineUuid (fst l)), Some (snd l))) lines /\
    jget "status" j = Some (JStr "success").

