(* Examples.v — concrete datasets used for non-vacuity examples next to the property theorems. *)
From TrV Require Export Spec.
Local Open Scope Z_scope.

Definition st (a dp : Z) : stoptime := {| st_arr := a; st_dep := dp; st_cb := true; st_cu := true |}.
Definition row (n : nat) (t dd : Z) : fprow := {| fp_node := n; fp_time := t; fp_dist := dd |}.
Definition scen_all : scenario :=
  {| s_id := 1; s_services := [1%nat]; s_onlyLines := []; s_onlyModes := []; s_onlyAgencies := []; s_onlyNodes := [];
     s_exceptLines := []; s_exceptModes := []; s_exceptAgencies := []; s_exceptNodes := [] |}.

(* four stops; line 1: 1 -> 2 -> 3, line 2: 2 -> 4 (two vehicles), footpath 3 <-> 4 of 120 s *)
Definition ex_data : data :=
  {| d_nodes := [1; 2; 3; 4]%nat;
     d_fp := [(1%nat, [row 1 0 0]); (2%nat, [row 2 0 0]); (3%nat, [row 3 0 0; row 4 120 150]); (4%nat, [row 4 0 0; row 3 120 150])];
     d_rfp := [(1%nat, [row 1 0 0]); (2%nat, [row 2 0 0]); (3%nat, [row 3 0 0; row 4 120 150]); (4%nat, [row 4 0 0; row 3 120 150])];
     d_lines := [{| l_id := 1; l_agency := 1; l_mode := 1 |}; {| l_id := 2; l_agency := 1; l_mode := 1 |}];
     d_paths := [{| p_id := 1; p_line := 1; p_nodes := [1; 2; 3]%nat; p_dists := [500; 700] |};
                 {| p_id := 2; p_line := 2; p_nodes := [2; 4]%nat; p_dists := [900] |}];
     d_trips := [{| t_id := 1; t_path := 1; t_service := 1; t_times := [st 36000 36000; st 36300 36330; st 36900 36900] |};
                 {| t_id := 2; t_path := 2; t_service := 1; t_times := [st 36400 36400; st 36700 36700] |};
                 {| t_id := 3; t_path := 2; t_service := 1; t_times := [st 36600 36600; st 36900 36900] |}];
     d_scenarios := [scen_all] |}.

Definition ex_params (fwd : bool) (t : Z) : params :=
  {| q_scenario := 1; q_time := t; q_minw := 60; q_maxtt := MAX_INT; q_maxacc := 1200; q_maxegr := 1200;
     q_maxtr := 1200; q_maxfw := -1; q_fwd := fwd; q_except_lines := [] |}.
Definition ex_acc : list fprow := [row 1 100 120].
Definition ex_egr : list fprow := [row 4 50 60].
Definition ex_cs : connset := conn_set ex_data scen_all.

Example ex_data_wf : wf_data_b ex_data = true /\ pos_hops_b ex_data = true /\ uniform_wait_b ex_data = true.
Proof. vm_compute. auto. Qed.
Example ex_tables_wf : wf_tables_b ex_data (ex_params true 35000) ex_acc ex_egr = true /\ wf_params_b (ex_params true 35000) = true.
Proof. vm_compute. auto. Qed.

(* the model's answer: one transfer at stop 2 (trip 1 then trip 2), leaving as late as possible *)
Example ex_forward_answer :
  match calc_single ex_data ex_cs (ex_params true 35000) ex_acc ex_egr true with
  | Ok (r, _) => rt_dep r = 35840 /\ rt_arr r = 36750 /\ rt_nboard r = 2
  | _ => False
  end.
Proof. vm_compute. auto. Qed.

(* the same hypotheses are met by an arrival query (reverse direction), and the answer is the one a rider expects:
   trip 1 then the LATER vehicle of line 2 (trip 3), arriving at 36950 <= 37000 *)
Example ex_reverse_tables_wf :
  wf_tables_b ex_data (ex_params false 37000) ex_acc ex_egr = true /\ wf_params_b (ex_params false 37000) = true.
Proof. vm_compute. auto. Qed.
Example ex_reverse_answer :
  match calc_single ex_data ex_cs (ex_params false 37000) ex_acc ex_egr true with
  | Ok (r, _) => rt_dep r = 35840 /\ rt_arr r = 36950 /\ rt_nboard r = 2 /\ rt_ttt r = 1110
  | _ => False
  end.
Proof. vm_compute. auto. Qed.

(* both answers satisfy the executable specifications the C01 / C02 / C06 theorems conclude with (so those conclusions
   are not satisfied only by degenerate routes) *)
Example ex_answers_meet_spec :
  forall fwd t, (fwd, t) = (true, 35000) \/ (fwd, t) = (false, 37000) ->
  match calc_single ex_data ex_cs (ex_params fwd t) ex_acc ex_egr true with
  | Ok (r, _) => valid_itinerary_b ex_data scen_all (ex_params fwd t) ex_acc ex_egr r = true /\
                 limits_ok_b ex_data scen_all (ex_params fwd t) r = true /\
                 totals_ok_b ex_data (ex_params fwd t) r = true
  | _ => False
  end.
Proof. intros fwd t [H | H]; inversion H; subst; vm_compute; auto. Qed.

(* accessibility maps of the same two places (C08 / C09): every stop but the origin's own one forward; backward only the
   stops from which the destination's stop 4 is reached by 37000 *)
Example ex_forward_access_map :
  match calc_allnodes ex_data ex_cs (ex_params true 35000) ex_acc with
  | Ok (l, total) => map (fun a => (an_node a, an_time a, an_ntr a)) l = [(2%nat, 36300, 0); (3%nat, 36900, 0); (4%nat, 36700, 1)] /\ total = 4
  | _ => False
  end.
Proof. vm_compute. auto. Qed.
Example ex_reverse_access_map :
  match calc_allnodes ex_data ex_cs (ex_params false 37000) ex_egr with
  | Ok (l, total) => map (fun a => (an_node a, an_ttt a, an_ntr a)) l = [(1%nat, 1060, 1); (2%nat, 460, 0)] /\ total = 4
  | _ => False
  end.
Proof. vm_compute. auto. Qed.

(* alternatives (C10): with a second, longer egress walk from stop 3 the same query has two routes with different line sets,
   each a valid itinerary of the ORIGINAL query; five line combinations were looked at *)
Definition ex_egr_far : list fprow := [row 4 50 60; row 3 400 480].
Example ex_alternatives_answer :
  wf_tables_b ex_data (ex_params true 35000) ex_acc ex_egr_far = true /\
  match alternatives ex_data ex_cs (ex_params true 35000) ex_acc ex_egr_far with
  | Ok (l, n) =>
      map (fun r => (rt_dep r, rt_arr r, route_lines ex_data r)) l = [(35840, 36750, [1%nat; 2%nat]); (35840, 37300, [1%nat])] /\
      forallb (valid_itinerary_b ex_data scen_all (ex_params true 35000) ex_acc ex_egr_far) l = true /\ n = 5
  | _ => False
  end.
Proof. vm_compute. auto. Qed.

(* no_routing_found (C07): the same dataset yields every one of the six reasons, and the facts the reasons speak about are as
   the reason says (a vehicle does leave the origin's stop in the NO_ROUTING_FOUND case; none does after 37000) *)
Example ex_reasons :
  let q fwd t acc egr := calc_single ex_data ex_cs (ex_params fwd t) acc egr true in
  q true 35000 ex_acc [row 1 50 60] = NoRouting R_NO_ROUTING_FOUND /\
  q true 35000 [] ex_egr = NoRouting R_NO_ACCESS_AT_ORIGIN /\
  q true 35000 ex_acc [] = NoRouting R_NO_ACCESS_AT_DESTINATION /\
  q true 37000 ex_acc ex_egr = NoRouting R_NO_SERVICE_FROM_ORIGIN /\
  q false 36000 ex_acc ex_egr = NoRouting R_NO_SERVICE_TO_DESTINATION /\
  q true 35000 [] [] = NoRouting R_NO_ACCESS_AT_ORIGIN_AND_DESTINATION /\
  service_from_origin_b ex_data scen_all (ex_params true 35000) ex_acc = true /\
  service_from_origin_b ex_data scen_all (ex_params true 37000) ex_acc = false /\
  service_to_destination_b ex_data scen_all (ex_params false 36000) ex_egr false = false.
Proof. vm_compute. repeat split; reflexivity. Qed.
