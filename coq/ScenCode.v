(* ScenCode.v — interpreters of the data tools/gen_scenario.py regenerates (coq/gen/Scenario.v) from
     src/transit_data.cpp          TransitData::getConnectionsForScenario: the chain of trip tests, the tail of the trip
                                   loop, the two connection loops, the ConnectionSet constructor call, the cache protocol
     connection_scan_algorithm/src/resets.cpp   Calculator::resetFilters: the second copy of the chain (on the REQUEST's lists)
     src/connection_cache.cpp      the six cache methods as statement lists (lock, comparison / look-up / write, return)
     connection_scan_algorithm/src/result_to_v2_summary.cpp   the visitor and SummaryResultAccumulator::processSingleCalculationResult
     src/connection_set.cpp        ConnectionSet::generateConnectionsIteratorCache: the four loops that fill the hour tables
   Hand-written; the ties are Proofs/ScenarioTie.v, CacheTie.v, SummaryTie.v, IndexTie.v. *)
From Coq Require Import List ZArith Bool Arith.
From TrV Require Export Render.
Import ListNotations.
Local Open Scope Z_scope.

(* ============================================================================================== *)
(* 1. the trip filter                                                                              *)

(* the lists a test may look at (members of Scenario / getters of the request class in parameters.hpp) *)
Inductive slist := LServices | LOnlyLines | LOnlyModes | LOnlyAgencies | LOnlyNodes
                 | LExceptServices | LExceptLines | LExceptModes | LExceptAgencies | LExceptNodes.
(* the attribute of the trip that is searched for *)
Inductive tattr := AService | ALine | AMode | AAgency.
(* `std::find(...) == X.end()` then disable: the attribute MUST BE IN the list; `!=`: it MUST NOT BE IN it *)
Inductive polarity := MustBeIn | MustNotBeIn.
(* the body of a test: empty (onlyNodes / exceptNodes), or one search whose hit/miss writes `enabled = v` *)
Inductive fbody := FNothing | FFind (l : slist) (a : tattr) (p : polarity) (v : bool).
(* if ([enabled &&] [G.size() > 0]) { body } *)
Record ftest := { ft_conj : bool; ft_guard : option slist; ft_body : fbody }.

Definition scen_lists (s : scenario) (l : slist) : list nat :=
  match l with
  | LServices => s_services s | LOnlyLines => s_onlyLines s | LOnlyModes => s_onlyModes s
  | LOnlyAgencies => s_onlyAgencies s | LOnlyNodes => s_onlyNodes s
  | LExceptServices => []            (* Scenario has no such member; the request's exceptServices is never filled *)
  | LExceptLines => s_exceptLines s | LExceptModes => s_exceptModes s
  | LExceptAgencies => s_exceptAgencies s | LExceptNodes => s_exceptNodes s
  end.

(* the request's lists: only exceptLines is ever written (alternatives_routing.cpp), as Scan.disabled_of has it *)
Definition param_lists (p : params) (l : slist) : list nat :=
  match l with LExceptLines => q_except_lines p | _ => [] end.

Definition attr_of (d : data) (t : trip) (a : tattr) : nat :=
  match a with AService => t_service t | ALine => trip_line d t | AMode => trip_mode d t | AAgency => trip_agency d t end.

Definition body_fires (d : data) (ls : slist -> list nat) (t : trip) (b : fbody) : option bool :=
  match b with
  | FNothing => None
  | FFind l a p v =>
      let found := memb (attr_of d t a) (ls l) in
      if (match p with MustBeIn => negb found | MustNotBeIn => found end) then Some v else None
  end.

Definition guard_holds (ls : slist -> list nat) (enabled : bool) (ft : ftest) : bool :=
  (if ft_conj ft then enabled else true) &&
  match ft_guard ft with Some l => nonempty (ls l) | None => true end.

(* one `if` of the chain: the new value of `enabled` *)
Definition run_test (d : data) (ls : slist -> list nat) (t : trip) (enabled : bool) (ft : ftest) : bool :=
  if guard_holds ls enabled ft then
    match body_fires d ls t (ft_body ft) with Some v => v | None => enabled end
  else enabled.

(* `bool enabled = true;` then the chain in order *)
Definition run_filter_on (fts : list ftest) (d : data) (ls : slist -> list nat) (t : trip) : bool :=
  fold_left (run_test d ls t) fts true.
Definition run_filter (fts : list ftest) (d : data) (s : scenario) (t : trip) : bool :=
  run_filter_on fts d (scen_lists s) t.

(* ============================================================================================== *)
(* 1b. the connection-set construction                                                             *)

(* local maps (std::unordered_map<Trip::uid_t, bool>, operator[] default false), local vectors of trips and of
   connections: each numbered in declaration order within its kind *)
Inductive bexp := BEnabled | BMap (m : nat) | BNot (b : bexp) | BConst (b : bool).
Inductive tstmt :=
| TSetMap (m : nat) (b : bexp)          (* M[trip.uid] = b; *)
| TPushIf (b : bexp) (v : nat)          (* if (b) V.push_back(trip); *)
| TSetMapIf (c : bexp) (m : nat) (b : bexp).   (* if (c) M[trip.uid] = b;   (resetFilters) *)
Inductive csrc := SForward | SReverse.  (* the member vector the loop runs over, begin to end *)
(* for (connection in src) { trip = connection.getTrip(); if (keep) OUT.push_back( *connection ); } *)
Record cloop := { cl_src : csrc; cl_keep : bexp; cl_out : nat }.

Record bstate := { b_maps : nat -> nat -> bool; b_tvecs : nat -> list nat; b_cvecs : nat -> list conn }.
Definition b_init : bstate :=
  {| b_maps := fun _ _ => false; b_tvecs := fun _ => []; b_cvecs := fun _ => [] |}.

Fixpoint eval_b (st : bstate) (enabled : bool) (tid : nat) (b : bexp) : bool :=
  match b with
  | BEnabled => enabled
  | BMap m => b_maps st m tid
  | BNot x => negb (eval_b st enabled tid x)
  | BConst c => c
  end.

Definition run_tstmt (enabled : bool) (tid : nat) (st : bstate) (x : tstmt) : bstate :=
  match x with
  | TSetMap m b =>
      let v := eval_b st enabled tid b in
      {| b_maps := upd (b_maps st) m (upd (b_maps st m) tid v); b_tvecs := b_tvecs st; b_cvecs := b_cvecs st |}
  | TPushIf b v =>
      if eval_b st enabled tid b then
        {| b_maps := b_maps st; b_tvecs := upd (b_tvecs st) v (b_tvecs st v ++ [tid]); b_cvecs := b_cvecs st |}
      else st
  | TSetMapIf c m b =>
      if eval_b st enabled tid c then
        let v := eval_b st enabled tid b in
        {| b_maps := upd (b_maps st) m (upd (b_maps st m) tid v); b_tvecs := b_tvecs st; b_cvecs := b_cvecs st |}
      else st
  end.

(* for (tripIte : getTrips()) { enabled = true; chain; tail } — getTrips() is a std::map keyed by uid: d_trips in order *)
Definition run_trip_iter (fts : list ftest) (tail : list tstmt) (d : data) (s : scenario) (st : bstate) (t : trip) : bstate :=
  fold_left (run_tstmt (run_filter fts d s t) (t_id t)) tail st.
Definition run_trip_loop (fts : list ftest) (tail : list tstmt) (d : data) (s : scenario) (st : bstate) : bstate :=
  fold_left (run_trip_iter fts tail d s) (d_trips d) st.

Definition src_conns (d : data) (x : csrc) : list conn :=
  match x with SForward => sorted_fwd d | SReverse => sorted_rev d end.

Definition run_cloop_iter (cl : cloop) (st : bstate) (c : conn) : bstate :=
  if eval_b st false (c_trip c) (cl_keep cl) then
    {| b_maps := b_maps st; b_tvecs := b_tvecs st;
       b_cvecs := upd (b_cvecs st) (cl_out cl) (b_cvecs st (cl_out cl) ++ [c]) |}
  else st.
Definition run_cloop (d : data) (st : bstate) (cl : cloop) : bstate :=
  fold_left (run_cloop_iter cl) (src_conns d (cl_src cl)) st.

(* the cache protocol around the construction *)
Inductive keysel := KScenarioUuid | KOther.     (* `scenario.uuid` | anything else *)
Inductive pstmt :=
| PGet (k : keysel)          (* opt = scenarioConnectionCache->get(k); *)
| PIfHitReturnCached         (* if (opt.has_value()) { return opt.value(); } *)
| PBuild                     (* trip loop; connection loops; built = make_shared<ConnectionSet>(...) *)
| PSet (k : keysel)          (* scenarioConnectionCache->set(k, built); *)
| PReturnBuilt.              (* return built; *)

Record scen_code := { sc_filter : list ftest; sc_tail : list tstmt; sc_loops : list cloop;
                      sc_ctor : nat * nat * nat;      (* ConnectionSet(trip vector, connection vector, connection vector) *)
                      sc_protocol : list pstmt }.

Definition run_build (k : scen_code) (d : data) (s : scenario) : connset :=
  let st1 := run_trip_loop (sc_filter k) (sc_tail k) d s b_init in
  let st2 := fold_left (run_cloop d) (sc_loops k) st1 in
  let '(a, b, c) := sc_ctor k in
  mk_connset (b_tvecs st2 a) (b_cvecs st2 b) (b_cvecs st2 c).

Definition key_of (s : scenario) (k : keysel) : option nat :=
  match k with KScenarioUuid => Some (s_id s) | KOther => None end.

(* None = the function cannot be read as "look up, else build, store, return" (unknown key, value used before it exists,
   falling off the end) *)
Fixpoint run_protocol_from (k : scen_code) (d : data) (s : scenario) (l : list pstmt)
         (c : cache) (opt built : option connset) : option (connset * cache) :=
  match l with
  | [] => None
  | PGet ks :: r =>
      match key_of s ks with Some id => run_protocol_from k d s r c (cache_get c id) built | None => None end
  | PIfHitReturnCached :: r =>
      match opt with Some cs => Some (cs, c) | None => run_protocol_from k d s r c opt built end
  | PBuild :: r => run_protocol_from k d s r c opt (Some (run_build k d s))
  | PSet ks :: r =>
      match key_of s ks, built with
      | Some id, Some b => run_protocol_from k d s r (cache_set c id b) opt built
      | _, _ => None
      end
  | PReturnBuilt :: r => match built with Some b => Some (b, c) | None => None end
  end.
Definition run_protocol (k : scen_code) (d : data) (s : scenario) (c : cache) : option (connset * cache) :=
  run_protocol_from k d s (sc_protocol k) c None None.

Definition get_keys (l : list pstmt) : list keysel :=
  flat_map (fun x => match x with PGet k => [k] | _ => [] end) l.
Definition set_keys (l : list pstmt) : list keysel :=
  flat_map (fun x => match x with PSet k => [k] | _ => [] end) l.

(* ============================================================================================== *)
(* 2. the cache methods                                                                            *)

Inductive lockkind := LkShared | LkUnique.                 (* std::shared_lock / std::unique_lock on `mutex` *)
Inductive cmember := MLastUuid | MLastConnection | MConnectionSets.
Inductive cexp :=
| EArgUuid | EArgCache                                     (* the parameters `uuid`, `cache` *)
| EMember (m : cmember)
| EEq (a b : cexp) | ENe (a b : cexp)
| ELocal (n : nat)
| EMapFind (m : cmember) (k : cexp)                        (* M.find(k) *)
| EIsEnd (m : cmember) (it : cexp)                         (* it == M.end() *)
| ENotEnd (m : cmember) (it : cexp)                        (* it != M.end() *)
| EIterSecond (it : cexp).                                 (* it->second *)
Inductive cstmt :=
| CLog                                                     (* spdlog::... *)
| CLock (k : lockkind)
| CLet (n : nat) (e : cexp)                                (* a local, numbered in declaration order *)
| CIf (c : cexp) (th el : list cstmt)
| CReturnSome (e : cexp)                                   (* return std::optional(e); *)
| CReturnNone                                              (* return std::nullopt; *)
| CAssign (m : cmember) (e : cexp)                         (* m = e; *)
| CReset (m : cmember)                                     (* m.reset(); *)
| CMapAssign (m : cmember) (k v : cexp)                    (* m[k] = v; *)
| CMapClear (m : cmember).                                 (* m.clear(); *)

(* the members of the two classes, side by side *)
Record mstate := { m_lastUuid : option nat; m_lastConn : option connset; m_sets : list (nat * connset) }.
Definition repr (c : cache) : mstate :=
  match c with
  | COne (Some (k, v)) => {| m_lastUuid := Some k; m_lastConn := Some v; m_sets := [] |}
  | COne None => {| m_lastUuid := None; m_lastConn := None; m_sets := [] |}
  | CAll l => {| m_lastUuid := None; m_lastConn := None; m_sets := l |}
  end.

Inductive cval :=
| VUuid (u : nat) | VOptUuid (o : option nat) | VPtr (p : option connset) | VBool (b : bool)
| VIter (e : option (nat * connset)) | VMap (l : list (nat * connset)).

(* the thread's view: `pre` is the state of the members at some moment BEFORE it holds the lock (another thread may
   have written since), `cur` the state while it holds it.  A read without the lock sees `pre`. *)
Record cenv := { e_held : bool; e_pre : mstate; e_cur : mstate; e_locals : nat -> option cval;
                 e_uuid : nat; e_cache : option connset }.

Definition read_member (st : mstate) (m : cmember) : cval :=
  match m with
  | MLastUuid => VOptUuid (m_lastUuid st)
  | MLastConnection => VPtr (m_lastConn st)
  | MConnectionSets => VMap (m_sets st)
  end.

Definition uuid_eq (a b : cval) : option bool :=
  match a, b with
  | VUuid x, VUuid y => Some (Nat.eqb x y)
  | VUuid x, VOptUuid (Some y) | VOptUuid (Some y), VUuid x => Some (Nat.eqb x y)
  | VUuid _, VOptUuid None | VOptUuid None, VUuid _ => Some false      (* an empty optional equals no value *)
  | _, _ => None
  end.

Fixpoint eval_c (e : cenv) (x : cexp) : option cval :=
  match x with
  | EArgUuid => Some (VUuid (e_uuid e))
  | EArgCache => Some (VPtr (e_cache e))
  | EMember m => Some (read_member (if e_held e then e_cur e else e_pre e) m)
  | EEq a b => match eval_c e a, eval_c e b with
               | Some va, Some vb => option_map VBool (uuid_eq va vb)
               | _, _ => None
               end
  | ENe a b => match eval_c e a, eval_c e b with
               | Some va, Some vb => option_map (fun r => VBool (negb r)) (uuid_eq va vb)
               | _, _ => None
               end
  | ELocal n => e_locals e n
  | EMapFind m k =>
      match read_member (if e_held e then e_cur e else e_pre e) m, eval_c e k with
      | VMap l, Some (VUuid u) =>
          Some (VIter (match assoc u l with Some v => Some (u, v) | None => None end))
      | _, _ => None
      end
  | EIsEnd _ it => match eval_c e it with Some (VIter o) => Some (VBool (negb (is_some o))) | _ => None end
  | ENotEnd _ it => match eval_c e it with Some (VIter o) => Some (VBool (is_some o)) | _ => None end
  | EIterSecond it => match eval_c e it with Some (VIter (Some (_, v))) => Some (VPtr (Some v)) | _ => None end
  end.

(* Ret None = std::nullopt, Ret (Some p) = std::optional(p); Stuck = not readable as a step (type error, a write
   without the lock, a second lock on the non-recursive mutex) *)
Inductive coutcome := Cont (e : cenv) | Ret (r : option (option connset)) (e : cenv) | Stuck.

Definition set_cur (e : cenv) (st : mstate) : cenv :=
  {| e_held := e_held e; e_pre := e_pre e; e_cur := st; e_locals := e_locals e; e_uuid := e_uuid e; e_cache := e_cache e |}.

Definition seq_run (f : cstmt -> cenv -> coutcome) : list cstmt -> cenv -> coutcome :=
  fix go (l : list cstmt) (e : cenv) : coutcome :=
    match l with
    | [] => Cont e
    | x :: r => match f x e with Cont e1 => go r e1 | o => o end
    end.

Fixpoint run_cstmt (x : cstmt) (e : cenv) : coutcome :=
  match x with
  | CLog => Cont e
  | CLock _ =>
      if e_held e then Stuck
      else Cont {| e_held := true; e_pre := e_pre e; e_cur := e_cur e; e_locals := e_locals e;
                   e_uuid := e_uuid e; e_cache := e_cache e |}
  | CLet n x1 =>
      match eval_c e x1 with
      | Some v => Cont {| e_held := e_held e; e_pre := e_pre e; e_cur := e_cur e; e_locals := upd (e_locals e) n (Some v);
                          e_uuid := e_uuid e; e_cache := e_cache e |}
      | None => Stuck
      end
  | CIf c th el =>
      match eval_c e c with
      | Some (VBool true) => seq_run run_cstmt th e
      | Some (VBool false) => seq_run run_cstmt el e
      | _ => Stuck
      end
  | CReturnSome x1 => match eval_c e x1 with Some (VPtr p) => Ret (Some p) e | _ => Stuck end
  | CReturnNone => Ret None e
  | CAssign m x1 =>
      if negb (e_held e) then Stuck else
      match m, eval_c e x1 with
      | MLastUuid, Some (VUuid u) =>
          Cont (set_cur e {| m_lastUuid := Some u; m_lastConn := m_lastConn (e_cur e); m_sets := m_sets (e_cur e) |})
      | MLastConnection, Some (VPtr p) =>
          Cont (set_cur e {| m_lastUuid := m_lastUuid (e_cur e); m_lastConn := p; m_sets := m_sets (e_cur e) |})
      | _, _ => Stuck
      end
  | CReset m =>
      if negb (e_held e) then Stuck else
      match m with
      | MLastUuid => Cont (set_cur e {| m_lastUuid := None; m_lastConn := m_lastConn (e_cur e); m_sets := m_sets (e_cur e) |})
      | MLastConnection => Cont (set_cur e {| m_lastUuid := m_lastUuid (e_cur e); m_lastConn := None; m_sets := m_sets (e_cur e) |})
      | MConnectionSets => Stuck
      end
  | CMapAssign m k v =>
      if negb (e_held e) then Stuck else
      match m, eval_c e k, eval_c e v with
      | MConnectionSets, Some (VUuid u), Some (VPtr (Some p)) =>
          (* the newest binding shadows older ones, as Server.cache_set has it *)
          Cont (set_cur e {| m_lastUuid := m_lastUuid (e_cur e); m_lastConn := m_lastConn (e_cur e);
                             m_sets := (u, p) :: m_sets (e_cur e) |})
      | _, _, _ => Stuck
      end
  | CMapClear m =>
      if negb (e_held e) then Stuck else
      match m with
      | MConnectionSets => Cont (set_cur e {| m_lastUuid := m_lastUuid (e_cur e); m_lastConn := m_lastConn (e_cur e); m_sets := [] |})
      | _ => Stuck
      end
  end.

Definition cenv_init (pre cur : mstate) (uuid : nat) (arg : option connset) : cenv :=
  {| e_held := false; e_pre := pre; e_cur := cur; e_locals := fun _ => None; e_uuid := uuid; e_cache := arg |}.

(* a method call: what it returns (MVoid = fell off the end; MNullopt; MSome p = std::optional(p)) and the members
   afterwards *)
Inductive mret := MVoid | MNullopt | MSome (p : option connset).
Definition run_method (body : list cstmt) (pre cur : mstate) (uuid : nat) (arg : option connset)
  : option (mret * mstate) :=
  match seq_run run_cstmt body (cenv_init pre cur uuid arg) with
  | Cont e => Some (MVoid, e_cur e)
  | Ret None e => Some (MNullopt, e_cur e)
  | Ret (Some p) e => Some (MSome p, e_cur e)
  | Stuck => None
  end.

(* structure: the first effectful statement (logging aside) takes the lock; which lock; only one *)
Fixpoint skip_logs (l : list cstmt) : list cstmt :=
  match l with CLog :: r => skip_logs r | _ => l end.
Definition lock_first (b : list cstmt) : bool :=
  match skip_logs b with CLock _ :: _ => true | _ => false end.
Definition lock_taken (b : list cstmt) : option lockkind :=
  match skip_logs b with CLock k :: _ => Some k | _ => None end.

Fixpoint exp_reads_member (x : cexp) : bool :=
  match x with
  | EArgUuid | EArgCache | ELocal _ => false
  | EMember _ => true
  | EEq a b | ENe a b => exp_reads_member a || exp_reads_member b
  | EMapFind _ _ | EIsEnd _ _ | ENotEnd _ _ => true
  | EIterSecond it => exp_reads_member it
  end.
Definition blk_touches (f : cstmt -> bool) : list cstmt -> bool :=
  fix go (l : list cstmt) : bool := match l with [] => false | x :: r => f x || go r end.
Fixpoint stmt_touches (x : cstmt) : bool :=
  match x with
  | CLog | CLock _ | CReturnNone => false
  | CLet _ e | CReturnSome e => exp_reads_member e
  | CIf c th el => exp_reads_member c || blk_touches stmt_touches th || blk_touches stmt_touches el
  | CAssign _ _ | CReset _ | CMapAssign _ _ _ | CMapClear _ => true
  end.
Fixpoint count_locks (x : cstmt) : nat :=
  match x with
  | CLock _ => 1%nat
  | CIf _ th el => ((fix go (l : list cstmt) : nat := match l with [] => 0 | y :: r => count_locks y + go r end) th
                    + (fix go (l : list cstmt) : nat := match l with [] => 0 | y :: r => count_locks y + go r end) el)%nat
  | _ => 0%nat
  end.
Definition locks_in (b : list cstmt) : nat := fold_right (fun x n => (count_locks x + n)%nat) 0%nat b.

(* every statement that reads or writes a member comes after THE lock statement of the method body (a lock object
   declared at the top level of the body is held until the function returns) *)
Fixpoint members_under_lock (b : list cstmt) : bool :=
  match b with
  | [] => true
  | CLock _ :: _ => true
  | x :: r => negb (stmt_touches x) && members_under_lock r
  end.
Definition lock_discipline (b : list cstmt) (k : lockkind) : bool :=
  lock_first b && members_under_lock b && Nat.eqb (locks_in b) 1 &&
  match lock_taken b, k with
  | Some LkShared, LkShared | Some LkUnique, LkUnique => true
  | _, _ => false
  end.

Record cache_code := { cc_get : list cstmt; cc_set : list cstmt; cc_clear : list cstmt }.

(* ============================================================================================== *)
(* 3. the summary accumulator                                                                      *)
Local Open Scope Z_scope.

(* what the visitor leaves in `response` for a step kind *)
Inductive vresp := VSummary          (* response.emplace(LineSummary(step.trip)) *)
                 | VNone.            (* response.reset() *)
Record visitor_code := { vc_board : vresp; vc_unboard : vresp; vc_walk : vresp }.
(* LineSummary(const LineSummary& obj): count = obj.count | count = z *)
Inductive copysel := CopyCount | CopyConst (z : Z).

(* maps from line uuid to LineSummary: 0 = the member lineSummaries, locals of processSingleCalculationResult from 1
   (empty at every call).  Only the count of a LineSummary is modelled (its trip is a function of the key's line as far
   as the renderer reads it: gen/Render.v, OLine... selectors). *)
Inductive akey := AKLine             (* <the visitor's summary>.trip.line.uuid *)
                | AKEntry.           (* <loop variable>.first, in a loop over a map *)
Inductive astmt :=
| AIfAbsent (m : nat) (k : akey) (th el : list astmt)    (* if (M.find(k) == M.end()) th else el *)
| AEmplace (m : nat) (k : akey)                           (* M.emplace(k, summary): no effect when k is present *)
| AEmplaceElse (m : nat) (k : akey) (el : list astmt)     (* auto r = M.emplace(k, summary); if (!r.second) el *)
| AIncr (m : nat) (k : akey)                              (* M.at(k).count++   (r.first->second.count++) *)
| ASetCount (m : nat) (k : akey) (z : Z)                  (* M.at(k).count = z *)
| AMerge (dst src : nat)                                  (* dst.merge(src): src keeps the keys dst already had *)
| AForMap (m : nat) (body : list astmt).                  (* for (auto &e : M) body *)
Record acc_code := { ac_visitor : visitor_code; ac_ctor_count : Z; ac_copy : copysel;
                     ac_step : list astmt;     (* for (step : result.steps) { opt = accept; if (opt.has_value()) { HERE } } *)
                     ac_after : list astmt }.  (* after that loop *)

(* std::map as a key-ordered list: search, emplace, in-place update - all three walk the order the same way *)
Fixpoint sm_find (k : nat) (m : list (nat * Z)) : option Z :=
  match m with
  | [] => None
  | (k', c) :: r => if Nat.eqb k k' then Some c else if Nat.ltb k k' then None else sm_find k r
  end.
Fixpoint sm_emplace (k : nat) (v : Z) (m : list (nat * Z)) : list (nat * Z) :=
  match m with
  | [] => [(k, v)]
  | (k', c) :: r => if Nat.eqb k k' then m else if Nat.ltb k k' then (k, v) :: m else (k', c) :: sm_emplace k v r
  end.
Fixpoint sm_adjust (k : nat) (f : Z -> Z) (m : list (nat * Z)) : list (nat * Z) :=
  match m with
  | [] => []
  | (k', c) :: r => if Nat.eqb k k' then (k', f c) :: r else if Nat.ltb k k' then m else (k', c) :: sm_adjust k f r
  end.
Definition sm_merge (dst src : list (nat * Z)) : list (nat * Z) :=
  fold_left (fun acc kv => sm_emplace (fst kv) (snd kv) acc) src dst.
Definition sm_rest (dst src : list (nat * Z)) : list (nat * Z) :=
  filter (fun kv => is_some (sm_find (fst kv) dst)) src.

Definition amaps := nat -> list (nat * Z).

Definition aseq (f : astmt -> option nat -> amaps -> option amaps) : list astmt -> option nat -> amaps -> option amaps :=
  fix go (l : list astmt) (entry : option nat) (st : amaps) : option amaps :=
    match l with
    | [] => Some st
    | x :: r => match f x entry st with Some st1 => go r entry st1 | None => None end
    end.

(* None: std::out_of_range from .at(), or a key that does not exist in this scope *)
Fixpoint run_astmt (init : Z) (line : option nat) (x : astmt) (entry : option nat) (st : amaps) {struct x} : option amaps :=
  let key := fun k => match k with AKLine => line | AKEntry => entry end in
  match x with
  | AIfAbsent m k th el =>
      match key k with
      | Some kk => if is_some (sm_find kk (st m)) then aseq (run_astmt init line) el entry st
                   else aseq (run_astmt init line) th entry st
      | None => None
      end
  | AEmplace m k =>
      match key k with Some kk => Some (upd st m (sm_emplace kk init (st m))) | None => None end
  | AEmplaceElse m k el =>
      match key k with
      | Some kk => if is_some (sm_find kk (st m)) then aseq (run_astmt init line) el entry st
                   else Some (upd st m (sm_emplace kk init (st m)))
      | None => None
      end
  | AIncr m k =>
      match key k with
      | Some kk => if is_some (sm_find kk (st m)) then Some (upd st m (sm_adjust kk (fun c => c + 1) (st m))) else None
      | None => None
      end
  | ASetCount m k z =>
      match key k with
      | Some kk => if is_some (sm_find kk (st m)) then Some (upd st m (sm_adjust kk (fun _ => z) (st m))) else None
      | None => None
      end
  | AMerge dst src =>
      Some (upd (upd st dst (sm_merge (st dst) (st src))) src (sm_rest (st dst) (st src)))
  | AForMap m body =>
      fold_left (fun acc kk => match acc with
                               | Some s => aseq (run_astmt init line) body (Some kk) s
                               | None => None
                               end) (map fst (st m)) (Some st)
  end.

(* the count a summary carries when it reaches the map: constructed, then copied *)
Definition acc_init (k : acc_code) : Z :=
  match ac_copy k with CopyCount => ac_ctor_count k | CopyConst z => z end.

(* the line the visitor's answer names for a step, if it answers (a step whose trip the data does not know names
   nothing, as Calc.route_lines has it) *)
Definition step_line (v : visitor_code) (d : data) (s : Journey.step) : option nat :=
  match s with
  | SBoard t _ _ _ _ _ =>
      match vc_board v with VSummary => option_map (trip_line d) (find_trip d t) | VNone => None end
  | SUnboard t _ _ _ _ _ _ =>
      match vc_unboard v with VSummary => option_map (trip_line d) (find_trip d t) | VNone => None end
  | SWalk _ _ _ _ _ _ => None
  end.

(* processSingleCalculationResult(result) on the accumulator whose member map is m0 *)
Definition run_process (k : acc_code) (d : data) (r : route) (m0 : list (nat * Z)) : option (list (nat * Z)) :=
  let st0 : amaps := fun m => if Nat.eqb m 0 then m0 else [] in
  let st1 := fold_left (fun acc s =>
                          match acc, step_line (ac_visitor k) d s with
                          | Some st, Some l => aseq (run_astmt (acc_init k) (Some l)) (ac_step k) None st
                          | _, _ => acc
                          end) (rt_steps r) (Some st0) in
  match st1 with
  | Some st => option_map (fun st' : amaps => st' 0%nat) (aseq (run_astmt (acc_init k) None) (ac_after k) None st)
  | None => None
  end.

(* a fresh accumulator fed with every route, in order (which results are fed is regenerated by tools/gen_render.py) *)
Definition run_summary (k : acc_code) (d : data) (rs : list route) : option (list (nat * Z)) :=
  fold_left (fun acc r => match acc with Some m => run_process k d r m | None => None end) rs (Some []).

(* ============================================================================================== *)
(* 4. the hour tables (ConnectionSet::generateConnectionsIteratorCache)                            *)

Inductive itime := ITDeparture | ITArrival.                (* getDepartureTime() / getArrivalTime() of the connection *)
Inductive icmp := ICGe | ICLe | ICGt | ICLt.
Inductive iplace := IPushBack                              (* TABLE.push_back(x) *)
                  | IInsertFront.                          (* TABLE.insert(TABLE.begin(), x) *)
(* for (ite = SRC.cbegin(); ite != SRC.cend(); ite++)
     while (time( *ite ) CMP currentHour * SCALE [&& currentHour BCMP BOUND]) { TABLE.place(ite); currentHour += DIR; } *)
Record iwhile := { iw_src : csrc; iw_time : itime; iw_cmp : icmp; iw_scale : Z; iw_bound : option (icmp * Z);
                   iw_table : csrc; iw_place : iplace; iw_dir : Z }.
(* for (; currentHour CMP BOUND; currentHour += DIR) TABLE.place(ENDOF.cend()); *)
Record ifill := { if_cmp : icmp; if_bound : Z; if_table : csrc; if_place : iplace; if_end_of : csrc; if_dir : Z }.
Inductive istmt :=
| ISetHour (h : Z)                                         (* [int] currentHour = h; *)
| IWhileLoop (w : iwhile)
| IFill (f : ifill).

(* iterators are positions; cend() is the length *)
Record istate := { i_hour : Z; i_ftab : list nat; i_rtab : list nat }.

Definition icmp_holds (c : icmp) (a b : Z) : bool :=
  match c with ICGe => a >=? b | ICLe => a <=? b | ICGt => a >? b | ICLt => a <? b end.
Definition itime_of (t : itime) (c : conn) : Z := match t with ITDeparture => c_dep c | ITArrival => c_arr c end.
Definition iplace_do (p : iplace) (x : nat) (tab : list nat) : list nat :=
  match p with IPushBack => tab ++ [x] | IInsertFront => x :: tab end.
Definition i_place (tb : csrc) (p : iplace) (x : nat) (dir : Z) (st : istate) : istate :=
  match tb with
  | SForward => {| i_hour := i_hour st + dir; i_ftab := iplace_do p x (i_ftab st); i_rtab := i_rtab st |}
  | SReverse => {| i_hour := i_hour st + dir; i_ftab := i_ftab st; i_rtab := iplace_do p x (i_rtab st) |}
  end.

Definition iw_cond (w : iwhile) (c : conn) (h : Z) : bool :=
  icmp_holds (iw_cmp w) (itime_of (iw_time w) c) (h * iw_scale w) &&
  match iw_bound w with Some (bc, b) => icmp_holds bc h b | None => true end.
(* the `while`, with fuel: enough for every loop whose hour moves towards the time / the bound one by one (a loop that
   needs more is cut short, and the tie fails) *)
Fixpoint iw_inner (fuel : nat) (w : iwhile) (c : conn) (pos : nat) (st : istate) : istate :=
  match fuel with
  | O => st
  | S f => if iw_cond w c (i_hour st) then iw_inner f w c pos (i_place (iw_table w) (iw_place w) pos (iw_dir w) st) else st
  end.
Definition iw_fuel (w : iwhile) (c : conn) (h : Z) : nat := Z.to_nat (Z.abs (itime_of (iw_time w) c) + Z.abs h + 1).
Fixpoint iw_outer (w : iwhile) (cs : list conn) (pos : nat) (st : istate) : istate :=
  match cs with
  | [] => st
  | c :: r => iw_outer w r (S pos) (iw_inner (iw_fuel w c (i_hour st)) w c pos st)
  end.
Fixpoint if_inner (fuel : nat) (f : ifill) (endpos : nat) (st : istate) : istate :=
  match fuel with
  | O => st
  | S n => if icmp_holds (if_cmp f) (i_hour st) (if_bound f)
           then if_inner n f endpos (i_place (if_table f) (if_place f) endpos (if_dir f) st) else st
  end.

Definition run_istmt (fwd rev : list conn) (st : istate) (x : istmt) : istate :=
  let of := fun s => match s with SForward => fwd | SReverse => rev end in
  match x with
  | ISetHour h => {| i_hour := h; i_ftab := i_ftab st; i_rtab := i_rtab st |}
  | IWhileLoop w => iw_outer w (of (iw_src w)) 0%nat st
  | IFill f => if_inner (Z.to_nat (Z.abs (i_hour st) + Z.abs (if_bound f) + 1)) f (length (of (if_end_of f))) st
  end.
(* the constructor: both tables empty, then the body *)
Definition run_index (code : list istmt) (fwd rev : list conn) : list nat * list nat :=
  let st := fold_left (run_istmt fwd rev) code {| i_hour := 0; i_ftab := []; i_rtab := [] |} in
  (i_ftab st, i_rtab st).
