(* Skel.v — the CONTROL SKELETON of the four scan loops as data, and its interpreter.

   tools/gen_skel.py parses the body of the connection loop (and of the inner footpath loop) of
   forwardCalculation / forwardCalculationAllNodes / reverseCalculation / reverseCalculationAllNodes into a statement
   tree and writes it to gen/Skel.v as a value of type `skel`:  which statement sits inside which `if`, in which order
   the guarded blocks come, where `break` / `continue` sit, which variable every assignment writes.

   Here:   * `skel`, `guard_id`, `action_id`;
           * `run`: a total, structurally recursive interpreter (continuation passing: what to do when the statement
             list falls through, on `break`, on `continue`);
           * the meaning of every guard_id = the GENERATED guard of gen/Guards.v applied to the machine's quantities, and of
             every action_id = one field update of the machine (model state + the C++ locals the loop body reads back:
             tripEnterConnection, nodeDepartureTentativeTime, nodeWasAccessedFromOrigin, footpathIndex,
             footpathTravelTime, footpathDistance, ...).  Locals whose value is a function of the connection and the
             request only (connectionDepartureTime, connectionArrivalTime, connectionMinWaitingTimeSeconds, the
             nodesAccess / nodesEgress iterators, references to nodes / the trip) are bindings, not machine state.
           * `run_fwd`, `run_rev`: one iteration of the connection loop; the locals enter with ARBITRARY values `l0`
             (they are function-level variables in the source and keep whatever the previous iteration left there).

   Proofs/SkelTie.v proves that the model's step functions (Scan.v) compute what `run_*` computes on the generated
   skeletons. *)
From Coq Require Import List ZArith Bool.
From TrV Require Import Scan.
From TrV Require gen.Guards.
Local Open Scope Z_scope.
Local Open Scope bool_scope.

Module SG := TrV.gen.Guards.

(* the `if` conditions of the loop bodies, named as tools/gen_guards.py names them *)
Inductive guard_id :=
| GFirst | GEnabled | GBreak | GReach | GBoard | GUnboard
| GEgrReached                                  (* forward, route copy only *)
| GExitFirst | GExitReplace | GExitReplaceTime (* reverse: exit-connection bookkeeping *)
| GAccReached                                  (* reverse, route copy only *)
| GFpSkip | GFpMaxtr | GFpImprove | GFpLabel
| GAccAfterDep | GAccCap.                      (* reverse: access label *)

(* the statements, named by what they write *)
Inductive action_id :=
(* forward *)
| ASnapEnter      (* tripEnterConnection = currentTripQueryOverlay.enterConnection            (a copy)  *)
| ASnapTdep       (* nodeDepartureTentativeTime = nodesTentativeTime.at(nodeDeparture.uid)              *)
| ASnapAccessed   (* nodeWasAccessedFromOrigin = ...                                                    *)
| AUsable         (* currentTripQueryOverlay.usable = true                                              *)
| AEnterConn      (* currentTripQueryOverlay.enterConnection = *connection                              *)
| AEnterW         (* currentTripQueryOverlay.enterConnectionTransferTravelTime = ...                    *)
| ASnapTm         (* int currentTransferablenNodesTentativeTime = nodesTentativeTime.at(...)            *)
| ASetEgr         (* forwardEgressJourneysSteps.insert_or_assign(...)                                   *)
(* reverse *)
| ASnapExit       (* tripExitConnection = currentTripQueryOverlay.exitConnection                        *)
| ASnapTarr       (* int nodeArrivalTentativeTime = nodesReverseTentativeTime.at(nodeArrival.uid)       *)
| ASnapJminw      (* journeyConnectionMinWaitingTimeSeconds = reverseStepAtArrival.getFinalEnterConnection()...  *)
| AExitConn       (* currentTripQueryOverlay.exitConnection = *connection                               *)
| AExitW          (* currentTripQueryOverlay.exitConnectionTransferTravelTime = ...                     *)
| ASetAcc         (* reverseAccessJourneysSteps.insert_or_assign(...)                                   *)
(* both directions *)
| AReached        (* reachedAtLeastOne{Egress,Access}Node = true                                        *)
| ATent           (* tentative{EgressNodeArrival,AccessNodeDeparture}Time = ...                         *)
| AFpReset        (* footpathIndex = 0                                                                  *)
| AFpNext         (* footpathIndex++                                                                    *)
| ASetW           (* footpathTravelTime = ...transferableNodes[footpathIndex].time (speed factor 1.0)   *)
| ASetDist        (* footpathDistance = ...transferableNodes[footpathIndex].distance                    *)
| ASetTau         (* nodes[Reverse]TentativeTime[transferableNode.node.uid] = ...                       *)
| ASetStep        (* {forward,reverse}JourneysSteps.at(transferableNode.node.uid) = JourneyStep(...)    *)
| ACount.         (* reachableConnectionsCount++                                                        *)

(* a statement list: each constructor carries its continuation `k` (the statements after it in the same block) *)
Inductive skel :=
| SIf (g : guard_id) (th el : skel) (k : skel)     (* if (g) { th } else { el }  k *)
| SAct (a : action_id) (k : skel)                  (* a;  k *)
| SLoopFp (body : skel) (k : skel)                 (* for (transferableNode : <transferable nodes>) { body }  k *)
| SBreak                                           (* break;    leaves the innermost enclosing loop *)
| SContinue                                        (* continue; next iteration of the innermost enclosing loop *)
| SDone.                                           (* end of the block: fall through to what follows it *)

(* ---------------------------------------------------------------------------------------------- *)
(* interpreter, generic in the machine                                                              *)

Section Run.
  Variables (M : Type) (guard : guard_id -> M -> bool) (act : action_id -> M -> M)
            (rows : list fprow) (set_row : fprow -> M -> M).

  (* kont: the block ended normally; kbrk: `break`; kcnt: `continue`.
     A footpath loop runs its body once per row (the range-for variable is set first); a `break` in the body stops
     the footpath loop only, `continue` goes to the next row. *)
  Fixpoint run (s : skel) (R : Type) (kont kbrk kcnt : M -> R) (m : M) {struct s} : R :=
    match s with
    | SDone => kont m
    | SBreak => kbrk m
    | SContinue => kcnt m
    | SAct a k => run k R kont kbrk kcnt (act a m)
    | SIf g th el k =>
        if guard g m then run th R (run k R kont kbrk kcnt) kbrk kcnt m
        else run el R (run k R kont kbrk kcnt) kbrk kcnt m
    | SLoopFp body k =>
        run k R kont kbrk kcnt
          (fst (fold_left
                  (fun (acc : M * bool) (r : fprow) =>
                     if snd acc then acc
                     else run body (M * bool)%type (fun m' => (m', false)) (fun m' => (m', true)) (fun m' => (m', false))
                              (set_row r (fst acc)))
                  rows (m, false)))
    end.
End Run.

(* ---------------------------------------------------------------------------------------------- *)
(* field updates                                                                                    *)

Definition fs_tau (v : nat -> Z) (s : fstate) : fstate :=
  {| f_tau := v; f_steps := f_steps s; f_ov := f_ov s; f_egr := f_egr s; f_count := f_count s;
     f_reached := f_reached s; f_tent := f_tent s; f_stop := f_stop s |}.
Definition fs_steps (v : nat -> jstep) (s : fstate) : fstate :=
  {| f_tau := f_tau s; f_steps := v; f_ov := f_ov s; f_egr := f_egr s; f_count := f_count s;
     f_reached := f_reached s; f_tent := f_tent s; f_stop := f_stop s |}.
Definition fs_ov (v : nat -> tqd) (s : fstate) : fstate :=
  {| f_tau := f_tau s; f_steps := f_steps s; f_ov := v; f_egr := f_egr s; f_count := f_count s;
     f_reached := f_reached s; f_tent := f_tent s; f_stop := f_stop s |}.
Definition fs_egr (v : nat -> option jstep) (s : fstate) : fstate :=
  {| f_tau := f_tau s; f_steps := f_steps s; f_ov := f_ov s; f_egr := v; f_count := f_count s;
     f_reached := f_reached s; f_tent := f_tent s; f_stop := f_stop s |}.
Definition fs_count (v : Z) (s : fstate) : fstate :=
  {| f_tau := f_tau s; f_steps := f_steps s; f_ov := f_ov s; f_egr := f_egr s; f_count := v;
     f_reached := f_reached s; f_tent := f_tent s; f_stop := f_stop s |}.
Definition fs_reached (v : bool) (s : fstate) : fstate :=
  {| f_tau := f_tau s; f_steps := f_steps s; f_ov := f_ov s; f_egr := f_egr s; f_count := f_count s;
     f_reached := v; f_tent := f_tent s; f_stop := f_stop s |}.
Definition fs_tent (v : Z) (s : fstate) : fstate :=
  {| f_tau := f_tau s; f_steps := f_steps s; f_ov := f_ov s; f_egr := f_egr s; f_count := f_count s;
     f_reached := f_reached s; f_tent := v; f_stop := f_stop s |}.
Definition fs_stop (v : bool) (s : fstate) : fstate :=
  {| f_tau := f_tau s; f_steps := f_steps s; f_ov := f_ov s; f_egr := f_egr s; f_count := f_count s;
     f_reached := f_reached s; f_tent := f_tent s; f_stop := v |}.

Definition rs_taur (v : nat -> Z) (s : rstate) : rstate :=
  {| r_taur := v; r_steps := r_steps s; r_ov := r_ov s; r_acc := r_acc s; r_count := r_count s;
     r_reached := r_reached s; r_tent := r_tent s; r_stop := r_stop s |}.
Definition rs_steps (v : nat -> jstep) (s : rstate) : rstate :=
  {| r_taur := r_taur s; r_steps := v; r_ov := r_ov s; r_acc := r_acc s; r_count := r_count s;
     r_reached := r_reached s; r_tent := r_tent s; r_stop := r_stop s |}.
Definition rs_ov (v : nat -> tqd) (s : rstate) : rstate :=
  {| r_taur := r_taur s; r_steps := r_steps s; r_ov := v; r_acc := r_acc s; r_count := r_count s;
     r_reached := r_reached s; r_tent := r_tent s; r_stop := r_stop s |}.
Definition rs_acc (v : nat -> option jstep) (s : rstate) : rstate :=
  {| r_taur := r_taur s; r_steps := r_steps s; r_ov := r_ov s; r_acc := v; r_count := r_count s;
     r_reached := r_reached s; r_tent := r_tent s; r_stop := r_stop s |}.
Definition rs_count (v : Z) (s : rstate) : rstate :=
  {| r_taur := r_taur s; r_steps := r_steps s; r_ov := r_ov s; r_acc := r_acc s; r_count := v;
     r_reached := r_reached s; r_tent := r_tent s; r_stop := r_stop s |}.
Definition rs_reached (v : bool) (s : rstate) : rstate :=
  {| r_taur := r_taur s; r_steps := r_steps s; r_ov := r_ov s; r_acc := r_acc s; r_count := r_count s;
     r_reached := v; r_tent := r_tent s; r_stop := r_stop s |}.
Definition rs_tent (v : Z) (s : rstate) : rstate :=
  {| r_taur := r_taur s; r_steps := r_steps s; r_ov := r_ov s; r_acc := r_acc s; r_count := r_count s;
     r_reached := r_reached s; r_tent := v; r_stop := r_stop s |}.
Definition rs_stop (v : bool) (s : rstate) : rstate :=
  {| r_taur := r_taur s; r_steps := r_steps s; r_ov := r_ov s; r_acc := r_acc s; r_count := r_count s;
     r_reached := r_reached s; r_tent := r_tent s; r_stop := v |}.

(* TripQueryData fields (the overlay of the current trip is accessed through a reference: every write goes to the map) *)
Definition ov_usable (v : bool) (o : tqd) : tqd :=
  {| o_usable := v; o_enter := o_enter o; o_enter_w := o_enter_w o; o_exit := o_exit o; o_exit_w := o_exit_w o |}.
Definition ov_enter (v : option conn) (o : tqd) : tqd :=
  {| o_usable := o_usable o; o_enter := v; o_enter_w := o_enter_w o; o_exit := o_exit o; o_exit_w := o_exit_w o |}.
Definition ov_enter_w (v : Z) (o : tqd) : tqd :=
  {| o_usable := o_usable o; o_enter := o_enter o; o_enter_w := v; o_exit := o_exit o; o_exit_w := o_exit_w o |}.
Definition ov_exit (v : option conn) (o : tqd) : tqd :=
  {| o_usable := o_usable o; o_enter := o_enter o; o_enter_w := o_enter_w o; o_exit := v; o_exit_w := o_exit_w o |}.
Definition ov_exit_w (v : Z) (o : tqd) : tqd :=
  {| o_usable := o_usable o; o_enter := o_enter o; o_enter_w := o_enter_w o; o_exit := o_exit o; o_exit_w := v |}.
Definition at_key (t : nat) (f : tqd -> tqd) (m : nat -> tqd) : nat -> tqd := upd m t (f (m t)).

Definition row_default : fprow := {| fp_node := 0%nat; fp_time := 0; fp_dist := 0 |}.

(* ---------------------------------------------------------------------------------------------- *)
(* forward scans                                                                                    *)

(* the guards and label values of one copy of the forward scan *)
Record fwd_guards := {
  fg_first : Z -> Z -> Z -> Z -> bool; fg_enabled : bool -> bool; fg_break : bool -> Z -> Z -> Z -> Z -> Z -> bool;
  fg_accessed : Z -> bool -> Z -> bool -> bool; fg_reach : bool -> Z -> Z -> Z -> bool -> Z -> bool;
  fg_board : bool -> bool -> bool; fg_unboard : bool -> bool -> bool; fg_egr_reached : bool -> bool -> Z -> bool;
  fg_fp_skip : bool -> Z -> Z -> bool; fg_fp_maxtr : Z -> Z -> bool; fg_fp_improve : Z -> Z -> Z -> bool;
  fg_fp_label : bool -> bool -> Z -> Z -> bool; fg_newtau : Z -> Z -> Z; fg_tent : Z -> Z }.

(* forwardCalculation / forwardCalculationAllNodes as tools/gen_guards.py reads them now (the all-nodes copy has no
   egress early termination: those two entries are never used by its skeleton) *)
Definition fwd_code : fwd_guards :=
  {| fg_first := SG.gen_fwd_first; fg_enabled := SG.gen_fwd_enabled; fg_break := SG.gen_fwd_break;
     fg_accessed := SG.gen_fwd_accessed; fg_reach := SG.gen_fwd_reach; fg_board := SG.gen_fwd_board;
     fg_unboard := SG.gen_fwd_unboard; fg_egr_reached := SG.gen_fwd_egr_reached; fg_fp_skip := SG.gen_fwd_fp_skip;
     fg_fp_maxtr := SG.gen_fwd_fp_maxtr; fg_fp_improve := SG.gen_fwd_fp_improve; fg_fp_label := SG.gen_fwd_fp_label;
     fg_newtau := SG.gen_fwd_newtau; fg_tent := SG.gen_fwd_tent |}.
Definition fwdall_code : fwd_guards :=
  {| fg_first := SG.gen_fwdall_first; fg_enabled := SG.gen_fwdall_enabled; fg_break := SG.gen_fwdall_break;
     fg_accessed := SG.gen_fwdall_accessed; fg_reach := SG.gen_fwdall_reach; fg_board := SG.gen_fwdall_board;
     fg_unboard := SG.gen_fwdall_unboard; fg_egr_reached := fun _ _ _ => false; fg_fp_skip := SG.gen_fwdall_fp_skip;
     fg_fp_maxtr := SG.gen_fwdall_fp_maxtr; fg_fp_improve := SG.gen_fwdall_fp_improve;
     fg_fp_label := SG.gen_fwdall_fp_label; fg_newtau := SG.gen_fwdall_newtau; fg_tent := fun x => x |}.

(* the C++ locals the forward loop body writes and reads back *)
Record flocals := {
  l_enter : option conn;     (* tripEnterConnection *)
  l_tdep : Z;                (* nodeDepartureTentativeTime *)
  l_accessed : bool;         (* nodeWasAccessedFromOrigin *)
  l_tm : Z;                  (* currentTransferablenNodesTentativeTime *)
  l_idx : nat;               (* footpathIndex *)
  l_w : Z;                   (* footpathTravelTime *)
  l_dist : Z;                (* footpathDistance *)
  l_row : fprow }.           (* transferableNode (range-for variable) *)
Definition ls_enter (v : option conn) (l : flocals) : flocals :=
  {| l_enter := v; l_tdep := l_tdep l; l_accessed := l_accessed l; l_tm := l_tm l; l_idx := l_idx l; l_w := l_w l;
     l_dist := l_dist l; l_row := l_row l |}.
Definition ls_tdep (v : Z) (l : flocals) : flocals :=
  {| l_enter := l_enter l; l_tdep := v; l_accessed := l_accessed l; l_tm := l_tm l; l_idx := l_idx l; l_w := l_w l;
     l_dist := l_dist l; l_row := l_row l |}.
Definition ls_accessed (v : bool) (l : flocals) : flocals :=
  {| l_enter := l_enter l; l_tdep := l_tdep l; l_accessed := v; l_tm := l_tm l; l_idx := l_idx l; l_w := l_w l;
     l_dist := l_dist l; l_row := l_row l |}.
Definition ls_tm (v : Z) (l : flocals) : flocals :=
  {| l_enter := l_enter l; l_tdep := l_tdep l; l_accessed := l_accessed l; l_tm := v; l_idx := l_idx l; l_w := l_w l;
     l_dist := l_dist l; l_row := l_row l |}.
Definition ls_idx (v : nat) (l : flocals) : flocals :=
  {| l_enter := l_enter l; l_tdep := l_tdep l; l_accessed := l_accessed l; l_tm := l_tm l; l_idx := v; l_w := l_w l;
     l_dist := l_dist l; l_row := l_row l |}.
Definition ls_w (v : Z) (l : flocals) : flocals :=
  {| l_enter := l_enter l; l_tdep := l_tdep l; l_accessed := l_accessed l; l_tm := l_tm l; l_idx := l_idx l; l_w := v;
     l_dist := l_dist l; l_row := l_row l |}.
Definition ls_dist (v : Z) (l : flocals) : flocals :=
  {| l_enter := l_enter l; l_tdep := l_tdep l; l_accessed := l_accessed l; l_tm := l_tm l; l_idx := l_idx l; l_w := l_w l;
     l_dist := v; l_row := l_row l |}.
Definition ls_row (v : fprow) (l : flocals) : flocals :=
  {| l_enter := l_enter l; l_tdep := l_tdep l; l_accessed := l_accessed l; l_tm := l_tm l; l_idx := l_idx l; l_w := l_w l;
     l_dist := l_dist l; l_row := v |}.

Record fmach := { fm_st : fstate; fm_l : flocals }.
Definition fm_on_st (f : fstate -> fstate) (m : fmach) : fmach := {| fm_st := f (fm_st m); fm_l := fm_l m |}.
Definition fm_on_l (f : flocals -> flocals) (m : fmach) : fmach := {| fm_st := fm_st m; fm_l := f (fm_l m) |}.

Section FwdSem.
  Variables (V : fwd_guards) (d : data) (p : params) (k : calc) (c : conn).

  (* nodeArrival.transferableNodes *)
  Definition fwd_rows : list fprow := fp_of d (c_to c).

  Definition fwd_guard (g : guard_id) (m : fmach) : bool :=
    match g with
    | GFirst => fg_first V (c_dep c) (k_dep k) (k_minAcc k) (q_minw p)
    | GEnabled => fg_enabled V (k_disabled k (c_trip c))
    | GBreak => fg_break V (f_reached (fm_st m)) (k_maxEgr k) (f_tent (fm_st m)) (c_dep c) (k_dep k) (q_maxtt p)
    | GReach => fg_reach V (is_some (l_enter (fm_l m))) (l_tdep (fm_l m)) (c_dep c) (minw_eff p c)
                         (l_accessed (fm_l m)) (q_maxfw p)
    | GBoard => fg_board V (c_cb c) (is_some (l_enter (fm_l m)))
    | GUnboard => fg_unboard V (c_cu c) (is_some (o_enter (f_ov (fm_st m) (c_trip c))))
    | GEgrReached =>
        let '(egr_found, egr_time) :=
          match row_of (c_to c) (k_egrfp k) with Some r => (true, fp_time r) | None => (false, 0) end in
        fg_egr_reached V (f_reached (fm_st m)) egr_found egr_time
    | GFpSkip => fg_fp_skip V (Nat.eqb (c_to c) (fp_node (l_row (fm_l m)))) (l_tm (fm_l m)) (c_arr c)
    | GFpMaxtr => fg_fp_maxtr V (l_w (fm_l m)) (q_maxtr p)
    | GFpImprove => fg_fp_improve V (l_w (fm_l m)) (c_arr c) (l_tm (fm_l m))
    | GFpLabel =>
        let '(lab_none, lab_arr) :=
          match f_egr (fm_st m) (fp_node (l_row (fm_l m))) with
          | None => (true, 0)
          | Some j => match js_exit j with Some e => (false, c_arr e) | None => (false, c_arr c) end
          end in
        fg_fp_label V (Nat.eqb (c_to c) (fp_node (l_row (fm_l m)))) lab_none lab_arr (c_arr c)
    | _ => false
    end.

  Definition fwd_act (a : action_id) (m : fmach) : fmach :=
    match a with
    | ASnapEnter => fm_on_l (ls_enter (o_enter (f_ov (fm_st m) (c_trip c)))) m
    | ASnapTdep => fm_on_l (ls_tdep (f_tau (fm_st m) (c_from c))) m
    | ASnapAccessed =>
        fm_on_l (ls_accessed
                   (let '(acc_found, acc_time) :=
                      match row_of (c_from c) (k_accfp k) with Some r => (true, fp_time r) | None => (false, 0) end in
                    fg_accessed V (q_maxfw p) acc_found acc_time (is_some (js_enter (f_steps (fm_st m) (c_from c)))))) m
    | AUsable => fm_on_st (fun s => fs_ov (at_key (c_trip c) (ov_usable true) (f_ov s)) s) m
    | AEnterConn => fm_on_st (fun s => fs_ov (at_key (c_trip c) (ov_enter (Some c)) (f_ov s)) s) m
    | AEnterW => fm_on_st (fun s => fs_ov (at_key (c_trip c) (ov_enter_w (js_walk (f_steps s (c_from c)))) (f_ov s)) s) m
    | AReached => fm_on_st (fs_reached true) m
    | ATent => fm_on_st (fs_tent (fg_tent V (c_arr c))) m
    | AFpReset => fm_on_l (ls_idx 0%nat) m
    | ASnapTm => fm_on_l (ls_tm (f_tau (fm_st m) (fp_node (l_row (fm_l m))))) m
    | AFpNext => fm_on_l (ls_idx (S (l_idx (fm_l m)))) m
    | ASetW => fm_on_l (ls_w (fp_time (nth (l_idx (fm_l m)) fwd_rows row_default))) m
    | ASetDist => fm_on_l (ls_dist (fp_dist (nth (l_idx (fm_l m)) fwd_rows row_default))) m
    | ASetTau =>
        fm_on_st (fun s => fs_tau (upd (f_tau s) (fp_node (l_row (fm_l m))) (fg_newtau V (l_w (fm_l m)) (c_arr c))) s) m
    | ASetStep =>
        fm_on_st (fun s => fs_steps (upd (f_steps s) (fp_node (l_row (fm_l m)))
                                         (mk_js (o_enter (f_ov s (c_trip c))) (Some c) (c_trip c) (l_w (fm_l m))
                                                (Nat.eqb (c_to c) (fp_node (l_row (fm_l m)))) (l_dist (fm_l m)))) s) m
    | ASetEgr =>
        fm_on_st (fun s => fs_egr (upd (f_egr s) (fp_node (l_row (fm_l m)))
                                       (Some (mk_js (o_enter (f_ov s (c_trip c))) (Some c) (c_trip c) (l_w (fm_l m))
                                                    true (l_dist (fm_l m))))) s) m
    | ACount => fm_on_st (fun s => fs_count (f_count s + 1) s) m
    | _ => m
    end.

  (* one iteration of the connection loop: a stopped scan stays where it is (the model's encoding of a loop that was
     left); `break` sets the flag; `continue` and falling off the end of the body go to the next connection *)
  Definition run_fwd (sk : skel) (l0 : flocals) (st : fstate) : fstate :=
    if f_stop st then st
    else run fmach fwd_guard fwd_act fwd_rows (fun r => fm_on_l (ls_row r)) sk
             fstate fm_st (fun m => fs_stop true (fm_st m)) fm_st {| fm_st := st; fm_l := l0 |}.
End FwdSem.

(* ---------------------------------------------------------------------------------------------- *)
(* reverse scans                                                                                    *)

Record rev_guards := {
  rg_route : bool;           (* the route copy subtracts the minimum egress walk in its first test *)
  rg_first : Z -> Z -> Z -> Z -> bool; rg_enabled : bool -> bool -> bool;
  rg_break : bool -> Z -> Z -> Z -> Z -> Z -> bool; rg_reach : bool -> Z -> Z -> bool; rg_unboard : bool -> bool;
  rg_exit_first : bool -> bool; rg_exit_replace : bool -> Z -> Z -> bool; rg_exit_replace_time : Z -> Z -> Z -> bool;
  rg_board : bool -> bool -> bool; rg_acc_reached : bool -> bool -> Z -> bool;
  rg_fp_skip : bool -> Z -> Z -> Z -> bool; rg_fp_maxtr : Z -> Z -> bool; rg_fp_improve : Z -> Z -> Z -> Z -> bool;
  rg_fp_label : bool -> bool -> Z -> Z -> Z -> Z -> bool; rg_acc_after_dep : Z -> bool -> Z -> Z -> Z -> bool;
  rg_acc_cap : Z -> Z -> Z -> Z -> bool; rg_newtaur : Z -> Z -> Z -> Z; rg_tent : Z -> Z -> Z }.

Definition rev_code : rev_guards :=
  {| rg_route := true;
     rg_first := SG.gen_rev_first; rg_enabled := SG.gen_rev_enabled; rg_break := SG.gen_rev_break;
     rg_reach := SG.gen_rev_reach; rg_unboard := SG.gen_rev_unboard; rg_exit_first := SG.gen_rev_exit_first;
     rg_exit_replace := SG.gen_rev_exit_replace; rg_exit_replace_time := SG.gen_rev_exit_replace_time;
     rg_board := SG.gen_rev_board; rg_acc_reached := SG.gen_rev_acc_reached; rg_fp_skip := SG.gen_rev_fp_skip;
     rg_fp_maxtr := SG.gen_rev_fp_maxtr; rg_fp_improve := SG.gen_rev_fp_improve; rg_fp_label := SG.gen_rev_fp_label;
     rg_acc_after_dep := SG.gen_rev_acc_after_dep; rg_acc_cap := SG.gen_rev_acc_cap; rg_newtaur := SG.gen_rev_newtaur;
     rg_tent := SG.gen_rev_tent |}.
Definition revall_code : rev_guards :=
  {| rg_route := false;
     rg_first := SG.gen_revall_first; rg_enabled := SG.gen_revall_enabled; rg_break := SG.gen_revall_break;
     rg_reach := SG.gen_revall_reach; rg_unboard := SG.gen_revall_unboard; rg_exit_first := SG.gen_revall_exit_first;
     rg_exit_replace := SG.gen_revall_exit_replace; rg_exit_replace_time := SG.gen_revall_exit_replace_time;
     rg_board := SG.gen_revall_board; rg_acc_reached := fun _ _ _ => false; rg_fp_skip := SG.gen_revall_fp_skip;
     rg_fp_maxtr := SG.gen_revall_fp_maxtr; rg_fp_improve := SG.gen_revall_fp_improve;
     rg_fp_label := SG.gen_revall_fp_label; rg_acc_after_dep := SG.gen_revall_acc_after_dep;
     rg_acc_cap := SG.gen_revall_acc_cap; rg_newtaur := SG.gen_revall_newtaur; rg_tent := fun x _ => x |}.

Record rlocals := {
  rl_exit : option conn;     (* tripExitConnection *)
  rl_tarr : Z;               (* nodeArrivalTentativeTime *)
  rl_jminw : Z;              (* journeyConnectionMinWaitingTimeSeconds *)
  rl_idx : nat;              (* footpathIndex *)
  rl_w : Z;                  (* footpathTravelTime *)
  rl_dist : Z;               (* footpathDistance *)
  rl_row : fprow }.          (* transferableNode *)
Definition rls_exit (v : option conn) (l : rlocals) : rlocals :=
  {| rl_exit := v; rl_tarr := rl_tarr l; rl_jminw := rl_jminw l; rl_idx := rl_idx l; rl_w := rl_w l;
     rl_dist := rl_dist l; rl_row := rl_row l |}.
Definition rls_tarr (v : Z) (l : rlocals) : rlocals :=
  {| rl_exit := rl_exit l; rl_tarr := v; rl_jminw := rl_jminw l; rl_idx := rl_idx l; rl_w := rl_w l;
     rl_dist := rl_dist l; rl_row := rl_row l |}.
Definition rls_jminw (v : Z) (l : rlocals) : rlocals :=
  {| rl_exit := rl_exit l; rl_tarr := rl_tarr l; rl_jminw := v; rl_idx := rl_idx l; rl_w := rl_w l;
     rl_dist := rl_dist l; rl_row := rl_row l |}.
Definition rls_idx (v : nat) (l : rlocals) : rlocals :=
  {| rl_exit := rl_exit l; rl_tarr := rl_tarr l; rl_jminw := rl_jminw l; rl_idx := v; rl_w := rl_w l;
     rl_dist := rl_dist l; rl_row := rl_row l |}.
Definition rls_w (v : Z) (l : rlocals) : rlocals :=
  {| rl_exit := rl_exit l; rl_tarr := rl_tarr l; rl_jminw := rl_jminw l; rl_idx := rl_idx l; rl_w := v;
     rl_dist := rl_dist l; rl_row := rl_row l |}.
Definition rls_dist (v : Z) (l : rlocals) : rlocals :=
  {| rl_exit := rl_exit l; rl_tarr := rl_tarr l; rl_jminw := rl_jminw l; rl_idx := rl_idx l; rl_w := rl_w l;
     rl_dist := v; rl_row := rl_row l |}.
Definition rls_row (v : fprow) (l : rlocals) : rlocals :=
  {| rl_exit := rl_exit l; rl_tarr := rl_tarr l; rl_jminw := rl_jminw l; rl_idx := rl_idx l; rl_w := rl_w l;
     rl_dist := rl_dist l; rl_row := v |}.

Record rmach := { rm_st : rstate; rm_l : rlocals }.
Definition rm_on_st (f : rstate -> rstate) (m : rmach) : rmach := {| rm_st := f (rm_st m); rm_l := rm_l m |}.
Definition rm_on_l (f : rlocals -> rlocals) (m : rmach) : rmach := {| rm_st := rm_st m; rm_l := f (rm_l m) |}.

Section RevSem.
  Variables (V : rev_guards) (d : data) (p : params) (k : calc) (c : conn).

  (* nodeDeparture.reverseTransferableNodes *)
  Definition rev_rows : list fprow := rfp_of d (c_from c).

  Definition rev_guard (g : guard_id) (m : rmach) : bool :=
    match g with
    | GFirst => rg_first V (c_arr c) (k_arr k) (if rg_route V then k_minEgr k else 0) (q_minw p)
    | GEnabled => rg_enabled V (o_usable (r_ov (rm_st m) (c_trip c))) (k_disabled k (c_trip c))
    | GBreak => rg_break V (r_reached (rm_st m)) (k_maxAcc k) (r_tent (rm_st m)) (c_arr c) (k_arr k) (q_maxtt p)
    | GReach => rg_reach V (is_some (rl_exit (rm_l m))) (rl_tarr (rm_l m)) (c_arr c)
    | GUnboard => rg_unboard V (c_cu c)
    | GExitFirst => rg_exit_first V (is_some (rl_exit (rm_l m)))
    | GExitReplace =>
        (* reverseStepAtArrival is a reference to reverseJourneysSteps.at(nodeArrival.uid) *)
        rg_exit_replace V (is_some (js_enter (r_steps (rm_st m) (c_to c)))) (js_walk (r_steps (rm_st m) (c_to c)))
                        (o_exit_w (r_ov (rm_st m) (c_trip c)))
    | GExitReplaceTime => rg_exit_replace_time V (c_arr c) (rl_jminw (rm_l m)) (rl_tarr (rm_l m))
    | GBoard => rg_board V (c_cb c) (is_some (o_exit (r_ov (rm_st m) (c_trip c))))
    | GAccReached =>
        let '(acc_found, acc_time) :=
          match row_of (c_from c) (k_accfp k) with Some r => (true, fp_time r) | None => (false, 0) end in
        rg_acc_reached V (r_reached (rm_st m)) acc_found acc_time
    | GFpSkip => rg_fp_skip V (Nat.eqb (c_from c) (fp_node (rl_row (rm_l m))))
                            (r_taur (rm_st m) (fp_node (rl_row (rm_l m)))) (c_dep c) (minw_eff p c)
    | GFpMaxtr => rg_fp_maxtr V (rl_w (rm_l m)) (q_maxtr p)
    | GFpImprove => rg_fp_improve V (c_dep c) (rl_w (rm_l m)) (minw_eff p c) (r_taur (rm_st m) (fp_node (rl_row (rm_l m))))
    | GFpLabel =>
        let '(lab_none, lab_dep, lab_minw) :=
          match r_acc (rm_st m) (fp_node (rl_row (rm_l m))) with
          | None => (true, 0, 0)
          | Some j => match js_enter j with
                      | Some b => (false, c_dep b, minw_eff p b)
                      | None => (false, c_dep c - minw_eff p c + 1, 0)   (* never stored, see GuardsTie.rev_fp_step_sk *)
                      end
          end in
        rg_fp_label V (Nat.eqb (c_from c) (fp_node (rl_row (rm_l m)))) lab_none lab_dep lab_minw (c_dep c) (minw_eff p c)
    | GAccAfterDep =>
        let '(acc_found, acc_time) :=
          match row_of (c_from c) (k_accfp k) with Some ar => (true, fp_time ar) | None => (false, 0) end in
        rg_acc_after_dep V (k_dep k) acc_found (c_dep c) acc_time (minw_eff p c)
    | GAccCap =>
        let '(acc_found, acc_time) :=
          match row_of (c_from c) (k_accfp k) with Some ar => (true, fp_time ar) | None => (false, 0) end in
        rg_acc_cap V (k_dep k) (q_maxfw p) (c_dep c) acc_time
    | _ => false
    end.

  Definition rev_act (a : action_id) (m : rmach) : rmach :=
    match a with
    | ASnapExit => rm_on_l (rls_exit (o_exit (r_ov (rm_st m) (c_trip c)))) m
    | ASnapTarr => rm_on_l (rls_tarr (r_taur (rm_st m) (c_to c))) m
    | ASnapJminw =>
        (* .value() of the boarding of the step at the arrival stop: guarded by GExitReplace *)
        rm_on_l (rls_jminw (match js_enter (r_steps (rm_st m) (c_to c)) with Some b => minw_eff p b | None => 0 end)) m
    | AExitConn => rm_on_st (fun s => rs_ov (at_key (c_trip c) (ov_exit (Some c)) (r_ov s)) s) m
    | AExitW => rm_on_st (fun s => rs_ov (at_key (c_trip c) (ov_exit_w (js_walk (r_steps s (c_to c)))) (r_ov s)) s) m
    | AReached => rm_on_st (rs_reached true) m
    | ATent => rm_on_st (rs_tent (rg_tent V (c_dep c) (minw_eff p c))) m
    | AFpReset => rm_on_l (rls_idx 0%nat) m
    | AFpNext => rm_on_l (rls_idx (S (rl_idx (rm_l m)))) m
    | ASetW => rm_on_l (rls_w (fp_time (nth (rl_idx (rm_l m)) rev_rows row_default))) m
    | ASetDist => rm_on_l (rls_dist (fp_dist (nth (rl_idx (rm_l m)) rev_rows row_default))) m
    | ASetTau =>
        rm_on_st (fun s => rs_taur (upd (r_taur s) (fp_node (rl_row (rm_l m)))
                                        (rg_newtaur V (c_dep c) (rl_w (rm_l m)) (minw_eff p c))) s) m
    | ASetStep =>
        rm_on_st (fun s => rs_steps (upd (r_steps s) (fp_node (rl_row (rm_l m)))
                                         (mk_js (Some c) (o_exit (r_ov s (c_trip c))) (c_trip c) (rl_w (rm_l m))
                                                (Nat.eqb (c_from c) (fp_node (rl_row (rm_l m)))) (rl_dist (rm_l m)))) s) m
    | ASetAcc =>
        rm_on_st (fun s => rs_acc (upd (r_acc s) (fp_node (rl_row (rm_l m)))
                                       (Some (mk_js (Some c) (o_exit (r_ov s (c_trip c))) (c_trip c) 0 true 0))) s) m
    | ACount => rm_on_st (fun s => rs_count (r_count s + 1) s) m
    | _ => m
    end.

  Definition run_rev (sk : skel) (l0 : rlocals) (st : rstate) : rstate :=
    if r_stop st then st
    else run rmach rev_guard rev_act rev_rows (fun r => rm_on_l (rls_row r)) sk
             rstate rm_st (fun m => rs_stop true (rm_st m)) rm_st {| rm_st := st; rm_l := l0 |}.
End RevSem.

(* ---------------------------------------------------------------------------------------------- *)
(* equality of scan states up to the VALUES of the per-stop / per-trip tables (the tables are functions; two ways of
   writing the same table are not convertible terms, and no extensionality axiom is assumed) *)

Definition fstate_eq (a b : fstate) : Prop :=
  (forall n, f_tau a n = f_tau b n) /\ (forall n, f_steps a n = f_steps b n) /\ (forall t, f_ov a t = f_ov b t) /\
  (forall n, f_egr a n = f_egr b n) /\ f_count a = f_count b /\ f_reached a = f_reached b /\ f_tent a = f_tent b /\
  f_stop a = f_stop b.
Definition rstate_eq (a b : rstate) : Prop :=
  (forall n, r_taur a n = r_taur b n) /\ (forall n, r_steps a n = r_steps b n) /\ (forall t, r_ov a t = r_ov b t) /\
  (forall n, r_acc a n = r_acc b n) /\ r_count a = r_count b /\ r_reached a = r_reached b /\ r_tent a = r_tent b /\
  r_stop a = r_stop b.

(* ---------------------------------------------------------------------------------------------- *)
(* whole scans: the connection loop iterates the body over the connections from the entry slot of the hour index; the
   function-level locals persist from one iteration to the next (the machine is threaded through the loop) *)

Definition run_fwd_m (V : fwd_guards) (d : data) (p : params) (k : calc) (sk : skel) (m : fmach) (c : conn) : fmach :=
  if f_stop (fm_st m) then m
  else run fmach (fwd_guard V p k c) (fwd_act V d p k c) (fwd_rows d c) (fun r => fm_on_l (ls_row r)) sk
           fmach (fun m' => m') (fm_on_st (fs_stop true)) (fun m' => m') m.
Definition run_rev_m (V : rev_guards) (d : data) (p : params) (k : calc) (sk : skel) (m : rmach) (c : conn) : rmach :=
  if r_stop (rm_st m) then m
  else run rmach (rev_guard V p k c) (rev_act V d p c) (rev_rows d c) (fun r => rm_on_l (rls_row r)) sk
           rmach (fun m' => m') (rm_on_st (rs_stop true)) (fun m' => m') m.

Definition fwd_scan_skel (V : fwd_guards) (sk : skel) (entry_hour : Z) (l_init : flocals)
           (d : data) (p : params) (k : calc) : outcome fstate :=
  match fwd_entry (k_set k) entry_hour with
  | None => UB U_INDEX
  | Some i => Ok (fm_st (fold_left (run_fwd_m V d p k sk) (skipn i (cs_fwd (k_set k))) {| fm_st := fwd_init k; fm_l := l_init |}))
  end.
Definition rev_scan_skel (V : rev_guards) (sk : skel) (entry_hour : Z) (l_init : rlocals)
           (d : data) (p : params) (k : calc) : outcome rstate :=
  match rev_entry (k_set k) entry_hour with
  | None => UB U_INDEX
  | Some i => Ok (rm_st (fold_left (run_rev_m V d p k sk) (skipn i (cs_rev (k_set k))) {| rm_st := rev_init k; rm_l := l_init |}))
  end.

Definition outcome_rel {A} (R : A -> A -> Prop) (x y : outcome A) : Prop :=
  match x, y with
  | Ok a, Ok b => R a b
  | UB t, UB t' => t = t'
  | _, _ => False
  end.
