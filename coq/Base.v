(* Base.v — shared prelude of the trRouting model: numbers, total maps, list helpers.
   Model files import this; proofs live elsewhere so the model still runs when a proof breaks. *)
From Coq Require Export List ZArith Bool Arith Lia.
From TrV Require Export gen.Consts.
Export ListNotations.
Local Open Scope Z_scope.

(* C++ constants (include/toolbox.hpp: MAX_INT = std::numeric_limits<int>::max()) *)
Definition MAX_INT : Z := 2147483647.

(* 16-bit two's complement truncation: int -> short conversion of
   Connection::getMinWaitingTimeOrDefault(short) (include/connection.hpp:45) *)
Definition wrap16 (x : Z) : Z := (x + 32768) mod 65536 - 32768.

(* total maps keyed by nat identifiers *)
Definition upd {A : Type} (m : nat -> A) (k : nat) (v : A) : nat -> A :=
  fun k' => if Nat.eqb k' k then v else m k'.

Definition memb (x : nat) (l : list nat) : bool := existsb (Nat.eqb x) l.

Definition is_some {A} (o : option A) : bool := match o with Some _ => true | None => false end.

Fixpoint find_map {A B} (f : A -> option B) (l : list A) : option B :=
  match l with
  | [] => None
  | x :: xs => match f x with Some b => Some b | None => find_map f xs end
  end.

(* outcomes of every modelled entry point (DESIGN 3.2) *)
Inductive outcome (A : Type) : Type :=
| Ok (a : A)
| NoRouting (reason : nat)        (* NoRoutingReason enum value, routing_result.hpp *)
| ParamErr (code : nat)           (* ParameterException::Type enum value *)
| DataErr (code : nat)
| Exn (tag : nat)                 (* std::exception reaching a handler's catch-all *)
| NoReply
| Crash
| UB (tag : nat)
| Hang.
Arguments Ok {A} a.
Arguments NoRouting {A} reason.
Arguments ParamErr {A} code.
Arguments DataErr {A} code.
Arguments Exn {A} tag.
Arguments NoReply {A}.
Arguments Crash {A}.
Arguments UB {A} tag.
Arguments Hang {A}.

Definition bind {A B} (o : outcome A) (f : A -> outcome B) : outcome B :=
  match o with
  | Ok a => f a
  | NoRouting r => NoRouting r
  | ParamErr c => ParamErr c
  | DataErr c => DataErr c
  | Exn t => Exn t
  | NoReply => NoReply
  | Crash => Crash
  | UB t => UB t
  | Hang => Hang
  end.

Definition is_bad {A} (o : outcome A) : bool :=
  match o with NoReply | Crash | UB _ | Hang => true | _ => false end.

(* NoRoutingReason enum (include/routing_result.hpp) *)
Definition R_NO_ROUTING_FOUND : nat := 0.
Definition R_NO_ACCESS_AT_ORIGIN : nat := 1.
Definition R_NO_ACCESS_AT_DESTINATION : nat := 2.
Definition R_NO_SERVICE_FROM_ORIGIN : nat := 3.
Definition R_NO_SERVICE_TO_DESTINATION : nat := 4.
Definition R_NO_ACCESS_AT_ORIGIN_AND_DESTINATION : nat := 5.

(* exception tags *)
Definition X_OUT_OF_RANGE : nat := 1.   (* std::out_of_range from .at() *)
Definition X_BAD_OPTIONAL : nat := 2.   (* std::bad_optional_access from .value() *)
Definition U_INDEX : nat := 1.          (* operator[] past the end *)
Definition U_ASSERT : nat := 2.         (* assert() failure: abort *)
