#!/usr/bin/env python3
"""Translator for the scenario filter, the connection-set construction, the connection cache, the summary accumulator and
the hour-index loops: regenerates coq/gen/Scenario.v from the CURRENT sources of
  src/transit_data.cpp                                     TransitData::getConnectionsForScenario
  connection_scan_algorithm/src/resets.cpp                 Calculator::resetFilters (the second, live copy of the trip tests)
  src/connection_cache.cpp                                 ScenarioConnectionCacheOne / All :: get, set, clear
  connection_scan_algorithm/src/result_to_v2_summary.cpp   LineSummary, StepToV2SummaryVisitor, SummaryResultAccumulator
  src/connection_set.cpp                                   ConnectionSet::generateConnectionsIteratorCache

Groups (each `source` or `fallback` with a reason):
  scen_filter    the chain `if (enabled && L.size() > 0) { if (std::find(L.begin(), L.end(), trip.Y) ==|!= L.end()) enabled = false; }`
                 IN SOURCE ORDER as `list ftest` (coq/ScenCode.v): conjoined with `enabled`?, which list's size is tested,
                 which list is searched, which attribute of the trip, the polarity, the value written; empty bodies included
  scen_build     the tail of the trip loop (`tripsEnabled[trip.uid] = enabled; if (enabled) cachedTrips.push_back(trip);`), the
                 connection loops (which member vector, which map is tested, which local vector is filled), the arguments of the
                 ConnectionSet constructor - local maps / trip vectors / connection vectors numbered in declaration order
  scen_protocol  get(key) ; hit -> return cached ; build ; set(key, built) ; return built - with the KEY expressions
  reset_filter   the same chain in Calculator::resetFilters over the request's lists, and its tail
  cache_one, cache_all   the three methods of each class as statement lists: lock (shared / unique, must name `mutex`),
                 locals, if/else, returns, member writes
  summary        the visitor's three answers, the constructor's initial count, the copy, the statement tree of
                 processSingleCalculationResult (maps numbered: 0 = the member lineSummaries, locals from 1)
  index          the four loops of generateConnectionsIteratorCache
`#ifdef TRROUTING_VERIF` blocks are removed first; comments, whitespace, names of locals do not matter.

Policy (as the other gen_*.py): a group the translator cannot read - unknown statement shape - is emitted from the committed
tables (HAND) and reported `fallback` with the reason; what it CAN read is emitted as read, and the ties
(Proofs/ScenarioTie.v, CacheTie.v, SummaryTie.v, IndexTie.v) then hold or break."""
import os, re, sys, json

HERE = os.path.dirname(os.path.abspath(__file__))
sys.path.insert(0, HERE)
import gen_guards as GG
import gen_skel as SK
import gen_render as RN
from gen_skel import Untranslatable, flat

VERIF = os.path.dirname(HERE)
OUT = os.path.join(VERIF, "coq", "gen", "Scenario.v")
SRC_DATA = "src/transit_data.cpp"
SRC_RESETS = "connection_scan_algorithm/src/resets.cpp"
SRC_CACHE = "src/connection_cache.cpp"
SRC_SUMMARY = "connection_scan_algorithm/src/result_to_v2_summary.cpp"
SRC_SET = "src/connection_set.cpp"
IDENT = r"[A-Za-z_]\w*"

SCEN_LISTS = {"servicesList": "LServices", "onlyLines": "LOnlyLines", "onlyModes": "LOnlyModes", "onlyAgencies": "LOnlyAgencies",
              "onlyNodes": "LOnlyNodes", "exceptLines": "LExceptLines", "exceptModes": "LExceptModes",
              "exceptAgencies": "LExceptAgencies", "exceptNodes": "LExceptNodes"}
PARAM_LISTS = {"getOnlyServices()": "LServices", "getOnlyLines()": "LOnlyLines", "getOnlyModes()": "LOnlyModes",
               "getOnlyAgencies()": "LOnlyAgencies", "getOnlyNodes()": "LOnlyNodes", "getExceptServices()": "LExceptServices",
               "getExceptLines()": "LExceptLines", "getExceptModes()": "LExceptModes", "getExceptAgencies()": "LExceptAgencies",
               "getExceptNodes()": "LExceptNodes"}
ATTRS = {"service": "AService", "line": "ALine", "mode": "AMode", "agency": "AAgency"}


def read_source(repo, rel):
    src = open(os.path.join(repo, rel)).read()
    # drop the verification hooks: `#ifdef TRROUTING_VERIF ... #endif` (no nesting, no #else in the hooks)
    out, skip = [], False
    for line in src.split("\n"):
        st = line.strip()
        if re.match(r"#\s*ifdef\s+TRROUTING_VERIF\b", st):
            skip = True
            continue
        if skip:
            if re.match(r"#\s*endif\b", st):
                skip = False
            continue
        out.append(line)
    return GG.strip_c_comments("\n".join(out))


def find_function(src, name):
    """the definition `... name(params) [const] {body}`: -> (params text, body text without the outer braces)"""
    for m in re.finditer(r"(?<![\w.>])" + re.escape(name) + r"\s*\(", src):
        params, j = SK.balanced(src, m.end() - 1, "(", ")")
        k = SK.skip_ws(src, j)
        if SK.keyword_at(src, k, "const"):
            k = SK.skip_ws(src, k + 5)
        if k < len(src) and src[k] == "{":
            body, _ = SK.balanced(src, k, "{", "}")
            return params, body
    raise Untranslatable("definition of %s not found" % name)


def is_log(text):
    return flat(text).startswith("spdlog::")


def coq_bool(b):
    return "true" if b else "false"


# ------------------------------------------------------------------------------------------------
# 1. the chain of trip tests

class Chain:
    """reads the body of a loop over trips: bindings, `bool enabled = true`, the tests, the tail"""

    def __init__(self, list_of):
        self.list_of = list_of          # flat expression -> slist constructor (raises)
        self.trip = None
        self.enabled = None
        self.tests = []
        self.tail_nodes = []
        self.notes = []

    def bexp(self, t, maps):
        t = RN.strip_parens(flat(t))
        if t.startswith("!") and not t.startswith("!="):
            return "(BNot %s)" % self.bexp(t[1:], maps)
        if t == self.enabled:
            return "BEnabled"
        if t in ("true", "false"):
            return "(BConst %s)" % t
        m = re.match(r"^(" + IDENT + r")\[(" + IDENT + r")\.uid\]$", t)
        if m and m.group(1) in maps and m.group(2) == self.trip:
            return "(BMap %d)" % maps[m.group(1)]
        raise Untranslatable("condition not understood: " + t[:60])

    def outer(self, cond):
        conj, guard = False, None
        for c in RN.split_top(flat(cond).replace("&&", "\x00"), "\x00"):
            c = RN.strip_parens(c)
            if c == self.enabled:
                conj = True
                continue
            m = re.match(r"^(.+)\.size\(\)(?:>0|!=0)$", c) or re.match(r"^!(.+)\.empty\(\)$", c)
            if m:
                if guard is not None:
                    raise Untranslatable("two size tests in one condition")
                guard = self.list_of(m.group(1))
                continue
            raise Untranslatable("conjunct not understood: " + c[:60])
        return conj, guard

    def inner(self, nodes):
        if not nodes:
            return "FNothing"
        if len(nodes) != 1 or nodes[0][0] != "if" or nodes[0][3]:
            raise Untranslatable("body of a test is not one `if` without `else`")
        _, c, th, _ = nodes[0]
        m = re.match(r"^std::find\((.+)\.begin\(\),(.+)\.end\(\),(" + IDENT + r")\.(\w+)\)(==|!=)(.+)\.end\(\)$", RN.strip_parens(flat(c)))
        if not m:
            raise Untranslatable("search not understood: " + flat(c)[:70])
        a1, a2, tv, attr, op, a3 = m.groups()
        if not (a1 == a2 == a3):
            raise Untranslatable("std::find over iterators of different lists: " + flat(c)[:70])
        if tv != self.trip or attr not in ATTRS:
            raise Untranslatable("searched value not understood: %s.%s" % (tv, attr))
        if len(th) != 1 or th[0][0] != "stmt":
            raise Untranslatable("a search must be followed by one assignment")
        m2 = re.match(r"^(" + IDENT + r")=(true|false)$", flat(th[0][1]))
        if not m2 or m2.group(1) != self.enabled:
            raise Untranslatable("assignment not understood: " + flat(th[0][1])[:60])
        return "(FFind %s %s %s %s)" % (self.list_of(a1), ATTRS[attr], "MustBeIn" if op == "==" else "MustNotBeIn", m2.group(2))

    def read(self, body, trip_init_rx):
        in_tail = False
        early = False
        for n in body:
            if n[0] == "stmt":
                t = n[1].strip()
                if is_log(t):
                    continue
                m = RN.DECL.match(t)
                if m and not in_tail and m.group("init") is not None:
                    ty, name, init = flat(m.group("ty")), m.group("name"), flat(m.group("init"))
                    if ty in ("Trip", "auto") and re.match(trip_init_rx, init):
                        self.trip = name
                        continue
                    if ty == "bool" and init == "true" and self.enabled is None:
                        self.enabled = name
                        continue
                    raise Untranslatable("declaration not understood: " + t[:60])
                in_tail = True
                self.tail_nodes.append(n)
                continue
            if n[0] == "if":
                _, c, th, el = n
                if self.enabled is None or self.trip is None:
                    raise Untranslatable("a test before `bool enabled = true` / the trip binding")
                fc = RN.strip_parens(flat(c))
                if not in_tail and not el and fc == "!" + self.enabled and th == [("continue",)]:
                    early = True            # from here on `enabled` holds: the following tests are implicitly conjoined with it
                    self.notes.append("early `continue` on !%s read as the conjunct `%s &&` of the tests after it" % (self.enabled, self.enabled))
                    continue
                is_test = not in_tail and not el and (not th or (len(th) == 1 and th[0][0] == "if"))
                if is_test:
                    conj, guard = self.outer(c)
                    self.tests.append("{| ft_conj := %s; ft_guard := %s; ft_body := %s |}" % (
                        coq_bool(conj or early), "(Some %s)" % guard if guard else "None", self.inner(th)))
                    continue
                in_tail = True
                self.tail_nodes.append(n)
                continue
            raise Untranslatable("statement not understood in the trip loop: " + n[0])
        if self.enabled is None or self.trip is None:
            raise Untranslatable("trip loop without `bool enabled = true` / trip binding")
        self.early = early

    def tail(self, maps, tvecs):
        out = []
        for n in self.tail_nodes:
            if n[0] == "stmt":
                m = re.match(r"^(" + IDENT + r")\[(" + IDENT + r")\.uid\]=(.+)$", flat(n[1]))
                if m and m.group(1) in maps and m.group(2) == self.trip:
                    out.append("TSetMap %d %s" % (maps[m.group(1)], self.bexp(m.group(3), maps)))
                    continue
                raise Untranslatable("tail statement not understood: " + flat(n[1])[:60])
            if n[0] == "if" and not n[3] and len(n[2]) == 1 and n[2][0][0] == "stmt":
                c = self.bexp(n[1], maps)
                t = flat(n[2][0][1])
                m = re.match(r"^(" + IDENT + r")\.push_back\((" + IDENT + r")\)$", t)
                if m and m.group(1) in tvecs and m.group(2) == self.trip:
                    out.append("TPushIf %s %d" % (c, tvecs[m.group(1)]))
                    continue
                m = re.match(r"^(" + IDENT + r")\[(" + IDENT + r")\.uid\]=(.+)$", t)
                if m and m.group(1) in maps and m.group(2) == self.trip:
                    out.append("TSetMapIf %s %d %s" % (c, maps[m.group(1)], self.bexp(m.group(3), maps)))
                    continue
            raise Untranslatable("tail statement not understood")
        return out


def coq_list(items, indent="    "):
    if not items:
        return "[]"
    return "[ " + (";\n" + indent).join(items) + " ]"


def scen_list_of(var):
    def f(t):
        m = re.match(r"^" + re.escape(var) + r"\.(\w+)$", t)
        if not m or m.group(1) not in SCEN_LISTS:
            raise Untranslatable("not a list of the scenario: " + t[:60])
        return SCEN_LISTS[m.group(1)]
    return f


def param_list_of(var):
    def f(t):
        m = re.match(r"^" + re.escape(var) + r"\.(\w+\(\))$", t)
        if not m or m.group(1) not in PARAM_LISTS:
            raise Untranslatable("not a list of the parameters: " + t[:60])
        return PARAM_LISTS[m.group(1)]
    return f


def key_sel(t, scen):
    return "KScenarioUuid" if flat(t) == scen + ".uuid" else "KOther"


def range_for(header):
    m = re.match(r"^(?:const\s+)?auto\s*(?:const\s*)?&?\s*(" + IDENT + r")\s*:\s*(.+)$", header.strip(), flags=re.S)
    return (m.group(1), flat(m.group(2))) if m else None


def translate_scenario(repo):
    """-> (filter defs, build defs, protocol defs)"""
    src = read_source(repo, SRC_DATA)
    params, body = find_function(src, "TransitData::getConnectionsForScenario")
    m = re.match(r"^\s*const\s+Scenario\s*&\s*(" + IDENT + r")\s*$", params)
    if not m:
        raise Untranslatable("parameter list not understood: " + params)
    scen = m.group(1)
    nodes = RN.parse_list(body)
    maps, tvecs, cvecs, ends = {}, {}, {}, {}
    proto, loops = [], []
    chain = None
    opt = built = ctor = None
    stage = 0       # 0 before the trip loop, 1 after it, 2 after the constructor
    for n in nodes:
        if n[0] == "stmt":
            t = n[1].strip()
            ft = flat(t)
            if is_log(t):
                continue
            m = re.match(r"^(" + IDENT + r")->set\((.+),(" + IDENT + r")\)$", ft)
            if m and m.group(1) == "scenarioConnectionCache":
                if built is None or m.group(3) != built:
                    raise Untranslatable("set() of something else than the set just built")
                proto.append("PSet %s" % key_sel(m.group(2), scen))
                continue
            d = RN.DECL.match(t)
            if not d:
                raise Untranslatable("statement not understood: " + ft[:60])
            ty, name, init = flat(d.group("ty")), d.group("name"), d.group("init")
            if init is not None:
                fi = flat(init)
                m = re.match(r"^scenarioConnectionCache->get\((.+)\)$", fi)
                if m:
                    if opt is not None:
                        raise Untranslatable("two look-ups")
                    opt = name
                    proto.append("PGet %s" % key_sel(m.group(1), scen))
                    continue
                m = re.match(r"^(forwardConnections|reverseConnections)\.c?end\(\)$", fi)
                if m:
                    ends[name] = m.group(1)
                    continue
                m = re.match(r"^std::make_shared<ConnectionSet>\((.+)\)$", fi)
                if m:
                    if stage != 1 or built is not None:
                        raise Untranslatable("constructor call out of place")
                    args = RN.split_top(m.group(1), ",")
                    if len(args) != 3 or args[0] not in tvecs or args[1] not in cvecs or args[2] not in cvecs:
                        raise Untranslatable("constructor arguments not understood: " + m.group(1)[:60])
                    ctor = "(%d, %d, %d)" % (tvecs[args[0]], cvecs[args[1]], cvecs[args[2]])
                    built = name
                    stage = 2
                    proto.append("PBuild")
                    continue
                raise Untranslatable("initialiser not understood: " + fi[:60])
            if d.group("binit") is not None or d.group("pinit") is not None:
                raise Untranslatable("declaration not understood: " + ft[:60])
            if re.match(r"^std::(?:unordered_)?map<Trip::uid_t,bool>$", ty):
                maps[name] = len(maps)
            elif ty == "std::vector<std::reference_wrapper<constTrip>>":
                tvecs[name] = len(tvecs)
            elif ty == "std::vector<std::reference_wrapper<constConnection>>":
                cvecs[name] = len(cvecs)
            else:
                raise Untranslatable("declaration not understood: " + ft[:60])
            continue
        if n[0] == "if":
            _, c, th, el = n
            fc = RN.strip_parens(flat(c))
            if opt is not None and not el and fc in (opt + ".has_value()", opt) and len(th) == 1 and th[0][0] == "return" \
                    and flat(th[0][1]) in (opt + ".value()", "*" + opt):
                proto.append("PIfHitReturnCached")
                continue
            if opt is not None and not el and fc in (opt + ".has_value()", opt) and all(x[0] == "stmt" and is_log(x[1]) for x in th):
                continue        # a hit that only logs: nothing is returned here, the protocol goes on (and the tie will say so)
            raise Untranslatable("`if` not understood: " + fc[:60])
        if n[0] == "for":
            _, header, fbody = n
            rf = range_for(header)
            if rf and rf[1] == "getTrips()":
                if chain is not None or stage != 0:
                    raise Untranslatable("second loop over the trips")
                chain = Chain(scen_list_of(scen))
                chain.read(fbody, r"^" + re.escape(rf[0]) + r"\.second$")
                stage = 1
                continue
            # a connection loop: iterator form or range form
            conn_deref = None
            if rf and rf[1] in ("forwardConnections", "reverseConnections"):
                vec, conn_deref = rf[1], [rf[0]]
                conn_get = rf[0] + ".get()"
            else:
                parts = RN.split_top(header, ";")
                if len(parts) != 3:
                    raise Untranslatable("loop header not understood: " + flat(header)[:60])
                mi = re.match(r"^auto(" + IDENT + r")=(forwardConnections|reverseConnections)\.c?begin\(\)$", flat(parts[0]).replace("auto", "auto", 1))
                if not mi:
                    raise Untranslatable("loop initialiser not understood: " + flat(parts[0])[:60])
                it, vec = mi.group(1), mi.group(2)
                mc = re.match(r"^" + re.escape(it) + r"!=(.+)$", flat(parts[1]))
                if not mc:
                    raise Untranslatable("loop test not understood: " + flat(parts[1])[:60])
                e = mc.group(1)
                if not (ends.get(e) == vec or re.match(r"^" + vec + r"\.c?end\(\)$", e)):
                    raise Untranslatable("loop does not end at %s.end()" % vec)
                if flat(parts[2]) not in ("++" + it, it + "++"):
                    raise Untranslatable("loop step not understood: " + flat(parts[2])[:60])
                conn_deref = ["*" + it]
                conn_get = "(*%s).get()" % it
            if stage != 1:
                raise Untranslatable("connection loop out of place")
            trip = None
            keep = out = None
            for s in fbody:
                if s[0] == "stmt" and is_log(s[1]):
                    continue
                if s[0] == "stmt":
                    d = RN.DECL.match(s[1].strip())
                    if d and d.group("init") is not None and flat(d.group("ty")) in ("Trip", "auto") \
                            and flat(d.group("init")) in (conn_get + ".getTrip()", conn_get.replace("(*", "").replace(").get()", "->get()") + ".getTrip()"):
                        trip = d.group("name")
                        continue
                    raise Untranslatable("statement not understood in a connection loop: " + flat(s[1])[:60])
                if s[0] == "if" and not s[3] and len(s[2]) == 1 and s[2][0][0] == "stmt" and keep is None and trip is not None:
                    k = Chain(None)
                    k.trip, k.enabled = trip, "\x00"
                    keep = k.bexp(s[1], maps)
                    m = re.match(r"^(" + IDENT + r")\.push_back\((.+)\)$", flat(s[2][0][1]))
                    if not m or m.group(1) not in cvecs or m.group(2) not in conn_deref:
                        raise Untranslatable("push not understood: " + flat(s[2][0][1])[:60])
                    out = cvecs[m.group(1)]
                    continue
                raise Untranslatable("statement not understood in a connection loop")
            if keep is None:
                raise Untranslatable("connection loop without a filtered push")
            loops.append("{| cl_src := %s; cl_keep := %s; cl_out := %d |}" % ("SForward" if vec == "forwardConnections" else "SReverse", keep, out))
            continue
        if n[0] == "return":
            if built is not None and flat(n[1]) == built:
                proto.append("PReturnBuilt")
                continue
            raise Untranslatable("return not understood: " + flat(n[1])[:60])
        raise Untranslatable("statement not understood: " + n[0])
    if chain is None or ctor is None:
        raise Untranslatable("trip loop or constructor call not found")
    tail = chain.tail(maps, tvecs)
    if chain.early and tail != ["TSetMap 0 BEnabled", "TPushIf BEnabled 0"]:
        raise Untranslatable("early `continue` with a tail that is not `M[uid] = enabled; if (enabled) push`")
    fdefs = [("gen_scen_filter", "list ftest",
              "TransitData::getConnectionsForScenario: the tests on `enabled` in source order" + "".join("; " + x for x in chain.notes),
              coq_list(chain.tests))]
    bdefs = [("gen_scen_tail", "list tstmt", "the end of the trip loop (maps and vectors numbered in declaration order)", coq_list(tail)),
             ("gen_scen_loops", "list cloop", "the connection loops, in source order", coq_list(loops)),
             ("gen_scen_ctor", "(nat * nat * nat)%type", "std::make_shared<ConnectionSet>(trip vector, connection vector, connection vector)", ctor)]
    pdefs = [("gen_scen_protocol", "list pstmt", "look-up, hit, construction, publication, return", coq_list(proto))]
    return fdefs, bdefs, pdefs


def translate_resets(repo):
    src = read_source(repo, SRC_RESETS)
    params, body = find_function(src, "Calculator::resetFilters")
    m = re.match(r"^\s*const\s+CommonParameters\s*&\s*(" + IDENT + r")\s*$", params)
    if not m:
        raise Untranslatable("parameter list not understood: " + params)
    pv = m.group(1)
    nodes = RN.parse_list(body)
    maps = {"tripsDisabled": 0}
    chain = None
    cleared = fetched = False
    for n in nodes:
        if n[0] == "stmt":
            t = flat(n[1])
            if is_log(n[1]):
                continue
            if t == "connectionSet=transitData.getConnectionsForScenario(%s.getScenario())" % pv:
                fetched = True
                continue
            if t == "tripsDisabled.clear()" and chain is None:
                cleared = True
                continue
            raise Untranslatable("statement not understood: " + t[:60])
        if n[0] == "for":
            rf = range_for(n[1])
            if not rf or rf[1] != "connectionSet.get()->getTrips()" or chain is not None or not fetched:
                raise Untranslatable("loop not understood: " + flat(n[1])[:60])
            chain = Chain(param_list_of(pv))
            chain.read(n[2], r"^" + re.escape(rf[0]) + r"\.get\(\)$")
            continue
        raise Untranslatable("statement not understood: " + n[0])
    if chain is None or not cleared:
        raise Untranslatable("tripsDisabled.clear() or the trip loop not found")
    if chain.early:
        raise Untranslatable("early `continue` in resetFilters")
    return [("gen_reset_filter", "list ftest", "Calculator::resetFilters: the tests on `enabled` over the REQUEST's lists, in source order", coq_list(chain.tests)),
            ("gen_reset_tail", "list tstmt", "after `tripsDisabled.clear()`, at the end of each round (map 0 = tripsDisabled)", coq_list(chain.tail(maps, {})))]


# ------------------------------------------------------------------------------------------------
# 2. the cache methods

MEMBERS = {"lastUuid": "MLastUuid", "lastConnection": "MLastConnection", "connectionSets": "MConnectionSets"}
LOCKS = {"std::shared_lock": "LkShared", "std::unique_lock": "LkUnique", "std::lock_guard": "LkUnique", "std::scoped_lock": "LkUnique"}


class Method:
    def __init__(self, params):
        self.args = {}
        for p in RN.split_top(params, ","):
            p = p.strip()
            if not p:
                continue
            m = re.match(r"^(?:const\s+)?([\w:<>\s]+?)\s*&?\s*(" + IDENT + r")$", p)
            if not m:
                raise Untranslatable("parameter not understood: " + p)
            ty = flat(m.group(1))
            if ty == "boost::uuids::uuid":
                self.args[m.group(2)] = "EArgUuid"
            elif ty == "std::shared_ptr<ConnectionSet>":
                self.args[m.group(2)] = "EArgCache"
            else:
                raise Untranslatable("parameter type not understood: " + ty)
        self.locals = {}

    def exp(self, t):
        t = RN.strip_parens(flat(t))
        for op, con in (("==", "EEq"), ("!=", "ENe")):
            parts = RN.split_top(t.replace(op, "\x00"), "\x00")
            if len(parts) == 2:
                a, b = parts
                m = re.match(r"^(" + IDENT + r")\.c?end\(\)$", b)
                if m and m.group(1) in MEMBERS:
                    return "(%s %s %s)" % ("EIsEnd" if op == "==" else "ENotEnd", MEMBERS[m.group(1)], self.exp(a))
                m = re.match(r"^(" + IDENT + r")\.c?end\(\)$", a)
                if m and m.group(1) in MEMBERS:
                    return "(%s %s %s)" % ("EIsEnd" if op == "==" else "ENotEnd", MEMBERS[m.group(1)], self.exp(b))
                return "(%s %s %s)" % (con, self.exp(a), self.exp(b))
        if t in self.args:
            return self.args[t]
        if t in self.locals:
            return "(ELocal %d)" % self.locals[t]
        if t in MEMBERS:
            return "(EMember %s)" % MEMBERS[t]
        m = re.match(r"^(" + IDENT + r")\.find\((.+)\)$", t)
        if m and m.group(1) in MEMBERS:
            return "(EMapFind %s %s)" % (MEMBERS[m.group(1)], self.exp(m.group(2)))
        m = re.match(r"^(.+)->second$", t)
        if m:
            return "(EIterSecond %s)" % self.exp(m.group(1))
        raise Untranslatable("expression not understood: " + t[:60])

    def block(self, nodes, depth):
        out = []
        for n in nodes:
            if n[0] == "stmt":
                t = n[1].strip()
                ft = flat(t)
                if is_log(t):
                    out.append("CLog")
                    continue
                m = re.match(r"^(std::\w+)(?:<[\w:]+>)?\s+" + IDENT + r"\s*[\(\{]\s*(" + IDENT + r")\s*[\)\}]$", t)
                if m and m.group(1) in LOCKS:
                    if m.group(2) != "mutex":
                        raise Untranslatable("a lock on something else than `mutex`")
                    if depth:
                        raise Untranslatable("a lock inside a block")
                    out.append("CLock %s" % LOCKS[m.group(1)])
                    continue
                m = re.match(r"^(" + IDENT + r")\.reset\(\)$", ft)
                if m and m.group(1) in MEMBERS:
                    out.append("CReset %s" % MEMBERS[m.group(1)])
                    continue
                m = re.match(r"^(" + IDENT + r")\.clear\(\)$", ft)
                if m and m.group(1) in MEMBERS:
                    out.append("CMapClear %s" % MEMBERS[m.group(1)])
                    continue
                m = re.match(r"^(" + IDENT + r")\[(.+)\]=(?!=)(.+)$", ft)
                if m and m.group(1) in MEMBERS:
                    out.append("CMapAssign %s %s %s" % (MEMBERS[m.group(1)], self.exp(m.group(2)), self.exp(m.group(3))))
                    continue
                m = re.match(r"^(" + IDENT + r")=(?!=)(.+)$", ft)
                if m and m.group(1) in MEMBERS:
                    out.append("CAssign %s %s" % (MEMBERS[m.group(1)], self.exp(m.group(2))))
                    continue
                d = RN.DECL.match(t)
                if d and d.group("init") is not None:
                    e = self.exp(d.group("init"))
                    k = len(self.locals)
                    self.locals[d.group("name")] = k
                    out.append("CLet %d %s" % (k, e))
                    continue
                raise Untranslatable("statement not understood: " + ft[:60])
            if n[0] == "if":
                out.append("CIf %s\n        %s\n        %s" % (self.exp(n[1]), coq_list(self.block(n[2], depth + 1), "          "),
                                                            coq_list(self.block(n[3], depth + 1), "          ")))
                continue
            if n[0] == "return":
                t = flat(n[1])
                if t in ("std::nullopt", "{}", "std::optional<std::shared_ptr<ConnectionSet>>()"):
                    out.append("CReturnNone")
                    continue
                m = re.match(r"^std::(?:optional|make_optional)(?:<[^()]*>)?\((.+)\)$", t)
                out.append("CReturnSome %s" % self.exp(m.group(1) if m else t))
                continue
            raise Untranslatable("statement not understood: " + n[0])
        return out


def translate_cache(repo, cls, tag):
    src = read_source(repo, SRC_CACHE)
    defs = []
    for meth in ("get", "set", "clear"):
        params, body = find_function(src, cls + "::" + meth)
        mt = Method(params)
        defs.append(("gen_cache_%s_%s" % (tag, meth), "list cstmt", "%s::%s" % (cls, meth), coq_list(mt.block(RN.parse_list(body), 0))))
    return defs



# ------------------------------------------------------------------------------------------------
# 3. the summary accumulator

def find_ctor(src, cls, param_rx):
    """`cls(params) [: inits] {body}` -> (inits text, body)"""
    for m in re.finditer(r"(?<![\w:~])" + cls + r"\s*\(", src):
        params, j = SK.balanced(src, m.end() - 1, "(", ")")
        if not re.match(param_rx, flat(params)):
            continue
        k = SK.skip_ws(src, j)
        inits = ""
        if k < len(src) and src[k] == ":":
            b = src.find("{", k)
            # initialisers may contain braces only as `x{...}`; the renderers do not use them
            inits = src[k + 1:b]
            k = b
        if k < len(src) and src[k] == "{":
            body, _ = SK.balanced(src, k, "{", "}")
            return inits, body
    return None


def count_of(inits, body, other):
    """the value `count` gets: an integer literal, or 'copy' for <other>.count"""
    val = None
    for it in RN.split_top(inits, ","):
        m = re.match(r"^count[\(\{](.+)[\)\}]$", flat(it))
        if m:
            val = m.group(1)
    for n in RN.parse_list(body):
        if n[0] != "stmt":
            raise Untranslatable("constructor body not understood")
        m = re.match(r"^(?:this->)?count=(.+)$", flat(n[1]))
        if not m:
            raise Untranslatable("constructor statement not understood: " + flat(n[1])[:60])
        val = m.group(1)
    if val is None:
        raise Untranslatable("constructor does not set count")
    if re.match(r"^-?\d+$", val):
        return int(val)
    if other and val == other + ".count":
        return "copy"
    raise Untranslatable("count initialised with " + val[:40])


class Acc:
    def __init__(self):
        self.maps = {"lineSummaries": 0}
        self.opt = None
        self.summary = None
        self.entry = None

    def key(self, t):
        t = flat(t)
        owners = []
        if self.summary:
            owners.append(self.summary + ".")
        if self.opt:
            owners += [self.opt + "->", self.opt + ".value().", "(*%s)." % self.opt]
        for o in owners:
            if t == o + "trip.line.uuid":
                return "AKLine"
        if self.entry and t == self.entry + ".first":
            return "AKEntry"
        raise Untranslatable("key not understood: " + t[:60])

    def value_ok(self, t):
        t = flat(t)
        names = []
        if self.summary:
            names += [self.summary, "LineSummary(%s)" % self.summary]
        if self.opt:
            names += [self.opt + ".value()", "*" + self.opt, "LineSummary(%s.value())" % self.opt, "LineSummary(*%s)" % self.opt]
        if t not in names:
            raise Untranslatable("inserted value is not the visitor's summary: " + t[:60])

    def mp(self, name):
        if name not in self.maps:
            raise Untranslatable("not a map of the accumulator: " + name)
        return self.maps[name]

    def stmts(self, nodes, res=None):
        """res = (variable, map, key) of an emplace result in scope"""
        out = []
        i = 0
        while i < len(nodes):
            n = nodes[i]
            i += 1
            if n[0] == "stmt":
                t = n[1].strip()
                ft = flat(t)
                if is_log(t):
                    continue
                m = re.match(r"^(?:const)?LineSummary&?(" + IDENT + r")=(.+)$", ft.replace("const ", ""))
                d = RN.DECL.match(t)
                if d and flat(d.group("ty")) == "LineSummary" and d.group("init") is not None and self.opt and \
                        flat(d.group("init")) in (self.opt + ".value()", "*" + self.opt):
                    self.summary = d.group("name")
                    continue
                if d and d.group("init") is not None and flat(d.group("ty")) == "auto":
                    m = re.match(r"^(" + IDENT + r")\.emplace\((.+)\)$", flat(d.group("init")))
                    if m:
                        args = RN.split_top(m.group(2), ",")
                        if len(args) != 2:
                            raise Untranslatable("emplace arguments not understood")
                        self.value_ok(args[1])
                        mm, kk = self.mp(m.group(1)), self.key(args[0])
                        var = d.group("name")
                        # must be followed by `if (!var.second) {...}`
                        if i < len(nodes) and nodes[i][0] == "if" and flat(nodes[i][1]) == "!" + var + ".second" and not nodes[i][3]:
                            el = self.stmts(nodes[i][2], (var, mm, kk))
                            i += 1
                            out.append("AEmplaceElse %d %s %s" % (mm, kk, coq_list(el, "        ")))
                            continue
                        raise Untranslatable("result of emplace used in a way not understood")
                m = re.match(r"^(" + IDENT + r")\.emplace\((.+)\)$", ft)
                if m:
                    args = RN.split_top(m.group(2), ",")
                    if len(args) != 2:
                        raise Untranslatable("emplace arguments not understood")
                    self.value_ok(args[1])
                    out.append("AEmplace %d %s" % (self.mp(m.group(1)), self.key(args[0])))
                    continue
                m = re.match(r"^(" + IDENT + r")\.merge\((" + IDENT + r")\)$", ft)
                if m:
                    out.append("AMerge %d %d" % (self.mp(m.group(1)), self.mp(m.group(2))))
                    continue
                # count updates
                target = None
                body = None
                for rx in (r"^(?P<t>.+)\.count\+\+$", r"^\+\+(?P<t>.+)\.count$", r"^(?P<t>.+)\.count\+=1$"):
                    m = re.match(rx, ft)
                    if m:
                        target, body = m.group("t"), "incr"
                        break
                if target is None:
                    m = re.match(r"^(?P<t>.+)\.count=(?!=)(-?\d+)$", ft)
                    if m:
                        target, body = m.group("t"), int(m.group(2))
                if target is not None:
                    m = re.match(r"^(" + IDENT + r")\.at\((.+)\)$", target)
                    if m:
                        mm, kk = self.mp(m.group(1)), self.key(m.group(2))
                    elif res and target == res[0] + ".first->second":
                        mm, kk = res[1], res[2]
                    else:
                        raise Untranslatable("count of something not understood: " + target[:60])
                    out.append("AIncr %d %s" % (mm, kk) if body == "incr" else "ASetCount %d %s (%d)" % (mm, kk, body))
                    continue
                raise Untranslatable("statement not understood: " + ft[:70])
            if n[0] == "if":
                _, c, th, el = n
                m = re.match(r"^(" + IDENT + r")\.find\((.+)\)(==|!=)(" + IDENT + r")\.c?end\(\)$", RN.strip_parens(flat(c)))
                if m and m.group(1) == m.group(4):
                    mm, kk = self.mp(m.group(1)), self.key(m.group(2))
                    a, b = self.stmts(th, res), self.stmts(el, res)
                    if m.group(3) == "!=":
                        a, b = b, a
                    out.append("AIfAbsent %d %s\n        %s\n        %s" % (mm, kk, coq_list(a, "          "), coq_list(b, "          ")))
                    continue
                raise Untranslatable("`if` not understood: " + flat(c)[:60])
            if n[0] == "for":
                rf = range_for(n[1])
                if rf and rf[1] in self.maps:
                    old = self.entry
                    self.entry = rf[0]
                    body = self.stmts(n[2], res)
                    self.entry = old
                    out.append("AForMap %d %s" % (self.maps[rf[1]], coq_list(body, "        ")))
                    continue
                raise Untranslatable("loop not understood: " + flat(n[1])[:60])
            raise Untranslatable("statement not understood: " + n[0])
        return out


def translate_summary(repo):
    src = read_source(repo, SRC_SUMMARY)
    # LineSummary
    c1 = find_ctor(src, "LineSummary", r"^constTrip&\w+$")
    if c1 is None:
        raise Untranslatable("LineSummary(const Trip&) not found")
    ctor = count_of(c1[0], c1[1], None)
    if ctor == "copy":
        raise Untranslatable("constructor count not a literal")
    c2 = find_ctor(src, "LineSummary", r"^constLineSummary&\w+$")
    if c2 is None:
        copy = "CopyCount"
    else:
        pm = re.search(r"LineSummary\s*\(\s*const\s+LineSummary\s*&\s*(" + IDENT + r")\s*\)", src)
        v = count_of(c2[0], c2[1], pm.group(1))
        copy = "CopyCount" if v == "copy" else "(CopyConst (%d))" % v
    # the visitor
    vis = {}
    for kind, cls in (("board", "BoardingStep"), ("unboard", "UnboardingStep"), ("walk", "WalkingStep")):
        params, body = find_function(src, "StepToV2SummaryVisitor::visit" + cls)
        pm = re.match(r"^\s*const\s+" + cls + r"\s*&\s*(" + IDENT + r")?\s*$", params)
        if not pm:
            raise Untranslatable("visitor parameter not understood: " + params)
        nodes = [n for n in RN.parse_list(body) if not (n[0] == "stmt" and is_log(n[1]))]
        if len(nodes) != 1 or nodes[0][0] != "stmt":
            raise Untranslatable("visitor body not understood: visit" + cls)
        t = flat(nodes[0][1])
        if t in ("response.reset()", "response=std::nullopt"):
            vis[kind] = "VNone"
        elif pm.group(1) and kind != "walk" and t in ("response.emplace(LineSummary(%s.trip))" % pm.group(1), "response=LineSummary(%s.trip)" % pm.group(1),
                                                      "response.emplace(%s.trip)" % pm.group(1)):
            vis[kind] = "VSummary"
        else:
            raise Untranslatable("visitor statement not understood: " + t[:60])
    # the accumulator
    params, body = find_function(src, "SummaryResultAccumulator::processSingleCalculationResult")
    pm = re.match(r"^\s*const\s+SingleCalculationResult\s*&\s*(" + IDENT + r")\s*$", params)
    if not pm:
        raise Untranslatable("parameter list not understood: " + params)
    resv = pm.group(1)
    acc = Acc()
    visitor = None
    step_body = None
    after = []
    nodes = RN.parse_list(body)
    for idx, n in enumerate(nodes):
        if n[0] == "stmt":
            t = n[1].strip()
            if is_log(t):
                continue
            d = RN.DECL.match(t)
            if d and flat(d.group("ty")) == "StepToV2SummaryVisitor" and step_body is None:
                visitor = d.group("name")
                continue
            if d and flat(d.group("ty")) == "std::map<boost::uuids::uuid,LineSummary>" and d.group("init") is None and step_body is None:
                acc.maps[d.group("name")] = len(acc.maps)
                continue
            if step_body is None:
                raise Untranslatable("statement not understood: " + flat(t)[:60])
        if n[0] == "for" and step_body is None:
            rf = range_for(n[1])
            if not rf or rf[1] != resv + ".steps" or visitor is None:
                raise Untranslatable("loop not understood: " + flat(n[1])[:60])
            inner = [x for x in n[2] if not (x[0] == "stmt" and is_log(x[1]))]
            if len(inner) != 2 or inner[0][0] != "stmt" or inner[1][0] != "if" or inner[1][3]:
                raise Untranslatable("body of the step loop not understood")
            d = RN.DECL.match(inner[0][1].strip())
            if not d or d.group("init") is None or flat(d.group("init")) not in (
                    "%s.get()->accept(%s)" % (rf[0], visitor), "%s->accept(%s)" % (rf[0], visitor), "%s.get().accept(%s)" % (rf[0], visitor)):
                raise Untranslatable("visitor call not understood: " + flat(inner[0][1])[:60])
            acc.opt = d.group("name")
            if RN.strip_parens(flat(inner[1][1])) not in (acc.opt + ".has_value()", acc.opt):
                raise Untranslatable("test of the visitor's answer not understood")
            step_body = acc.stmts(inner[1][2])
            acc.opt = acc.summary = None
            continue
        if step_body is not None:
            after += acc.stmts([n])
            continue
        raise Untranslatable("statement not understood: " + n[0])
    if step_body is None:
        raise Untranslatable("step loop not found")
    return [("gen_summary_visitor", "visitor_code", "StepToV2SummaryVisitor: what `response` holds after each kind of step",
             "{| vc_board := %s; vc_unboard := %s; vc_walk := %s |}" % (vis["board"], vis["unboard"], vis["walk"])),
            ("gen_summary_ctor_count", "Z", "LineSummary(const Trip&): the initial count", "(%d)%%Z" % ctor),
            ("gen_summary_copy", "copysel", "LineSummary(const LineSummary&): the count of the copy", copy),
            ("gen_summary_step", "list astmt", "processSingleCalculationResult: inside `if (optSummary.has_value())` of the loop over result.steps (map 0 = lineSummaries)",
             coq_list(step_body)),
            ("gen_summary_after", "list astmt", "processSingleCalculationResult: after the loop over result.steps", coq_list(after))]


# ------------------------------------------------------------------------------------------------
# 4. the hour tables

TABLES = {"forwardConnectionsBeginIteratorCache": "SForward", "reverseConnectionsBeginIteratorCache": "SReverse"}
VECS = {"forwardConnections": "SForward", "reverseConnections": "SReverse"}
HOURS = {"CONNECTION_ITERATOR_CACHE_BEGIN_HOUR": "BEGIN_HOUR", "CONNECTION_ITERATOR_CACHE_END_HOUR": "END_HOUR"}
CMPS = {">=": "ICGe", "<=": "ICLe", ">": "ICGt", "<": "ICLt"}


def hour_exp(t):
    t = RN.strip_parens(flat(t))
    m = re.match(r"^(\w+)(?:([+-])(\d+))?$", t)
    if not m:
        raise Untranslatable("hour expression not understood: " + t[:60])
    base = HOURS.get(m.group(1)) or (m.group(1) if re.match(r"^\d+$", m.group(1)) else None)
    if base is None:
        raise Untranslatable("hour expression not understood: " + t[:60])
    return "(%s %s %s)%%Z" % (base, m.group(2), m.group(3)) if m.group(2) else "(%s)%%Z" % base


def split_cmp(t):
    for op in (">=", "<=", ">", "<"):
        parts = t.split(op)
        if len(parts) == 2 and not parts[1].startswith("="):
            return parts[0], op, parts[1]
    raise Untranslatable("comparison not understood: " + t[:60])


def hour_step(t, hv):
    t = flat(t)
    if t in (hv + "++", "++" + hv, hv + "+=1"):
        return "1"
    if t in (hv + "--", "--" + hv, hv + "-=1"):
        return "(-1)"
    raise Untranslatable("hour step not understood: " + t[:40])


def placement(t, what):
    """`TABLE.push_back(x)` / `TABLE.insert(TABLE.begin(), x)` -> (table, place), checking x"""
    t = flat(t)
    m = re.match(r"^(\w+)\.push_back\((.+)\)$", t)
    if m and m.group(1) in TABLES and m.group(2) == what:
        return TABLES[m.group(1)], "IPushBack"
    m = re.match(r"^(\w+)\.insert\((\w+)\.c?begin\(\),(.+)\)$", t)
    if m and m.group(1) in TABLES and m.group(2) == m.group(1) and m.group(3) == what:
        return TABLES[m.group(1)], "IInsertFront"
    raise Untranslatable("placement not understood: " + t[:70])


def translate_index(repo):
    src = read_source(repo, SRC_SET)
    params, body = find_function(src, "ConnectionSet::generateConnectionsIteratorCache")
    hv = None
    out = []
    for n in SK.parse_list(body):
        if n[0] == "stmt":
            t = n[1].strip()
            if is_log(t):
                continue
            d = RN.DECL.match(t)
            if d and flat(d.group("ty")) == "int" and d.group("init") is not None and hv is None:
                hv = d.group("name")
                out.append("ISetHour %s" % hour_exp(d.group("init")))
                continue
            m = re.match(r"^(\w+)=(?!=)(.+)$", flat(t))
            if m and m.group(1) == hv:
                out.append("ISetHour %s" % hour_exp(m.group(2)))
                continue
            raise Untranslatable("statement not understood: " + flat(t)[:60])
        if n[0] == "for" and hv is not None:
            parts = RN.split_top(n[1], ";")
            if len(parts) != 3:
                raise Untranslatable("loop header not understood")
            init, cond, step = [flat(x) for x in parts]
            body_nodes = [x for x in n[2] if not (x[0] == "stmt" and is_log(x[1]))]
            if init == "":
                a, op, b = split_cmp(cond)
                if a != hv:
                    raise Untranslatable("fill loop test not understood: " + cond[:60])
                if len(body_nodes) != 1 or body_nodes[0][0] != "stmt":
                    raise Untranslatable("fill loop body not understood")
                t = flat(body_nodes[0][1])
                m = re.search(r"(forwardConnections|reverseConnections)\.c?end\(\)\)$", t)
                if not m:
                    raise Untranslatable("fill loop body not understood: " + t[:60])
                tb, pl = placement(t, m.group(0)[:-1])
                out.append("IFill {| if_cmp := %s; if_bound := %s; if_table := %s; if_place := %s; if_end_of := %s; if_dir := %s |}" % (
                    CMPS[op], hour_exp(b), tb, pl, VECS[m.group(1)], hour_step(step, hv)))
                continue
            m = re.search(r"(\w+)\s*=\s*(forwardConnections|reverseConnections)\s*\.\s*c?begin\(\s*\)\s*$", parts[0])
            if not m:
                raise Untranslatable("loop initialiser not understood: " + init[:60])
            it, vec = m.group(1), m.group(2)
            if not re.match(r"^" + it + r"!=" + vec + r"\.c?end\(\)$", cond) or step not in (it + "++", "++" + it):
                raise Untranslatable("loop over %s not understood" % vec)
            if len(body_nodes) != 1 or body_nodes[0][0] != "while":
                raise Untranslatable("body of the loop over %s is not one `while`" % vec)
            _, wc, wb = body_nodes[0]
            time = cmp_ = scale = bound = None
            for c in RN.split_top(flat(wc).replace("&&", "\x00"), "\x00"):
                a, op, b = split_cmp(RN.strip_parens(c))
                if a == hv:
                    if bound is not None:
                        raise Untranslatable("two bounds on the hour")
                    bound = "(Some (%s, %s))" % (CMPS[op], hour_exp(b))
                    continue
                mt = re.match(r"^\(\*" + it + r"\)\.get\(\)\.get(Departure|Arrival)Time\(\)$", a) or re.match(r"^" + it + r"->get\(\)\.get(Departure|Arrival)Time\(\)$", a)
                ms = re.match(r"^" + hv + r"\*(\d+)$", b)
                if not mt or not ms or time is not None:
                    raise Untranslatable("while test not understood: " + c[:60])
                time, cmp_, scale = "IT" + mt.group(1), CMPS[op], ms.group(1)
            if time is None:
                raise Untranslatable("while test without a time comparison")
            wb = [x for x in wb if not (x[0] == "stmt" and is_log(x[1]))]
            if len(wb) != 2 or wb[0][0] != "stmt" or wb[1][0] != "stmt":
                raise Untranslatable("while body not understood")
            tb, pl = placement(wb[0][1], it)
            out.append("IWhileLoop {| iw_src := %s; iw_time := %s; iw_cmp := %s; iw_scale := %s; iw_bound := %s;\n                  iw_table := %s; iw_place := %s; iw_dir := %s |}" % (
                VECS[vec], time, cmp_, scale, bound or "None", tb, pl, hour_step(wb[1][1], hv)))
            continue
        raise Untranslatable("statement not understood: " + n[0])
    return [("gen_index_code", "list istmt", "ConnectionSet::generateConnectionsIteratorCache, statement by statement", coq_list(out))]

# ------------------------------------------------------------------------------------------------

# the committed tables (printed by `gen_scenario.py --print-hand` on the unchanged tree)
HAND = {
    'scen_filter': [
        ('gen_scen_filter', 'list ftest', 'TransitData::getConnectionsForScenario: the tests on `enabled` in source order', """[ {| ft_conj := true; ft_guard := (Some LServices); ft_body := (FFind LServices AService MustBeIn false) |};
    {| ft_conj := true; ft_guard := (Some LOnlyLines); ft_body := (FFind LOnlyLines ALine MustBeIn false) |};
    {| ft_conj := true; ft_guard := (Some LOnlyModes); ft_body := (FFind LOnlyModes AMode MustBeIn false) |};
    {| ft_conj := true; ft_guard := (Some LOnlyNodes); ft_body := FNothing |};
    {| ft_conj := true; ft_guard := (Some LOnlyAgencies); ft_body := (FFind LOnlyAgencies AAgency MustBeIn false) |};
    {| ft_conj := true; ft_guard := (Some LExceptLines); ft_body := (FFind LExceptLines ALine MustNotBeIn false) |};
    {| ft_conj := true; ft_guard := (Some LExceptNodes); ft_body := FNothing |};
    {| ft_conj := true; ft_guard := (Some LExceptModes); ft_body := (FFind LExceptModes AMode MustNotBeIn false) |};
    {| ft_conj := true; ft_guard := (Some LExceptAgencies); ft_body := (FFind LExceptAgencies AAgency MustNotBeIn false) |} ]"""),
    ],
    'scen_build': [
        ('gen_scen_tail', 'list tstmt', 'the end of the trip loop (maps and vectors numbered in declaration order)', """[ TSetMap 0 BEnabled;
    TPushIf BEnabled 0 ]"""),
        ('gen_scen_loops', 'list cloop', 'the connection loops, in source order', """[ {| cl_src := SForward; cl_keep := (BMap 0); cl_out := 0 |};
    {| cl_src := SReverse; cl_keep := (BMap 0); cl_out := 1 |} ]"""),
        ('gen_scen_ctor', '(nat * nat * nat)%type', 'std::make_shared<ConnectionSet>(trip vector, connection vector, connection vector)', """(0, 0, 1)"""),
    ],
    'scen_protocol': [
        ('gen_scen_protocol', 'list pstmt', 'look-up, hit, construction, publication, return', """[ PGet KScenarioUuid;
    PIfHitReturnCached;
    PBuild;
    PSet KScenarioUuid;
    PReturnBuilt ]"""),
    ],
    'reset_filter': [
        ('gen_reset_filter', 'list ftest', "Calculator::resetFilters: the tests on `enabled` over the REQUEST's lists, in source order", """[ {| ft_conj := true; ft_guard := (Some LServices); ft_body := (FFind LServices AService MustBeIn false) |};
    {| ft_conj := true; ft_guard := (Some LOnlyLines); ft_body := (FFind LOnlyLines ALine MustBeIn false) |};
    {| ft_conj := true; ft_guard := (Some LOnlyModes); ft_body := (FFind LOnlyModes AMode MustBeIn false) |};
    {| ft_conj := true; ft_guard := (Some LOnlyNodes); ft_body := FNothing |};
    {| ft_conj := true; ft_guard := (Some LOnlyAgencies); ft_body := (FFind LOnlyAgencies AAgency MustBeIn false) |};
    {| ft_conj := true; ft_guard := (Some LExceptServices); ft_body := (FFind LExceptServices AService MustNotBeIn false) |};
    {| ft_conj := true; ft_guard := (Some LExceptLines); ft_body := (FFind LExceptLines ALine MustNotBeIn false) |};
    {| ft_conj := true; ft_guard := (Some LExceptNodes); ft_body := FNothing |};
    {| ft_conj := true; ft_guard := (Some LExceptModes); ft_body := (FFind LExceptModes AMode MustNotBeIn false) |};
    {| ft_conj := true; ft_guard := (Some LExceptAgencies); ft_body := (FFind LExceptAgencies AAgency MustNotBeIn false) |} ]"""),
        ('gen_reset_tail', 'list tstmt', 'after `tripsDisabled.clear()`, at the end of each round (map 0 = tripsDisabled)', """[ TSetMapIf (BNot BEnabled) 0 (BConst true) ]"""),
    ],
    'cache_one': [
        ('gen_cache_one_get', 'list cstmt', 'ScenarioConnectionCacheOne::get', """[ CLock LkShared;
    CIf (EEq EArgUuid (EMember MLastUuid))
        [ CReturnSome (EMember MLastConnection) ]
        [ CReturnNone ] ]"""),
        ('gen_cache_one_set', 'list cstmt', 'ScenarioConnectionCacheOne::set', """[ CLock LkUnique;
    CAssign MLastUuid EArgUuid;
    CAssign MLastConnection EArgCache ]"""),
        ('gen_cache_one_clear', 'list cstmt', 'ScenarioConnectionCacheOne::clear', """[ CLock LkUnique;
    CReset MLastUuid;
    CReset MLastConnection ]"""),
    ],
    'cache_all': [
        ('gen_cache_all_get', 'list cstmt', 'ScenarioConnectionCacheAll::get', """[ CLock LkShared;
    CLet 0 (EMapFind MConnectionSets EArgUuid);
    CIf (ENotEnd MConnectionSets (ELocal 0))
        [ CReturnSome (EIterSecond (ELocal 0)) ]
        [ CReturnNone ] ]"""),
        ('gen_cache_all_set', 'list cstmt', 'ScenarioConnectionCacheAll::set', """[ CLog;
    CLock LkUnique;
    CMapAssign MConnectionSets EArgUuid EArgCache ]"""),
        ('gen_cache_all_clear', 'list cstmt', 'ScenarioConnectionCacheAll::clear', """[ CLock LkUnique;
    CMapClear MConnectionSets ]"""),
    ],
    'summary': [
        ('gen_summary_visitor', 'visitor_code', 'StepToV2SummaryVisitor: what `response` holds after each kind of step', """{| vc_board := VSummary; vc_unboard := VNone; vc_walk := VNone |}"""),
        ('gen_summary_ctor_count', 'Z', 'LineSummary(const Trip&): the initial count', """(1)%Z"""),
        ('gen_summary_copy', 'copysel', 'LineSummary(const LineSummary&): the count of the copy', """CopyCount"""),
        ('gen_summary_step', 'list astmt', 'processSingleCalculationResult: inside `if (optSummary.has_value())` of the loop over result.steps (map 0 = lineSummaries)', """[ AIfAbsent 0 AKLine
        [ AEmplace 0 AKLine ]
        [ AIncr 0 AKLine ] ]"""),
        ('gen_summary_after', 'list astmt', 'processSingleCalculationResult: after the loop over result.steps', """[]"""),
    ],
    'index': [
        ('gen_index_code', 'list istmt', 'ConnectionSet::generateConnectionsIteratorCache, statement by statement', """[ ISetHour (BEGIN_HOUR)%Z;
    IWhileLoop {| iw_src := SForward; iw_time := ITDeparture; iw_cmp := ICGe; iw_scale := 3600; iw_bound := None;
                  iw_table := SForward; iw_place := IPushBack; iw_dir := 1 |};
    IFill {| if_cmp := ICLt; if_bound := (END_HOUR)%Z; if_table := SForward; if_place := IPushBack; if_end_of := SForward; if_dir := 1 |};
    ISetHour (END_HOUR - 1)%Z;
    IWhileLoop {| iw_src := SReverse; iw_time := ITArrival; iw_cmp := ICLe; iw_scale := 3600; iw_bound := (Some (ICGt, (BEGIN_HOUR)%Z));
                  iw_table := SReverse; iw_place := IInsertFront; iw_dir := (-1) |};
    IFill {| if_cmp := ICGe; if_bound := (BEGIN_HOUR)%Z; if_table := SReverse; if_place := IInsertFront; if_end_of := SReverse; if_dir := (-1) |} ]"""),
    ],
}



def translate_all(repo):
    """-> [(group, defs | None, error)]"""
    out = []
    try:
        f, b, p = translate_scenario(repo)
        out += [("scen_filter", f, None), ("scen_build", b, None), ("scen_protocol", p, None)]
    except (Untranslatable, GG.Untranslatable, ValueError, OSError) as e:
        out += [(g, None, "%s: %s" % (g, e)) for g in ("scen_filter", "scen_build", "scen_protocol")]
    for g, fn in (("reset_filter", translate_resets),
                  ("cache_one", lambda r: translate_cache(r, "ScenarioConnectionCacheOne", "one")),
                  ("cache_all", lambda r: translate_cache(r, "ScenarioConnectionCacheAll", "all")),
                  ("summary", translate_summary),
                  ("index", translate_index)):
        try:
            out.append((g, fn(repo), None))
        except (Untranslatable, GG.Untranslatable, ValueError, OSError) as e:
            out.append((g, None, "%s: %s" % (g, e)))
    return out


def regenerate():
    repo = os.environ.get("TRV_REPO", "/repo")
    report = dict(functions={}, fallback=[])
    groups = translate_all(repo)
    defs = []
    for name, ds, err in groups:
        if ds is None:
            if HAND is None or name not in HAND:
                raise RuntimeError("scenario: %s, and no committed table to fall back to" % err)
            report["fallback"].append(err)
            report["functions"][name] = "fallback"
            ds = HAND[name]
        else:
            report["functions"][name] = "source"
        defs += [tuple(d) for d in ds]
    lines = [
        "(* GENERATED by tools/gen_scenario.py from /repo's transit_data.cpp (getConnectionsForScenario), resets.cpp (resetFilters),",
        "   connection_cache.cpp, result_to_v2_summary.cpp (accumulator) and connection_set.cpp (hour tables) - do not edit.",
        "   %s *)" % ", ".join("%s: %s" % kv for kv in report["functions"].items()),
        "From Coq Require Import List ZArith Bool.",
        "Require Import TrV.ScenCode.",
        "Import ListNotations.",
        ""]
    for name, ty, what, body in defs:
        lines += ["(* %s *)" % what, "Definition %s : %s :=\n  %s." % (name, ty, body), ""]
    text = "\n".join(lines)
    os.makedirs(os.path.dirname(OUT), exist_ok=True)
    old = open(OUT).read() if os.path.exists(OUT) else None
    if old != text:
        with open(OUT, "w") as fh:
            fh.write(text)
    report["changed"] = old != text
    report["from_source"] = sum(1 for v in report["functions"].values() if v == "source")
    report["total"] = len(report["functions"])
    report["policy"] = "source" if report["from_source"] == report["total"] else "fallback"
    report["reason"] = "; ".join(report["fallback"])
    return report


if __name__ == "__main__":
    if len(sys.argv) > 1 and sys.argv[1] == "--print-hand":
        groups = translate_all(os.environ.get("TRV_REPO", "/repo"))
        bad = [err for _, ds, err in groups if ds is None]
        if bad:
            sys.exit("cannot print the committed tables: " + "; ".join(bad))
        print("HAND = {")
        for name, ds, _ in groups:
            print("    %r: [" % name)
            for d in ds:
                print("        (%r, %r, %r, \"\"\"%s\"\"\")," % d)
            print("    ],")
        print("}")
    else:
        print(json.dumps(regenerate(), indent=1))
