#!/usr/bin/env python3
"""Properties decided on the L2 (Calculator API) batch: C01-C10.  For each property: which operations it
concerns, the projection of the canonical line that model and implementation must agree on, the oracle
verdict that is a violation, and the rule that makes a case non-trivial."""
import re
from collections import Counter
import checklib as cl
import run

MAX_INT = "2147483647"


def op_params(rec):
    t = rec["op"].split()
    # route/access: kind scen time minw maxtt maxacc maxegr maxtr maxfw fwd [alt]
    return dict(kind=t[0], scen=t[1], time=int(t[2]), minw=int(t[3]), maxtt=t[4], maxacc=t[5], maxegr=t[6],
                maxtr=t[7], maxfw=int(t[8]), fwd=t[9] == "1")


def route_proj_steps(rt):
    head, steps = cl.steps_of(rt)
    out = []
    for s in steps:
        if s[0] == "W":
            out.append(("W", s[1], s[2]))
        elif s[0] == "B":
            out.append(("B", s[1], s[2], s[3], s[4], s[5]))
        elif s[0] == "U":
            out.append(("U", s[1], s[2], s[3], s[4], s[5]))
    return out


def nboard(rt):
    return sum(1 for s in cl.steps_of(rt)[1] if s[0] == "B")


def proj_C01(line):
    if line.startswith("optimize"):
        return line.strip()
    return (cl.status_of(line), tuple(tuple(route_proj_steps(r)) for r in cl.routes_in(line)))


def proj_C02(line):
    rs = cl.routes_in(line)
    return (cl.status_of(line), tuple((cl.steps_of(r)[0][2:4], tuple(route_proj_steps(r))) for r in rs))


def proj_C06(line):
    return (cl.status_of(line), tuple(r for r in cl.routes_in(line)))


def head_field(line, i):
    rs = cl.routes_in(line)
    if not rs:
        return None
    return cl.steps_of(rs[0])[0][2 + i]


def proj_C03(line):
    return (cl.status_of(line).split()[0], head_field(line, 1))


def proj_C04(line):
    return (cl.status_of(line).split()[0], head_field(line, 0))


def proj_C05(line):
    return (head_field(line, 1), head_field(line, 0))


def proj_C07(line):
    return cl.status_of(line)


def proj_whole(line):
    return line.split(" | opt")[0].strip()


def any_route_verdict(rec, key):
    return any(v.get(key) == "0" for v in cl.route_verdicts(rec))


def prev_single(rec, by_case):
    """the single-route record of the same query that precedes an alternatives op"""
    lst = by_case[rec["case"]]
    i = rec["idx"]
    if i == 0:
        return None
    p = lst[i - 1]
    a = rec["op"].split()
    b = p["op"].split()
    if b[0] == "route" and b[10] == "0" and a[1:10] == b[1:10] and a[11:] == b[11:]:
        return p
    return None


class Prop:
    def __init__(self, pid, kinds, proj, fails, nontrivial, rule, fwd=None, need_dom=True):
        self.pid, self.kinds, self.proj, self.fails, self.nontrivial, self.rule, self.fwd, self.need_dom = \
            pid, kinds, proj, fails, nontrivial, rule, fwd, need_dom

    def applies(self, rec):
        k = cl.kind_of(rec)
        if k not in self.kinds:
            return False
        if self.fwd is not None and cl.is_fwd(rec) != self.fwd:
            return False
        return True


def c10_fails(rec, ctx):
    v = rec["verdict"]
    if not cl.dom_of(rec) and "dom=" in v:
        return None
    reasons = []
    single = prev_single(rec, ctx["by_case"])
    if rec["impl"].startswith("alt ok"):
        for k in ("each", "distinct", "caps"):
            if run.vget(v, k) == "0":
                reasons.append(k)
        if run.vget(v, "nobetter") == "0" and all(run.vget(v, k) == "1" for k in ("dom", "pos", "uni", "capoff")):
            reasons.append("nobetter")
        if single is not None:
            if not single["impl"].startswith("route ok"):
                reasons.append("plain query fails but alternatives succeed")
            elif cl.routes_in(rec["impl"])[0] != cl.routes_in(single["impl"])[0]:
                reasons.append("routes[0] differs from the plain route")
    elif rec["impl"].startswith("alt noroute"):
        if single is not None and cl.status_of(single["impl"]) != cl.status_of(rec["impl"]):
            reasons.append("status/reason differs from the plain query")
    elif single is not None and single["impl"].startswith(("route ok", "route noroute")) and cl.dom_of(single):
        # neither routes nor a no-routing answer (abort, out-of-bounds, hang, stray exception) where the plain query on the same
        # in-domain input is answered: "succeeds or fails exactly as without alternatives" is violated
        reasons.append("the alternatives request ends in `%s` while the plain query is answered (%s)" % (" ".join(rec["impl"].split()[:3]), cl.status_of(single["impl"])))
    return ", ".join(reasons) if reasons else None


def access_fails(rec, ctx):
    v = rec["verdict"]
    if run.vget(v, "dom") != "1":
        return None
    bad = [k for k in ("map", "ttt", "once", "total") if run.vget(v, k) == "0"]
    return ("accessibility map differs from the reference: " + ",".join(bad)) if bad else None


def simple_fail(key, what):
    def f(rec, ctx):
        v = rec["verdict"]
        if run.vget(v, "dom") != "1":
            return None
        if v.startswith("v route") or v.startswith("v access"):
            return what if run.vget(v, key) == "0" else None
        return None
    return f


def route_fail(key, what):
    def f(rec, ctx):
        if run.vget(rec["verdict"], "dom") != "1":
            return None
        return what if any_route_verdict(rec, key) else None
    return f


def c07_fail(rec, ctx):
    v = rec["verdict"]
    if "C07=0" in v:
        return "reason differs from the most specific true one (expected %s)" % run.vget(v, "exp_reason")
    return None


def transfers_or_rewrite(rec):
    if rec["impl"].startswith("optimize"):
        return bool(cl.rewrites_of(rec["impl"]))
    return any(nboard(r) >= 2 for r in cl.routes_in(rec["impl"])) or bool(cl.rewrites_of(rec["impl"]))


def limits_active(rec):
    p = op_params(rec)
    return rec["impl"].startswith(("route ok", "alt ok")) and (p["maxtt"] != MAX_INT or p["maxfw"] > 0 or p["scen"] != "1" or p["maxtr"] != MAX_INT)


def ok_multi(rec):
    if not rec["impl"].startswith("route ok"):
        return False
    t = rec["op"].split()
    nacc = int(t[11])
    negr = int(t[12 + 3 * nacc])
    return any(nboard(r) >= 2 for r in cl.routes_in(rec["impl"])) or nacc >= 2 or negr >= 2


PROPS = {
    "C01": Prop("C01", ("route", "alt", "optimize"), proj_C01, route_fail("C01", "route is not an executable itinerary"), transfers_or_rewrite,
                "success with >=1 transfer or a clean-up rewrite; distinct by operation text"),
    "C02": Prop("C02", ("route", "alt"), proj_C02, route_fail("C02", "route violates a limit or rides an excluded trip"), limits_active,
                "success with at least one limit or scenario restriction active"),
    "C06": Prop("C06", ("route", "alt"), proj_C06, route_fail("C06", "totals are not the sums over the steps"),
                lambda r: any(nboard(x) >= 2 for x in cl.routes_in(r["impl"])), "success with >=1 transfer"),
    "C03": Prop("C03", ("route",), proj_C03, simple_fail("C03", "arrival differs from the reference earliest arrival"), ok_multi,
                "success with >=1 transfer or several access/egress stops (several admissible journeys)", fwd=True),
    "C04": Prop("C04", ("route",), proj_C04, simple_fail("C04", "departure differs from the reference latest departure"), ok_multi,
                "success with >=1 transfer or several access/egress stops", fwd=False),
    "C05": Prop("C05", ("route",), proj_C05, simple_fail("C05", "departure is not the latest one meeting the reported arrival"), ok_multi,
                "success with >=1 transfer or several access/egress stops", fwd=True),
    "C07": Prop("C07", ("route", "alt", "access"), proj_C07, c07_fail,
                lambda r: "noroute" in r["impl"], "a no_routing_found answer", need_dom=False),
    "C08": Prop("C08", ("access",), proj_whole, access_fails, lambda r: r["impl"].startswith("access ok") and int(r["impl"].split()[2]) >= 2,
                "map with >=2 reachable stops", fwd=True),
    "C09": Prop("C09", ("access",), proj_whole, access_fails, lambda r: r["impl"].startswith("access ok") and int(r["impl"].split()[2]) >= 2,
                "map with >=2 usable stops", fwd=False),
    "C10": Prop("C10", ("alt",), proj_whole, c10_fails, lambda r: r["impl"].startswith("alt ok") and int(r["impl"].split()[3]) >= 3,
                "alternatives answer with >=3 routes"),
}


def evaluate(pid, recs, known):
    P = PROPS[pid]
    by_case = {}
    for r in recs:
        by_case.setdefault(r["case"], []).append(r)
    ctx = dict(by_case=by_case)
    applicable, diffs, fails, known_hits = [], [], [], []
    nontriv = set()
    dist = Counter()
    rew = Counter()
    indom = 0
    for r in recs:
        if not P.applies(r):
            continue
        applicable.append(r)
        dist[cl.status_of(r["impl"])] += 1
        for x in cl.rewrites_of(r["impl"]):
            rew[{"1": "CSL", "2": "BTS", "3": "GTF", "4": "CSS"}.get(x, x)] += 1
        if run.vget(r["verdict"], "dom") == "1":
            indom += 1
        try:
            pi, pm = P.proj(r["impl"]), P.proj(r["model"])
        except Exception as e:
            pi, pm = ("unparsable", r["impl"]), ("unparsable-model", r["model"])
        if pi != pm:
            diffs.append(r)
        why = P.fails(r, ctx)
        if why:
            k = cl.match_known(pid, r, known)
            if k:
                known_hits.append((k, r))
            else:
                fails.append((why, r))
        if P.nontrivial(r):
            nontriv.add(r["op"] + "|" + r["case"].split("_")[-1])
    return dict(applicable=applicable, diffs=diffs, fails=fails, known_hits=known_hits, nontrivial=nontriv,
                dist=dict(dist), rewrites=dict(rew), indom=indom, rule=P.rule)
