#!/usr/bin/env python3
"""Build helpers: compile /repo's current sources (content-hashed object cache under /verif/.work/obj),
link harness binaries, build the Coq development and the extracted OCaml driver."""
import hashlib, os, subprocess, sys, glob, fcntl, time, shutil
from concurrent.futures import ThreadPoolExecutor

VERIF = os.path.dirname(os.path.dirname(os.path.abspath(__file__)))
REPO = os.environ.get("TRV_REPO", "/repo")
WORK = os.path.join(VERIF, ".work")
OBJ = os.path.join(WORK, "obj")
BIN = os.path.join(WORK, "bin")
GUARD = "TRROUTING_VERIF"

BASE_FLAGS = ["-std=c++17", "-g", "-DBOOST_BIND_GLOBAL_PLACEHOLDERS", "-DSPDLOG_SHARED_LIB", "-DSPDLOG_COMPILED_LIB",
              "-DSPDLOG_FMT_EXTERNAL", "-D" + GUARD, "-pthread"]

CSA = "connection_scan_algorithm/src/"
CORE_SRCS = [CSA + f for f in ["calculator.cpp", "resets.cpp", "initializations.cpp", "forward_calculation.cpp",
                               "reverse_calculation.cpp", "forward_journey.cpp", "reverse_journey.cpp",
                               "optimize_journey.cpp", "alternatives_routing.cpp", "result_to_v2.cpp",
                               "result_to_v2_accessibility.cpp", "result_to_v2_summary.cpp",
                               "parameters/common_parameters.cpp", "parameters/route_parameters.cpp",
                               "parameters/accessibility_parameters.cpp"]] + \
            ["src/" + f for f in ["transit_data.cpp", "connection_set.cpp", "connection_cache.cpp",
                                  "calculation_time.cpp", "geofilter.cpp"]]


def sh(cmd, **kw):
    return subprocess.run(cmd, stdout=subprocess.PIPE, stderr=subprocess.STDOUT, text=True, **kw)


def includes():
    return ["-I" + os.path.join(REPO, "include"), "-I" + os.path.join(REPO, "connection_scan_algorithm/include"),
            "-I" + os.path.join(VERIF, "harness")]


_hdr_hash = None


def headers_hash():
    global _hdr_hash
    if _hdr_hash is None:
        h = hashlib.sha256()
        files = []
        for d in [os.path.join(REPO, "include"), os.path.join(REPO, "connection_scan_algorithm/include"),
                  os.path.join(VERIF, "harness")]:
            for root, _, fs in os.walk(d):
                for f in fs:
                    if f.endswith((".hpp", ".h", ".hxx")):
                        files.append(os.path.join(root, f))
        for f in sorted(files):
            h.update(f.encode())
            with open(f, "rb") as fh:
                h.update(fh.read())
        _hdr_hash = h.hexdigest()
    return _hdr_hash


def compile_one(src, flags):
    """src: absolute path. Returns object path (cached by content)."""
    os.makedirs(OBJ, exist_ok=True)
    h = hashlib.sha256()
    with open(src, "rb") as fh:
        h.update(fh.read())
    h.update(headers_hash().encode())
    h.update(" ".join(flags).encode())
    h.update(src.encode())
    obj = os.path.join(OBJ, h.hexdigest()[:32] + ".o")
    if os.path.exists(obj):
        return obj, None
    tmp = obj + ".tmp%d" % os.getpid()
    r = sh(["g++"] + flags + includes() + ["-c", src, "-o", tmp])
    if r.returncode != 0:
        return None, "compile failed: %s\n%s" % (src, r.stdout[-4000:])
    os.replace(tmp, obj)
    return obj, None


def build_binary(name, harness_srcs, repo_srcs=CORE_SRCS, extra_flags=("-O1",), libs=("-lspdlog", "-lfmt", "-lpthread"),
                 opt_tag="", jobs=16):
    """Compile repo sources (from REPO's working tree) + harness sources and link. Returns (path, error)."""
    os.makedirs(BIN, exist_ok=True)
    flags = BASE_FLAGS + list(extra_flags)
    srcs = [os.path.join(REPO, s) for s in repo_srcs] + [os.path.join(VERIF, "harness", s) for s in harness_srcs]
    with ThreadPoolExecutor(max_workers=jobs) as ex:
        res = list(ex.map(lambda s: compile_one(s, flags), srcs))
    errs = [e for (_, e) in res if e]
    if errs:
        return None, "\n".join(errs)
    objs = [o for (o, _) in res]
    h = hashlib.sha256((" ".join(objs) + " ".join(libs) + " ".join(flags)).encode()).hexdigest()[:16]
    out = os.path.join(BIN, "%s%s-%s" % (name, opt_tag, h))
    if not os.path.exists(out):
        tmp = out + ".tmp%d" % os.getpid()
        r = sh(["g++"] + flags + objs + ["-o", tmp] + list(libs))
        if r.returncode != 0:
            return None, "link failed:\n" + r.stdout[-4000:]
        os.replace(tmp, out)
    return out, None


def build_l2(san=False, tsan=False):
    """san: AddressSanitizer + UBSan; tsan: ThreadSanitizer (every repo object and the harness instrumented; never combined
    with ASan).  The flags are part of every object's cache key and of the binary's name, so the variants never share objects."""
    extra = ["-O1", "-D_GLIBCXX_ASSERTIONS"]
    if tsan:
        extra += ["-fsanitize=thread", "-fno-omit-frame-pointer"]
        return build_binary("l2", ["l2.cpp"], extra_flags=tuple(extra), opt_tag="-tsan", jobs=8)
    if san:
        extra += ["-fsanitize=address,undefined", "-fno-sanitize-recover=undefined", "-fno-omit-frame-pointer"]
    return build_binary("l2", ["l2.cpp"], extra_flags=tuple(extra), opt_tag="-san" if san else "")


# ---- Coq / OCaml ---------------------------------------------------------------------------------
COQ = os.path.join(VERIF, "coq")


class Lock:
    def __init__(self, name):
        os.makedirs(WORK, exist_ok=True)
        self.path = os.path.join(WORK, name + ".lock")

    def __enter__(self):
        self.fh = open(self.path, "w")
        fcntl.flock(self.fh, fcntl.LOCK_EX)
        return self

    def __exit__(self, *a):
        fcntl.flock(self.fh, fcntl.LOCK_UN)
        self.fh.close()


def coq_make(targets=None, timeout=1800):
    """Full .vo build of the given targets (default: all). Returns (ok, log)."""
    with Lock("coq"):
        if not os.path.exists(os.path.join(COQ, "Makefile")) or \
                os.path.getmtime(os.path.join(COQ, "_CoqProject")) > os.path.getmtime(os.path.join(COQ, "Makefile")):
            r = sh(["coq_makefile", "-f", "_CoqProject", "-o", "Makefile"], cwd=COQ)
            if r.returncode != 0:
                return False, r.stdout
        cmd = ["timeout", str(timeout), "make", "-k", "-j16"] + (targets or [])
        r = sh(cmd, cwd=COQ)
        return r.returncode == 0, r.stdout


def build_driver():
    """Extract (through make) and compile the OCaml driver. Returns (path, error)."""
    ok, log = coq_make(["Extract/Extract.vo"])
    if not ok:
        return None, "coq build of the model failed:\n" + log[-4000:]
    with Lock("ocaml"):
        d = os.path.join(WORK, "ocaml")
        os.makedirs(d, exist_ok=True)
        h = hashlib.sha256()
        for f in [os.path.join(COQ, "Extract/model.ml"), os.path.join(COQ, "Extract/model.mli"),
                  os.path.join(VERIF, "ocaml/driver.ml")]:
            with open(f, "rb") as fh:
                h.update(fh.read())
        out = os.path.join(BIN, "driver-" + h.hexdigest()[:16])
        if os.path.exists(out):
            return out, None
        os.makedirs(BIN, exist_ok=True)
        for f in [os.path.join(COQ, "Extract/model.ml"), os.path.join(COQ, "Extract/model.mli"),
                  os.path.join(VERIF, "ocaml/driver.ml")]:
            shutil.copy(f, d)
        r = sh(["ocamlfind", "ocamlopt", "-O3", "-w", "-a", "model.mli", "model.ml", "driver.ml", "-o", out + ".tmp"], cwd=d)
        if r.returncode != 0:
            return None, "ocaml build failed:\n" + r.stdout[-4000:]
        os.replace(out + ".tmp", out)
        return out, None


if __name__ == "__main__":
    t = time.time()
    p, e = build_l2()
    print("l2:", p, e, "%.1fs" % (time.time() - t))
    t = time.time()
    p, e = build_driver()
    print("driver:", p, e, "%.1fs" % (time.time() - t))
