#!/bin/sh
# usage: tools/mkworktree.sh <dir>  — scratch git worktree of /repo (HEAD) at <dir>, with /repo's untracked build products
# copied in so that an incremental `make check` works there.  Remove with: git -C /repo worktree remove --force <dir>
set -e
D=$1
git -C /repo worktree add --detach "$D" HEAD > /dev/null 2>&1
rsync -a --exclude .git --ignore-existing /repo/ "$D"/
# in-tree autotools build records absolute paths: re-point them at the copy
grep -rlI --include=Makefile --include=config.status --include=libtool --include='*.la' --include='*.lo' '/repo' "$D" 2>/dev/null | xargs -r sed -i "s#/repo#$D#g"
echo "$D"
