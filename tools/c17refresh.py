#!/usr/bin/env python3
"""C17, refresh-fault phase: a fault hits the cache directory of a RUNNING, healthy server, then /updateCache.

One history:
    dataset A -> cache directory D (complete), server S started on D             -> answers a0 to the request set Q (9 requests over
                                                                                    3 scenarios: cached connection sets exist)
    one fault of tools/faults.py applied to D on disk (a file deleted / emptied / truncated at an offset / one bit flipped /
      a range zeroed; all per-line files deleted; or D rewritten with one cross-file inconsistency of the property's list)
    GET /updateCache?names=all on S  (faults in schedule files: first names=schedules, faults in the scenario
      file: first names=scenarios,schedules; then names=all)                                            -> answers a1 of S to Q, each time
    a FRESH server F started on the faulted D                                                           -> answers f1 to Q
Oracle:
    (i)   S is alive after every step, dies only of our SIGTERM at the end, no sanitizer report in its log;
    (ii)  every answer of a1 is a well-formed success / no_routing_found / query_error / data_error object with a documented
          data error code, and a1 == f1 (canonical text: status, errorCode / reason, for success the whole route / map / summary)
          -- except where F reports the generic DATA_ERROR: a fresh start-up stops loading at the first unreadable collection,
          /updateCache goes on with the other collections, so S legitimately "serves the data it could load" or names an empty
          collection there.  For those histories the state of S after names=all must still be a function of the files alone:
          a second healthy server S2 started on ANOTHER dataset's directory, whose files are then replaced by the faulted D's
          and refreshed with names=all, must give the very same answers (a1 == a2).  Data kept over from before the refresh
          (a collection not cleared when its file is unreadable) shows up as a difference or as a crash;
          a deleted collection file must be named: every answer is data_error MISSING_DATA_<collection>;
    (iii) every /updateCache is answered with the success object.

Loader model tie: for histories whose fault is expressible at decoded level (tools/loadmodel.py) the extracted Loader2.load_all must predict
the outcome class / error code of F, and Loader2.update (names as sent, starting from load_all of A's healthy files) the class of S
after every /updateCache.

run(binary, seed, tier, san=False, driver=None) -> dict(histories, answers, fails=[(why, replay_dict)], fault_kinds, outcome_classes, ...)
replay(binary, path, san)          -> re-runs the history of a replay file written by write_replay()."""
import hashlib, json, os, re, shutil, sys, time
from concurrent.futures import ThreadPoolExecutor

sys.path.insert(0, os.path.dirname(os.path.abspath(__file__)))
import build, gen, l3, faults, l3refresh, loadmodel  # noqa: E402

LEVEL = "C17 refresh-fault history on the real binary"
COLLS = ("agencies", "services", "nodes", "lines", "paths", "scenarios", "dataSources")
DOC_DATA_CODES = {"DATA_ERROR", "MISSING_DATA_AGENCIES", "MISSING_DATA_SERVICES", "MISSING_DATA_NODES", "MISSING_DATA_LINES", "MISSING_DATA_PATHS",
                  "MISSING_DATA_SCENARIOS", "MISSING_DATA_SCHEDULES"}
DELETE_EXPECT = {"agencies.capnpbin": "MISSING_DATA_AGENCIES", "services.capnpbin": "MISSING_DATA_SERVICES", "nodes.capnpbin": "MISSING_DATA_NODES",
                 "lines.capnpbin": "MISSING_DATA_LINES", "paths.capnpbin": "MISSING_DATA_PATHS", "scenarios.capnpbin": "MISSING_DATA_SCENARIOS",
                 "lines/*": "MISSING_DATA_SCHEDULES"}
# (fault kind, target): target = coll:<name> | coll (rotates through COLLS, offset by seed and round) | linefile | nodefile |
# anyfile | all_linefiles
PLAN = ([("delete", "coll:" + c) for c in COLLS] + [("delete", "all_linefiles"), ("delete", "nodefile"), ("delete", "linefile")] +
        [("empty", "coll"), ("empty", "coll"), ("empty", "linefile")] +
        [("truncate", "coll"), ("truncate", "coll"), ("truncate", "coll"), ("truncate", "linefile"), ("truncate", "nodefile")] +
        [("flip", "coll"), ("flip", "coll"), ("flip", "linefile")] +
        [("zero", "coll"), ("zero", "coll"), ("zero", "anyfile")] +
        [("inconsistency", None)] * 4)
N_QUICK, N_THOROUGH = len(PLAN), 400
CONTENT_KINDS = ("empty", "truncate", "flip", "zero", "truncate", "flip")
# the last message of a load that went through all collections (src/trips_and_connections_cache_fetcher.cpp); should the text
# change, every fresh load counts as aborted and the comparison falls back to the (weaker) history-independence one
LOAD_DONE = "Fetching trips and connections from cache DONE"
SAN_RE = re.compile(r"AddressSanitizer|LeakSanitizer|runtime error:|UndefinedBehaviorSanitizer")


# ---------------------------------------------------------------------------------------------------
# specification of a history: everything random comes from (seed, tier, index)
# ---------------------------------------------------------------------------------------------------
def history_spec(seed, tier, index):
    rng = gen.Rng((seed * 7919 + 17) * 100000 + index)
    prof = dict(gen.PROFILES["opt"], pempty=0.02)
    A = gen.gen_dataset(rng.fork(), prof)
    A2 = gen.gen_dataset(rng.fork(), prof)
    reqs = l3refresh.make_requests(rng.fork(), A, prof)
    frng = rng.fork()
    slot, rnd = index % len(PLAN), index // len(PLAN)
    kind, target = PLAN[slot]
    if kind == "delete" and target.startswith("coll:") and rnd >= 2:     # thorough tier, later rounds: content faults instead
        kind = frng.choice(CONTENT_KINDS)
    if target == "coll":
        k = sum(1 for (_, t) in PLAN[:slot] if t == "coll")
        target = "coll:" + COLLS[(seed + rnd + k) % len(COLLS)]
    if kind == "inconsistency":
        k = sum(1 for (kk, _) in PLAN[:slot] if kk == "inconsistency")
        target = (seed * 5 + rnd * 4 + k) * 7        # index into the list of inconsistencies (modulo its length, 22; 7 is coprime to it)
    return dict(index=index, seed=seed, tier=tier, kind=kind, target=target, cache_all=(index + rnd) % 2 == 1, A=A, A2=A2, requests=reqs,
                rand=[frng.next() for _ in range(4)])


def resolve_files(spec, cache):
    """the relative file(s) the fault goes to"""
    t, r = spec["target"], spec["rand"]
    files = faults.list_files(cache)
    lf = [f for f in files if f.startswith("lines/")]
    nf = [f for f in files if f.startswith("nodes/")]
    if t == "all_linefiles":
        return lf
    if t == "linefile":
        # prefer a per-line file that holds trips (the larger ones)
        lf = sorted(lf, key=lambda f: -os.path.getsize(os.path.join(cache, f)))[:max(1, (len(lf) + 1) // 2)]
        return [lf[r[0] % len(lf)]] if lf else []
    if t == "nodefile":
        return [nf[r[0] % len(nf)]] if nf else []
    if t == "anyfile":
        return [files[r[0] % len(files)]]
    return [t[5:] + ".capnpbin"]


def concrete_fault(spec, cache, rel):
    """(kind, rel, arg) for faults.apply_in_place; offsets / bits / ranges from the size of the file as it is on disk"""
    kind, r = spec["kind"], spec["rand"]
    size = os.path.getsize(os.path.join(cache, rel))
    if kind in ("delete", "empty") or size < 2:
        return (kind if kind in ("delete", "empty") else "empty", rel, None)
    if kind == "truncate":
        offs = [o for o in (1, 2, 7, 8, 9, 15, 16, size // 3, size // 2, size - 9, size - 8, size - 1, 1 + r[1] % (size - 1), 1 + r[2] % (size - 1),
                            1 + r[3] % (size - 1)) if 0 < o < size]
        return (kind, rel, offs[r[0] % len(offs)])
    if kind == "flip":
        return (kind, rel, r[1] % min(64, size * 8) if r[0] % 10 < 3 else r[1] % (size * 8))
    if kind == "zero":
        return (kind, rel, (r[1] % size, (1, 4, 8, 16, 64)[r[2] % 5]))
    raise ValueError(kind)


def apply_fault(spec, cache):
    """-> (label, [concrete faults]); the directory `cache` is changed in place"""
    if spec["kind"] == "inconsistency":
        inc = faults.inconsistencies(spec["A"])
        name, (c, n, l) = inc[spec["target"] % len(inc)]
        faults.write_from_texts([tuple(x) for x in c], [tuple(x) for x in n], [tuple(x) for x in l], cache)
        return "inconsistency " + name, [("inconsistency", name, None)]
    rels = resolve_files(spec, cache)
    fl = [concrete_fault(spec, cache, rel) for rel in rels]
    for f in fl:
        faults.apply_in_place(cache, f)
    if spec["target"] == "all_linefiles":
        return "delete lines/* (%d files)" % len(fl), fl
    return " ; ".join("%s %s %s" % f for f in fl) or "nothing (no such file)", fl


def update_sequence(spec, label):
    """the `names` sent, in order: faults in schedule files are first refreshed with names=schedules, faults in the scenario file with
    names=scenarios,schedules (the partial refreshes the property covers), every fault (then) with names=all"""
    if spec["target"] in ("linefile", "all_linefiles") or label.startswith("inconsistency trip_") or " lines/line_" in label:
        return ["schedules", "all"]
    if label.startswith("inconsistency scenario_") or " scenarios.capnpbin" in label:
        return ["scenarios,schedules", "all"]
    # a DELETED collection file: first the refresh of that collection alone (the collection is then empty, the data status must
    # name it and no request is routed on the references other collections still hold into it), then names=all
    if spec["kind"] == "delete" and isinstance(spec["target"], str) and spec["target"].startswith("coll:") \
            and spec["target"][5:] in ("agencies", "services", "nodes", "lines", "paths"):
        return [spec["target"][5:], "all"]
    return ["all"]


# ---------------------------------------------------------------------------------------------------
# one history
# ---------------------------------------------------------------------------------------------------
def answer_class(a):
    """'200 route dataerror MISSING_DATA_PATHS' -> 'data_error MISSING_DATA_PATHS'; serving answers -> 'serves'"""
    m = re.search(r"dataerror (\S+)", a)
    if m:
        return "data_error " + m.group(1)
    if a.startswith("noreply"):
        return "noreply"
    if "unparsable" in a:
        return "unparsable"
    return "serves"


def malformed(a):
    """why the canonical answer `a` is not one of the documented objects, or None"""
    if a.startswith("noreply"):
        return "no reply"
    if not (a.startswith("200 ") or (a.startswith("400 ") and " queryerror " in a)):      # query_error answers come with HTTP 400
        return "HTTP status %s" % a.split(" ")[0]
    if "unparsable" in a:
        return "not a well-formed success / no_routing_found / query_error / data_error object"
    m = re.search(r"dataerror (\S+)", a)
    if m and m.group(1) not in DOC_DATA_CODES:
        return "undocumented data error code %s" % m.group(1)
    return None


def replace_files(src, dst):
    """make the cache directory dst hold exactly src's files"""
    for f in faults.list_files(dst):
        os.unlink(os.path.join(dst, f))
    for f in faults.list_files(src):
        os.makedirs(os.path.dirname(os.path.join(dst, f)), exist_ok=True)
        shutil.copyfile(os.path.join(src, f), os.path.join(dst, f))


def end_of_server(srv, who, fail, san):
    """stop the server (SIGTERM) and check how it ended"""
    was_alive = srv.alive()
    srv.stop()
    st = srv.exit_status()
    if was_alive and st not in (0, -15):
        fail("%s did not end normally on SIGTERM: exit status %s" % (who, st), phase="end", log=srv.log_tail(2500))
    try:
        with open(srv.log_path, "rb") as f:
            log = f.read().decode(errors="replace")
    except OSError:
        log = ""
    m = SAN_RE.search(log)
    if m:
        fail("%s: sanitizer report in the server log: %s" % (who, log[m.start():m.start() + 300].split("\n")[0]), phase="end",
             log=log[max(0, m.start() - 300):m.start() + 2500])


def run_history(binary, spec, workdir, san=False, keep_on_failure=True):
    t0 = time.time()
    A, A2, reqs, cache_all = spec["A"], spec["A2"], spec["requests"], spec["cache_all"]
    cache, cache2 = os.path.join(workdir, "cache"), os.path.join(workdir, "cache2")
    shutil.rmtree(workdir, ignore_errors=True)
    os.makedirs(cache)
    base = dict(level=LEVEL, seed=spec["seed"], tier=spec["tier"], history=spec["index"], fault_kind=spec["kind"], target=spec["target"],
                cache_all=cache_all, dataset_A=A.text(), binary=binary, sanitizers=san)
    fails, answers, steps = [], 0, []
    res = dict(fails=fails, label="?", kind=spec["kind"], outcome="harness", independence_checked=False,
               model_obs=dict(concrete=None, fresh=None, steps=[]))       # what the loader-model comparison needs
    stub = l3.OsrmStub()
    old = fresh = second = None
    tmo = 60 if san else 30

    def fail(why, **kw):
        fails.append((why, dict(base, why=why, **kw)))

    def dead(srv, who, phase):
        if srv.alive():
            return False
        fail("%s died (%s): exit status %s: %s" % (who, phase, srv.exit_status(), srv.crash_report()), phase=phase, log=srv.log_tail(4000))
        return True

    try:
        l3.write_cache(A, cache)
        old = l3.Server(binary, cache, stub.port, threads=1, cache_all=cache_all, start_timeout=tmo)
        base["refreshed_server_log"] = old.log_path
        a0 = l3refresh.ask_all(old, stub, reqs)
        answers += len(reqs)
        for i, a in enumerate(a0):
            if malformed(a):
                fail("healthy server, before the fault: %s" % malformed(a), phase="before", request_number=i, request=reqs[i], answer=a)
        dead(old, "the healthy server", "requests before the fault")
        label, concrete = apply_fault(spec, cache)
        res["label"] = base["fault"] = label
        base["concrete_faults"] = concrete
        res["model_obs"]["concrete"] = concrete
        updates = update_sequence(spec, label)
        fresh = l3.Server(binary, cache, stub.port, threads=1, cache_all=cache_all, start_timeout=tmo)
        base["fresh_server_log"] = fresh.log_path
        f1 = l3refresh.ask_all(fresh, stub, reqs)
        answers += len(reqs)
        if not dead(fresh, "the server freshly started on the faulted directory", "start-up and requests"):
            res["model_obs"]["fresh"] = [answer_class(a) for a in f1]
        for i, a in enumerate(f1):
            if malformed(a):
                fail("fresh server on the faulted directory: %s" % malformed(a), phase="fresh", request_number=i, request=reqs[i], answer=a)
        # did the fresh start-up stop at an unreadable collection (TransitData::loadAllData returns at the first read error)?
        generic = LOAD_DONE not in fresh.log_tail(1 << 22) or any("dataerror DATA_ERROR" in a for a in f1)
        base["fresh_load_aborted"] = generic
        end_of_server(fresh, "the fresh server", fail, san)
        fresh = None
        a1 = None
        for names in updates:
            if not old.alive():
                break
            ok, reply = l3refresh.update(old, names)
            steps.append(names)
            if not ok:
                fail("/updateCache?names=%s after the fault '%s' is not answered with the success object: %s" % (names, label, reply[:200]),
                     phase="update " + names, update_reply=reply, log=old.log_tail(3000))
            if dead(old, "the refreshed server", "/updateCache?names=%s after the fault '%s'" % (names, label)):
                break
            a1 = l3refresh.ask_all(old, stub, reqs)
            answers += len(reqs)
            if old.alive():
                res["model_obs"]["steps"].append((names, [answer_class(a) for a in a1]))
            for i, r in enumerate(reqs):
                bad = malformed(a1[i])
                if bad:
                    fail("after the fault '%s' and /updateCache?names=%s: %s" % (label, names, bad), phase="after " + names, request_number=i,
                         request=r, answer_before_fault=a0[i], answer_after_refresh=a1[i], answer_of_fresh_server=f1[i], log=old.log_tail(3000))
                elif a1[i] != f1[i] and not generic:
                    fail("after the fault '%s' and /updateCache?names=%s the server answers differently from a server newly started on the same files"
                         % (label, names), phase="after " + names, request_number=i, request=r, answer_before_fault=a0[i], answer_after_refresh=a1[i],
                         answer_of_fresh_server=f1[i], stale=(a1[i] == a0[i]), log=old.log_tail(3000))
            if dead(old, "the refreshed server", "requests after the fault '%s' and /updateCache?names=%s" % (label, names)):
                break
            if (names == "all" or names + ".capnpbin" == concrete[0][1]) and len(concrete) >= 1 and concrete[0][0] == "delete":
                want = DELETE_EXPECT.get("lines/*" if spec["target"] == "all_linefiles" else concrete[0][1])
                wrong = [a for a in a1 if want and answer_class(a) != "data_error " + want]
                if wrong:
                    fail("'%s' then /updateCache?names=%s: the answer does not name the missing kind of data (%s expected): %s" % (label, names, want, wrong[0][:160]),
                         phase="after all", answers_after_refresh=a1, answers_of_fresh_server=f1)
        if generic and a1 is not None and old.alive():
            # history independence: another healthy server, other data, same faulted files, same refresh
            res["independence_checked"] = True
            os.makedirs(cache2)
            l3.write_cache(A2, cache2)
            second = l3.Server(binary, cache2, stub.port, threads=1, cache_all=cache_all, start_timeout=tmo)
            base["second_server_log"] = second.log_path
            l3refresh.ask_all(second, stub, reqs)
            replace_files(cache, cache2)
            ok, reply = l3refresh.update(second, "all")
            if not ok:
                fail("second server: /updateCache?names=all is not answered with the success object: %s" % reply[:200], phase="second", update_reply=reply)
            a2 = l3refresh.ask_all(second, stub, reqs) if second.alive() else ["noreply (server dead)"] * len(reqs)
            answers += len(reqs)
            for i, r in enumerate(reqs):
                if a1[i] != a2[i]:
                    fail("after the fault '%s' and /updateCache?names=all the answer depends on what the server held BEFORE the refresh: two servers started on "
                         "different data and refreshed onto the same files answer differently" % label, phase="independence", request_number=i, request=r,
                         answer_before_fault=a0[i], answer_after_refresh=a1[i], answer_of_second_refreshed_server=a2[i], answer_of_fresh_server=f1[i],
                         dataset_A2=A2.text(), log=old.log_tail(3000))
            dead(second, "the second refreshed server", "refresh onto the faulted files of '%s'" % label)
            end_of_server(second, "the second refreshed server", fail, san)
            second = None
        if a1 is not None:
            cls = sorted(set(answer_class(a) for a in a1))
            fcls = sorted(set(answer_class(a) for a in f1))
            res["outcome"] = ", ".join(cls) + (" (= fresh)" if not generic else " (fresh load aborted: %s)" % ", ".join(fcls))
        else:
            res["outcome"] = "refreshed server dead"
        end_of_server(old, "the refreshed server", fail, san)
        old = None
    except Exception as e:       # a server that does not start, capnp encode failing, ...
        import traceback
        fail("history could not be run: %s: %s" % (type(e).__name__, str(e)[:800]), phase="harness", traceback=traceback.format_exc()[-1500:])
    finally:
        for s in (old, fresh, second):
            if s is not None:
                s.stop()
        stub.close()
        if not (fails and keep_on_failure):
            shutil.rmtree(workdir, ignore_errors=True)
    res.update(answers=answers, updates=steps, wall=time.time() - t0)
    return res


# ---------------------------------------------------------------------------------------------------
# all histories of a tier
# ---------------------------------------------------------------------------------------------------
def loader_model_tie(driver, specs, results):
    """Loader2.load_all / Loader2.update against the fresh and the refreshed server of every history with a decoded-level fault"""
    out = dict(loader_model_comparisons=0, loader_model_startup=0, loader_model_refresh=0, loader_model_disagreements=[], loader_model_by_kind={},
               loader_model_predicted={}, loader_model_not_expressible=0, known_model_gap={})
    if driver is None:
        return out

    def count(d, k):
        out[d][k] = out[d].get(k, 0) + 1
    for s, r in zip(specs, results):
        obs = r["model_obs"]
        if not obs["concrete"]:
            continue
        dirs = loadmodel.decoded_faults(obs["concrete"])
        if dirs is None:
            out["loader_model_not_expressible"] += 1
            continue
        key = "delete all per-line files" if s["target"] == "all_linefiles" else loadmodel.kind_key(tuple(obs["concrete"][0]))
        if key in loadmodel.KNOWN_MODEL_GAPS:
            count("known_model_gap", key)
            continue
        steps = obs["steps"]
        try:
            p = loadmodel.predict(driver, s["A"], [("h", dirs, "healthy", [n for (n, _) in steps])])["h"]
        except Exception as e:
            out["loader_model_disagreements"].append("history %d: the model could not be run: %s" % (s["index"], str(e)[:300]))
            continue
        where = "history %d (seed %d, tier %s), fault '%s' (decoded-level: %s)" % (s["index"], s["seed"], s["tier"], r["label"], "; ".join(dirs))
        if obs["fresh"] is not None:
            out["loader_model_comparisons"] += 1
            out["loader_model_startup"] += 1
            count("loader_model_by_kind", key)
            count("loader_model_predicted", loadmodel.expected_class(p["load"]))
            if not loadmodel.class_matches(p["load"], obs["fresh"]):
                out["loader_model_disagreements"].append("%s: at start-up on the faulted files the model gives %s (sizes %s, read error %d), the fresh server answers %s"
                                                         % (where, loadmodel.expected_class(p["load"]), p["load"]["sizes"], p["load"]["read_error"], sorted(set(obs["fresh"]))))
        for (names, classes), u in zip(steps, p["updates"]):
            out["loader_model_comparisons"] += 1
            out["loader_model_refresh"] += 1
            count("loader_model_by_kind", key)
            count("loader_model_predicted", "after refresh: " + loadmodel.expected_class(u))
            if not loadmodel.class_matches(u, classes):
                out["loader_model_disagreements"].append("%s: after /updateCache?names=%s on the healthy server the model (Loader2.update) gives %s (sizes %s), the refreshed server answers %s"
                                                         % (where, names, loadmodel.expected_class(u), u["sizes"], sorted(set(classes))))
    return out


def run(binary, seed, tier, san=False, only=None, workers=None, driver=None):
    t0 = time.time()
    n = N_QUICK if tier == "quick" else N_THOROUGH
    root = os.path.join(build.WORK, "scratch", "c17-refresh-%d-%s" % (seed, tier))
    if only is None:
        shutil.rmtree(root, ignore_errors=True)
    os.makedirs(root, exist_ok=True)
    specs = [history_spec(seed, tier, i) for i in (range(n) if only is None else [only])]
    workers = workers or int(os.environ.get("TRV_JOBS", "12"))
    with ThreadPoolExecutor(max_workers=workers) as ex:
        results = list(ex.map(lambda s: run_history(binary, s, os.path.join(root, "h%03d" % s["index"]), san=san), specs))
    fails, kinds, outcomes, targets = [], {}, {}, {}
    for s, r in zip(specs, results):
        fails += r["fails"]
        kinds[r["kind"]] = kinds.get(r["kind"], 0) + 1
        outcomes[r["outcome"]] = outcomes.get(r["outcome"], 0) + 1
        t = r["label"].split(" ")[1] if len(r["label"].split(" ")) > 1 else "?"
        t = "lines/line_*" if t.startswith("lines/line_") else "nodes/node_*" if t.startswith("nodes/node_") else t
        targets[t] = targets.get(t, 0) + 1
    if only is None and not fails:
        shutil.rmtree(root, ignore_errors=True)
    tie = loader_model_tie(driver, specs, results)
    return dict(histories=len(specs), answers=sum(r["answers"] for r in results), fails=fails, fault_kinds=kinds, fault_targets=targets,
                outcome_classes=outcomes, updates=sum(len(r["updates"]) for r in results),
                independence_checked=sum(1 for r in results if r["independence_checked"]),
                labels=[r["label"] for r in results], wall_s=round(time.time() - t0, 1), **tie)


def write_replay(pid, why, rd):
    """replay file of one failure (JSON); `./check C17 --replay <file>` re-runs the history"""
    import checklib as cl
    os.makedirs(os.path.join(cl.REPLAYS, pid), exist_ok=True)
    body = json.dumps(rd, indent=1, sort_keys=True, default=str)
    path = os.path.join(cl.REPLAYS, pid, "%s-refresh-%s.json" % (pid, hashlib.sha256(body.encode()).hexdigest()[:12]))
    with open(path, "w") as f:
        f.write(body + "\n")
    return path


def is_replay(path):
    try:
        with open(path) as f:
            return json.load(f).get("level") == LEVEL
    except (OSError, ValueError, AttributeError):
        return False


def replay(binary, path, san=False):
    with open(path) as f:
        rd = json.load(f)
    return run(binary, int(rd["seed"]), rd["tier"], san=san, only=int(rd["history"]), driver=build.build_driver()[0])


def describe(why, rd):
    """a few lines for the check's output"""
    o = ["  %s" % why,
         "  history %s (seed %s, tier %s): fault '%s', cache mode %s, phase %s" % (rd.get("history"), rd.get("seed"), rd.get("tier"), rd.get("fault"),
                                                                                   "all" if rd.get("cache_all") else "one", rd.get("phase"))]
    if "request" in rd:
        o.append("  request                 : %s" % rd["request"]["path"])
        for k, t in (("answer_before_fault", "before the fault        "), ("answer_after_refresh", "after the refresh       "),
                     ("answer_of_second_refreshed_server", "second refreshed server "), ("answer_of_fresh_server", "fresh server            "),
                     ("answer", "answer                  ")):
            if k in rd:
                o.append("  %s: %s" % (t, rd[k][:300]))
    for k in ("update_reply", "traceback"):
        if k in rd:
            o.append("  %s: %s" % (k, str(rd[k])[:600]))
    if "log" in rd and "request" not in rd:
        o.append("  server log (tail): " + "\n    ".join(str(rd["log"])[-1200:].split("\n")))
    return "\n".join(o)


if __name__ == "__main__":
    tier = sys.argv[1] if len(sys.argv) > 1 else "quick"
    seed = int(sys.argv[2]) if len(sys.argv) > 2 else 1
    san = os.environ.get("C17_SAN") == "1"
    binary, err = l3.build_server(san=san)
    if not binary:
        print(err)
        sys.exit(2)
    res = run(binary, seed, tier, san=san, only=int(sys.argv[3]) if len(sys.argv) > 3 else None, driver=build.build_driver()[0])
    for (why, rd) in res["fails"][:10]:
        print(describe(why, rd))
    for w in res["loader_model_disagreements"][:10]:
        print("  model Loader2.load_all and the real loaders disagree: " + w)
    print({k: v for k, v in res.items() if k != "fails"}, "fails:", len(res["fails"]))
    sys.exit(1 if res["fails"] or res["loader_model_disagreements"] else 0)
