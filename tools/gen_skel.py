#!/usr/bin/env python3
"""Translator, stage 3: regenerates coq/gen/Skel.v from the CURRENT sources of the four scan functions
(forward_calculation.cpp, reverse_calculation.cpp): the CONTROL SKELETON of the connection loop and of the inner
footpath loop as a Coq data value of type `skel` (coq/Skel.v) - which statement sits inside which `if`, the order of
the guarded blocks, where `break` / `continue` sit, which variable every assignment writes.  Proofs/SkelTie.v proves
that the model's step functions (Scan.v) compute what the interpreter of coq/Skel.v computes on THESE skeletons (with
the guards of gen/Guards.v), so a statement moved into / out of a block, two blocks swapped, a dropped or misplaced
`footpathIndex++`, `break`, `continue` or bookkeeping assignment in the source breaks a proof obligation on the next run.

Method: comment-stripped function body -> statement tree (if / else / for / break / continue / simple statements;
string literals respected) -> locals renamed to their canonical names (function-level declarations by position,
block-level ones by their initialiser) -> every simple statement classified by WHAT IT WRITES into an action tag, a
binding (a reference, an iterator, or a cache of a value that depends on the connection and the request only) or
logging (dropped) -> every `if` named after the guard of tools/gen_guards.py it is (by its text when unchanged,
otherwise by its position) -> Coq term.

Policy (as gen_guards.py): a function the translator cannot read - unknown statement, unknown right-hand side,
restructured conditions it cannot name - is emitted as the committed hand-written skeleton and reported `fallback`
(no alarm by itself: the behavioural correspondence still decides).  A function it CAN read is emitted as read; if
that is not what the proofs expect, Proofs/SkelTie.v does not compile."""
import os, re, sys, json

HERE = os.path.dirname(os.path.abspath(__file__))
sys.path.insert(0, HERE)
import gen_guards as GG

VERIF = os.path.dirname(HERE)
OUT = os.path.join(VERIF, "coq", "gen", "Skel.v")


class Untranslatable(Exception):
    pass


# ------------------------------------------------------------------------------------------------
# statement parser

def skip_ws(s, i):
    while i < len(s) and s[i].isspace():
        i += 1
    return i


def skip_string(s, i):
    """s[i] is a quote; returns the index after the closing quote"""
    q = s[i]
    i += 1
    while i < len(s):
        if s[i] == "\\":
            i += 2
            continue
        if s[i] == q:
            return i + 1
        i += 1
    raise Untranslatable("unterminated literal")


def balanced(s, i, open_ch, close_ch):
    """s[i] == open_ch; returns (inner text, index after the matching close)"""
    assert s[i] == open_ch
    depth = 0
    k = i
    while k < len(s):
        ch = s[k]
        if ch in "\"'":
            k = skip_string(s, k)
            continue
        if ch == open_ch:
            depth += 1
        elif ch == close_ch:
            depth -= 1
            if depth == 0:
                return s[i + 1:k], k + 1
        k += 1
    raise Untranslatable("unbalanced " + open_ch)


def keyword_at(s, i, kw):
    return s.startswith(kw, i) and (i + len(kw) >= len(s) or not (s[i + len(kw)].isalnum() or s[i + len(kw)] == "_")) \
        and (i == 0 or not (s[i - 1].isalnum() or s[i - 1] == "_"))


def parse_stmt(s, i):
    """returns (list of nodes, next index); nodes: ('if', cond, then, else) ('for', header, body) ('break',)
    ('continue',) ('stmt', text)"""
    i = skip_ws(s, i)
    if i >= len(s):
        raise Untranslatable("statement expected")
    if s[i] == "{":
        inner, j = balanced(s, i, "{", "}")
        return parse_list(inner), j
    if s[i] == ";":
        return [], i + 1
    if keyword_at(s, i, "if"):
        j = skip_ws(s, i + 2)
        if j >= len(s) or s[j] != "(":
            raise Untranslatable("`if` without condition")
        cond, j = balanced(s, j, "(", ")")
        th, j = parse_stmt(s, j)
        k = skip_ws(s, j)
        el = []
        if keyword_at(s, k, "else"):
            el, j = parse_stmt(s, k + 4)
        return [("if", cond, th, el)], j
    if keyword_at(s, i, "for"):
        j = skip_ws(s, i + 3)
        if j >= len(s) or s[j] != "(":
            raise Untranslatable("`for` without header")
        header, j = balanced(s, j, "(", ")")
        body, j = parse_stmt(s, j)
        return [("for", header, body)], j
    if keyword_at(s, i, "while"):
        j = skip_ws(s, i + 5)
        if j >= len(s) or s[j] != "(":
            raise Untranslatable("`while` without condition")
        cond, j = balanced(s, j, "(", ")")
        body, j = parse_stmt(s, j)
        return [("while", cond, body)], j
    if keyword_at(s, i, "try"):
        body, j = parse_stmt(s, i + 3)
        handlers = []
        k = skip_ws(s, j)
        while keyword_at(s, k, "catch"):
            k2 = skip_ws(s, k + 5)
            if k2 >= len(s) or s[k2] != "(":
                raise Untranslatable("`catch` without declaration")
            decl, k2 = balanced(s, k2, "(", ")")
            hbody, j = parse_stmt(s, k2)
            handlers.append((decl, hbody))
            k = skip_ws(s, j)
        if not handlers:
            raise Untranslatable("`try` without `catch`")
        return [("try", body, handlers)], j
    if keyword_at(s, i, "throw"):
        j = s.index(";", i)
        return [("throw", s[i + 5:j])], j + 1
    for kw in ("do", "switch", "goto", "return", "case", "default", "else", "catch"):
        if keyword_at(s, i, kw):
            raise Untranslatable("unsupported statement `%s`" % kw)
    for kw in ("break", "continue"):
        if keyword_at(s, i, kw):
            j = skip_ws(s, i + len(kw))
            if j < len(s) and s[j] == ";":
                return [(kw,)], j + 1
            raise Untranslatable("malformed `%s`" % kw)
    # simple statement: up to the `;` at depth 0
    depth = 0
    k = i
    while k < len(s):
        ch = s[k]
        if ch in "\"'":
            k = skip_string(s, k)
            continue
        if ch in "([{":
            depth += 1
        elif ch in ")]}":
            depth -= 1
            if depth < 0:
                raise Untranslatable("unbalanced statement")
        elif ch == ";" and depth == 0:
            return [("stmt", s[i:k])], k + 1
        k += 1
    raise Untranslatable("statement without `;`: " + s[i:i + 40])


def parse_list(s):
    out = []
    i = skip_ws(s, 0)
    while i < len(s):
        nodes, i = parse_stmt(s, i)
        out += nodes
        i = skip_ws(s, i)
    return out


def flat(text):
    return "".join(text.split())


# ------------------------------------------------------------------------------------------------
# canonical names

def rename(text, old, new):
    if old == new:
        return text
    if re.search(r"(?<![\w.])(?<!->)" + re.escape(new) + r"(?!\w)", text):
        raise Untranslatable("cannot rename %s to %s: the name is in use" % (old, new))
    return re.sub(r"(?<![\w.])(?<!->)" + re.escape(old) + r"(?!\w)", new, text)


def declared_name(stmt_text):
    """`T name {init}` / `T name = init` / `T name`: the declared identifier, or None"""
    depth = 0
    cut = len(stmt_text)
    for k, ch in enumerate(stmt_text):
        if ch in "<(":
            depth += 1
        elif ch in ">)":
            depth -= 1
        elif ch in "{=" and depth <= 0:
            cut = k
            break
    left = stmt_text[:cut].strip()
    m = re.search(r"([A-Za-z_]\w*)$", left)
    if not m or not re.search(r"[\w>&\*]\s*[&\*]?\s*" + re.escape(m.group(1)) + r"$", left) or left == m.group(1):
        return None
    return m.group(1)


PROLOGUE = {
    "fwd": ["reachableConnectionsCount", "nodeDepartureTentativeTime", "connectionDepartureTime", "connectionArrivalTime",
            "connectionMinWaitingTimeSeconds", "footpathIndex", "footpathTravelTime", "footpathDistance",
            "tentativeEgressNodeArrivalTime", "reachedAtLeastOneEgressNode", "nodeWasAccessedFromOrigin", "bestArrivalTime",
            "connectionsCount", "departureTimeHour", "lastConnection"],
    "fwdall": ["reachableConnectionsCount", "nodeDepartureTentativeTime", "connectionDepartureTime", "connectionArrivalTime",
               "connectionMinWaitingTimeSeconds", "footpathIndex", "footpathTravelTime", "footpathDistance",
               "nodeWasAccessedFromOrigin", "connectionsCount", "departureTimeHour", "lastConnection"],
    "rev": ["reachableConnectionsCount", "tripExitConnection", "connectionDepartureTime", "connectionArrivalTime",
            "connectionMinWaitingTimeSeconds", "journeyConnectionMinWaitingTimeSeconds", "footpathIndex", "footpathTravelTime",
            "footpathDistance", "tentativeAccessNodeDepartureTime", "reachedAtLeastOneAccessNode", "bestDepartureTime",
            "reverseConnections", "connectionsCount", "arrivalTimeHour", "lastConnection"],
    "revall": ["reachableConnectionsCount", "tripExitConnection", "connectionDepartureTime", "connectionArrivalTime",
               "connectionMinWaitingTimeSeconds", "journeyConnectionMinWaitingTimeSeconds", "footpathIndex", "footpathTravelTime",
               "footpathDistance", "reverseConnections", "connectionsCount", "arrivalTimeHour", "lastConnection"],
}

CONN_LOOP = {
    "fwd": r"^auto(?P<n>\w+)=connectionSet\.get\(\)->getForwardConnectionsBeginAtDepartureHour\(.*\);(?P=n)!=lastConnection;\+\+(?P=n)$",
    "rev": r"^auto(?P<n>\w+)=connectionSet\.get\(\)->getReverseConnectionsBeginAtArrivalHour\(.*\);(?P=n)!=lastConnection;\+\+(?P=n)$",
}
FP_LOOP = {
    "fwd": r"^constNodeTimeDistance&(?P<n>\w+):nodeArrival\.transferableNodes$",
    "rev": r"^constNodeTimeDistance&(?P<n>\w+):nodeDeparture\.reverseTransferableNodes$",
}

OPT_CONN = r"(?:auto|std::optional<std::reference_wrapper<constConnection>>)"
# block-level declarations, recognised by their initialiser: (canonical name, regex with the declared name as `n`, kind)
DECLS = {
    "fwd": [
        ("trip", r"^constTrip&(?P<n>\w+)=\(\*connection\)\.get\(\)\.getTrip\(\)$", "bind"),
        ("currentTripQueryOverlay", r"^(?:auto|TripQueryData)&(?P<n>\w+)=tripsQueryOverlay\.at\(trip\.uid\)$", "bind"),
        ("tripEnterConnection", "^" + OPT_CONN + r"(?P<n>\w+)=currentTripQueryOverlay\.enterConnection$", "ASnapEnter"),
        ("nodeDeparture", r"^constNode&(?P<n>\w+)=\(\*connection\)\.get\(\)\.getDepartureNode\(\)$", "bind"),
        ("nodesAccessIte", r"^auto(?P<n>\w+)=nodesAccess\.find\(nodeDeparture\.uid\)$", "bind"),
        ("nodeArrival", r"^constNode&(?P<n>\w+)=\(\*connection\)\.get\(\)\.getArrivalNode\(\)$", "bind"),
        ("nodeArrivalInNodesEgressIte", r"^auto(?P<n>\w+)=nodesEgress\.find\(nodeArrival\.uid\)$", "bind"),
        ("currentTransferablenNodesTentativeTime", r"^(?:int|auto)(?P<n>\w+)=nodesTentativeTime\.at\(transferableNode\.node\.uid\)$", "ASnapTm"),
    ],
    "rev": [
        ("trip", r"^constTrip&(?P<n>\w+)=\(\*connection\)\.get\(\)\.getTrip\(\)$", "bind"),
        ("currentTripQueryOverlay", r"^(?:auto|TripQueryData)&(?P<n>\w+)=tripsQueryOverlay\.at\(trip\.uid\)$", "bind"),
        ("nodeArrival", r"^constNode&(?P<n>\w+)=\(\*connection\)\.get\(\)\.getArrivalNode\(\)$", "bind"),
        ("nodeArrivalTentativeTime", r"^(?:int|auto)(?P<n>\w+)=nodesReverseTentativeTime\.at\(nodeArrival\.uid\)$", "ASnapTarr"),
        ("reverseStepAtArrival", r"^constJourneyStep&(?P<n>\w+)=reverseJourneysSteps\.at\(nodeArrival\.uid\)$", "bind"),
        ("nodeDeparture", r"^constNode&(?P<n>\w+)=\(\*connection\)\.get\(\)\.getDepartureNode\(\)$", "bind"),
        ("nodeDepartureInNodesAccessIte", r"^auto(?P<n>\w+)=nodesAccess\.find\(nodeDeparture\.uid\)$", "bind"),
    ],
}


def incr(v):
    v = re.escape(v)
    return r"^(?:%s\+\+|\+\+%s|%s\+=1|%s=%s\+1)$" % (v, v, v, v, v)


CONN_DEP = r"\(\*connection\)\.get\(\)\.getDepartureTime\(\)"
CONN_ARR = r"\(\*connection\)\.get\(\)\.getArrivalTime\(\)"
CONN_MINW = r"\(\*connection\)\.get\(\)\.getMinWaitingTimeOrDefault\(parameters\.getMinWaitingTimeSeconds\(\)\)"


def fp_elem(rows, field):
    return r"%s(?:\[footpathIndex\]|\.at\(footpathIndex\))\.%s" % (re.escape(rows), field)


def fp_time_rhs(rows):
    e = fp_elem(rows, "time")
    return r"parameters\.getWalkingSpeedFactor\(\)==1\.0\?" + e + r":\(int\)ceil\(\(float\)" + e + r"/parameters\.getWalkingSpeedFactor\(\)\)"


# simple statements by what they write: (regex on the whitespace-free canonical text, kind)
# kind `bind`: a cache of a value that depends on the connection and the request only.  A right-hand side written `.+`
# is the business of stage 2 (gen_guards.py translates it into gen/Guards.v).
STMTS = {
    "fwd": [
        (r"^connectionDepartureTime=" + CONN_DEP + "$", "bind"),
        (r"^connectionArrivalTime=" + CONN_ARR + "$", "bind"),
        (r"^connectionMinWaitingTimeSeconds=" + CONN_MINW + "$", "bind"),
        (r"^nodeDepartureTentativeTime=nodesTentativeTime\.at\(nodeDeparture\.uid\)$", "ASnapTdep"),
        (r"^nodeWasAccessedFromOrigin=(?!=).+$", "ASnapAccessed"),
        (r"^currentTripQueryOverlay\.usable=true$", "AUsable"),
        (r"^currentTripQueryOverlay\.enterConnection=\*connection$", "AEnterConn"),
        (r"^currentTripQueryOverlay\.enterConnectionTransferTravelTime=forwardJourneysSteps\.at\(nodeDeparture\.uid\)\.getTransferTravelTime\(\)$", "AEnterW"),
        (r"^reachedAtLeastOneEgressNode=true$", "AReached"),
        (r"^tentativeEgressNodeArrivalTime=(?!=).+$", "ATent"),
        (r"^footpathIndex=0$", "AFpReset"),
        (incr("footpathIndex"), "AFpNext"),
        (r"^footpathTravelTime=" + fp_time_rhs("nodeArrival.transferableNodes") + "$", "ASetW"),
        (r"^footpathDistance=" + fp_elem("nodeArrival.transferableNodes", "distance") + "$", "ASetDist"),
        (r"^nodesTentativeTime\[transferableNode\.node\.uid\]=(?!=).+$", "ASetTau"),
        (r"^forwardJourneysSteps\.at\(transferableNode\.node\.uid\)=JourneyStep\(currentTripQueryOverlay\.enterConnection,\*connection,std::cref\(trip\),footpathTravelTime,\(?nodeArrival==transferableNode\.node\)?,footpathDistance\)$", "ASetStep"),
        (r"^forwardEgressJourneysSteps\.insert_or_assign\(transferableNode\.node\.uid,JourneyStep\(currentTripQueryOverlay\.enterConnection,\*connection,std::cref\(trip\),footpathTravelTime,true,footpathDistance\)\)$", "ASetEgr"),
        (incr("reachableConnectionsCount"), "ACount"),
    ],
    "rev": [
        (r"^connectionDepartureTime=" + CONN_DEP + "$", "bind"),
        (r"^connectionArrivalTime=" + CONN_ARR + "$", "bind"),
        (r"^connectionMinWaitingTimeSeconds=" + CONN_MINW + "$", "bind"),
        (r"^tripExitConnection=currentTripQueryOverlay\.exitConnection$", "ASnapExit"),
        (r"^journeyConnectionMinWaitingTimeSeconds=reverseStepAtArrival\.getFinalEnterConnection\(\)\.value\(\)\.get\(\)\.getMinWaitingTimeOrDefault\(parameters\.getMinWaitingTimeSeconds\(\)\)$", "ASnapJminw"),
        (r"^currentTripQueryOverlay\.exitConnection=\*connection$", "AExitConn"),
        (r"^currentTripQueryOverlay\.exitConnectionTransferTravelTime=reverseStepAtArrival\.getTransferTravelTime\(\)$", "AExitW"),
        (r"^reachedAtLeastOneAccessNode=true$", "AReached"),
        (r"^tentativeAccessNodeDepartureTime=(?!=).+$", "ATent"),
        (r"^footpathIndex=0$", "AFpReset"),
        (incr("footpathIndex"), "AFpNext"),
        (r"^footpathTravelTime=" + fp_time_rhs("nodeDeparture.reverseTransferableNodes") + "$", "ASetW"),
        (r"^footpathDistance=" + fp_elem("nodeDeparture.reverseTransferableNodes", "distance") + "$", "ASetDist"),
        (r"^nodesReverseTentativeTime\[transferableNode\.node\.uid\]=(?!=).+$", "ASetTau"),
        (r"^reverseJourneysSteps\.at\(transferableNode\.node\.uid\)=JourneyStep\(\*connection,currentTripQueryOverlay\.exitConnection,std::cref\(trip\),footpathTravelTime,\(?nodeDeparture==transferableNode\.node\)?,footpathDistance\)$", "ASetStep"),
        (r"^reverseAccessJourneysSteps\.insert_or_assign\(transferableNode\.node\.uid,JourneyStep\(\*connection,currentTripQueryOverlay\.exitConnection,std::cref\(trip\),0,true,0\)\)$", "ASetAcc"),
        (incr("reachableConnectionsCount"), "ACount"),
    ],
}

LOGGING = re.compile(r"^(?:spdlog::|SPDLOG_)")

GUARD_CTOR = {
    "first": "GFirst", "enabled": "GEnabled", "break": "GBreak", "reach": "GReach", "board": "GBoard", "unboard": "GUnboard",
    "egr_reached": "GEgrReached", "acc_reached": "GAccReached", "exit_first": "GExitFirst", "exit_replace": "GExitReplace",
    "exit_replace_time": "GExitReplaceTime", "fp_skip": "GFpSkip", "fp_maxtr": "GFpMaxtr", "fp_improve": "GFpImprove",
    "fp_label": "GFpLabel", "acc_after_dep": "GAccAfterDep", "acc_cap": "GAccCap",
}

# the conditions of the loop bodies as they are written in the tree the proofs were made for (whitespace-free, canonical
# names): an `if` with one of these texts IS that guard wherever it stands
FWD_COND = {
    "first": "(*connection).get().getDepartureTime()>=departureTimeSeconds+minAccessTravelTime",
    "enabled": "!isTripDisabled(trip.uid)",
    "break": "(reachedAtLeastOneEgressNode&&maxEgressTravelTime>=0&&tentativeEgressNodeArrivalTime<MAX_INT&&connectionDepartureTime>tentativeEgressNodeArrivalTime+maxEgressTravelTime)||(connectionDepartureTime-departureTimeSeconds>parameters.getMaxTotalTravelTimeSeconds())",
    "reach": "(tripEnterConnection.has_value()||nodeDepartureTentativeTime<=connectionDepartureTime-connectionMinWaitingTimeSeconds)&&(!nodeWasAccessedFromOrigin||connectionDepartureTime-nodeDepartureTentativeTime<=parameters.getMaxFirstWaitingTimeSeconds())",
    "board": "(*connection).get().canBoard()&&(!tripEnterConnection.has_value())",
    "unboard": "(*connection).get().canUnboard()&&currentTripQueryOverlay.enterConnection.has_value()",
    "egr_reached": "!reachedAtLeastOneEgressNode&&nodeArrivalInNodesEgressIte!=nodesEgress.end()&&nodeArrivalInNodesEgressIte->second.time!=-1",
    "fp_skip": "nodeArrival!=transferableNode.node&&currentTransferablenNodesTentativeTime<connectionArrivalTime",
    "fp_maxtr": "footpathTravelTime<=parameters.getMaxTransferWalkingTravelTimeSeconds()",
    "fp_improve": "footpathTravelTime+connectionArrivalTime<currentTransferablenNodesTentativeTime",
    "fp_label": "nodeArrival==transferableNode.node&&(forwardEgressJourneysSteps.count(transferableNode.node.uid)==0||forwardEgressJourneysSteps.at(transferableNode.node.uid).getFinalExitConnection().value().get().getArrivalTime()>connectionArrivalTime)",
}
FWDALL_COND = dict({k: v for k, v in FWD_COND.items() if k != "egr_reached"},
                   **{"break": "connectionDepartureTime-departureTimeSeconds>parameters.getMaxTotalTravelTimeSeconds()"})
REV_COND = {
    "first": "(*connection).get().getArrivalTime()<=arrivalTimeSeconds-minEgressTravelTime",
    "enabled": "currentTripQueryOverlay.usable&&!isTripDisabled(trip.uid)",
    "break": "(reachedAtLeastOneAccessNode&&maxAccessTravelTime>=0&&connectionArrivalTime<tentativeAccessNodeDepartureTime-maxAccessTravelTime)||(arrivalTimeSeconds-connectionArrivalTime>parameters.getMaxTotalTravelTimeSeconds())",
    "reach": "tripExitConnection.has_value()||nodeArrivalTentativeTime>=connectionArrivalTime",
    "unboard": "(*connection).get().canUnboard()",
    "exit_first": "!tripExitConnection.has_value()",
    "exit_replace": "reverseStepAtArrival.getFinalEnterConnection().has_value()&&reverseStepAtArrival.getTransferTravelTime()>=0&&reverseStepAtArrival.getTransferTravelTime()<currentTripQueryOverlay.exitConnectionTransferTravelTime",
    "exit_replace_time": "connectionArrivalTime+journeyConnectionMinWaitingTimeSeconds<=nodeArrivalTentativeTime",
    "board": "(*connection).get().canBoard()&&currentTripQueryOverlay.exitConnection.has_value()",
    "acc_reached": "!reachedAtLeastOneAccessNode&&nodeDepartureInNodesAccessIte!=nodesAccess.end()&&nodeDepartureInNodesAccessIte->second.time!=-1",
    "fp_skip": "nodeDeparture!=transferableNode.node&&nodesReverseTentativeTime.at(transferableNode.node.uid)>connectionDepartureTime-connectionMinWaitingTimeSeconds",
    "fp_maxtr": "footpathTravelTime<=parameters.getMaxTransferWalkingTravelTimeSeconds()",
    "fp_improve": "connectionDepartureTime-footpathTravelTime-connectionMinWaitingTimeSeconds>nodesReverseTentativeTime.at(transferableNode.node.uid)",
    "fp_label": "nodeDeparture==transferableNode.node&&(reverseAccessJourneysSteps.count(transferableNode.node.uid)==0||reverseAccessJourneysSteps.at(transferableNode.node.uid).getFinalEnterConnection().value().get().getDepartureTime()-reverseAccessJourneysSteps.at(transferableNode.node.uid).getFinalEnterConnection().value().get().getMinWaitingTimeOrDefault(parameters.getMinWaitingTimeSeconds())<=connectionDepartureTime-connectionMinWaitingTimeSeconds)",
    "acc_after_dep": "departureTimeSeconds==-1||(nodeDepartureInNodesAccessIte!=nodesAccess.end()&&connectionDepartureTime-nodeDepartureInNodesAccessIte->second.time-connectionMinWaitingTimeSeconds>=departureTimeSeconds)",
    "acc_cap": "departureTimeSeconds==-1||parameters.getMaxFirstWaitingTimeSeconds()<=0||connectionDepartureTime-departureTimeSeconds-nodeDepartureInNodesAccessIte->second.time<=parameters.getMaxFirstWaitingTimeSeconds()",
}
REVALL_COND = dict({k: v for k, v in REV_COND.items() if k != "acc_reached"},
                   **{"first": "(*connection).get().getArrivalTime()<=arrivalTimeSeconds",
                      "enabled": "(currentTripQueryOverlay.usable)&&!isTripDisabled(trip.uid)",
                      "break": "arrivalTimeSeconds-connectionArrivalTime>parameters.getMaxTotalTravelTimeSeconds()"})

FUNCS = [
    dict(prefix="fwd", dir="fwd", file="connection_scan_algorithm/src/forward_calculation.cpp", spec=GG.FWD_ROUTE, cond=FWD_COND),
    dict(prefix="fwdall", dir="fwd", file="connection_scan_algorithm/src/forward_calculation.cpp", spec=GG.FWD_ALL, cond=FWDALL_COND),
    dict(prefix="rev", dir="rev", file="connection_scan_algorithm/src/reverse_calculation.cpp", spec=GG.REV_ROUTE, cond=REV_COND),
    dict(prefix="revall", dir="rev", file="connection_scan_algorithm/src/reverse_calculation.cpp", spec=GG.REV_ALL, cond=REVALL_COND),
]


def loop_guard_names(spec, cond):
    """the guards of the connection loop in source order, as gen_guards.py indexes them"""
    names = sorted((n for n in spec["idx"] if n in cond), key=lambda n: spec["idx"][n])
    if [spec["idx"][n] for n in names] != list(range(len(names))):
        raise Untranslatable("guard table of gen_guards.py is not a prefix of the condition list")
    return names


# ------------------------------------------------------------------------------------------------
# one function

def parse_to_conn_loop(body, direction):
    """the statements of the function body up to and including the connection loop (what follows the loop - the
    selection of the best egress / access, `throw`, `return` - is not this stage's business)"""
    s = body[1:-1]
    out = []
    i = skip_ws(s, 0)
    while i < len(s):
        nodes, i = parse_stmt(s, i)
        for n in nodes:
            out.append(n)
            if n[0] == "for":
                m = re.match(CONN_LOOP[direction], flat(n[1]), flags=re.S)
                if m:
                    return out, len(out) - 1, n, m.group("n")
        i = skip_ws(s, i)
    raise Untranslatable("connection loop not found")


def walk(nodes):
    for n in nodes:
        yield n
        if n[0] == "if":
            yield from walk(n[2])
            yield from walk(n[3])
        elif n[0] in ("for", "while"):
            yield from walk(n[2])
        elif n[0] == "try":
            yield from walk(n[1])
            for _, h in n[2]:
                yield from walk(h)


def canonicalise(body, prefix, direction, notes):
    """renames locals to their canonical names; returns the new function body text"""
    for _ in range(40):
        nodes, idx, loop, var = parse_to_conn_loop(body, direction)
        if var != "connection":
            body = rename(body, var, "connection")
            notes.append("%s -> connection" % var)
            continue
        # function-level declarations before the loop, by position
        names = [declared_name(n[1]) for n in nodes[:idx] if n[0] == "stmt"]
        if None not in names and len(names) == len(PROLOGUE[prefix]) and len(names) == idx:
            todo = [(a, b) for a, b in zip(names, PROLOGUE[prefix]) if a != b]
            if todo:
                a, b = todo[0]
                body = rename(body, a, b)
                notes.append("%s -> %s" % (a, b))
                continue
        # block-level declarations, by their initialiser; the range-for variable
        changed = False
        for n in walk(loop[2]):
            if n[0] == "stmt":
                t = flat(n[1])
                for canon, rx, _ in DECLS[direction]:
                    m = re.match(rx, t)
                    if m and m.group("n") != canon:
                        body = rename(body, m.group("n"), canon)
                        notes.append("%s -> %s" % (m.group("n"), canon))
                        changed = True
                        break
            elif n[0] == "for":
                m = re.match(FP_LOOP[direction], flat(n[1]))
                if m and m.group("n") != "transferableNode":
                    body = rename(body, m.group("n"), "transferableNode")
                    notes.append("%s -> transferableNode" % m.group("n"))
                    changed = True
            if changed:
                break
        if not changed:
            return body
    raise Untranslatable("renaming does not settle")


def classify(text, direction):
    """kind of a simple statement: an action tag, `bind`, `log`"""
    t = flat(text)
    if LOGGING.match(t):
        return "log"
    for _, rx, kind in DECLS[direction]:
        if re.match(rx, t):
            return kind
    for rx, kind in STMTS[direction]:
        if re.match(rx, t):
            return kind
    raise Untranslatable("unrecognised statement: " + t[:90])


def simplify(nodes, direction, in_fp):
    """drops logging and bindings, tags the statements, removes `if`s whose branches are empty"""
    out = []
    for n in nodes:
        if n[0] == "stmt":
            kind = classify(n[1], direction)
            if kind not in ("log", "bind"):
                out.append(("act", kind))
        elif n[0] == "if":
            th, el = simplify(n[2], direction, in_fp), simplify(n[3], direction, in_fp)
            if th or el:
                out.append(("if", flat(n[1]), th, el))
        elif n[0] == "for":
            if in_fp:
                raise Untranslatable("a loop inside the footpath loop")
            if not re.match(FP_LOOP[direction], flat(n[1])):
                raise Untranslatable("unrecognised loop: for(%s)" % flat(n[1])[:80])
            out.append(("for", simplify(n[2], direction, True)))
        else:
            out.append(n)
    return out


def name_guards(tree, names, cond, prefix):
    """guard of every `if`, in source order: by its text when it is one of the known conditions, else by position"""
    ifs = [n for n in walk_simple(tree) if n[0] == "if"]
    by_text = {v: k for k, v in cond.items()}
    found = [by_text.get(n[1]) for n in ifs]
    if None in found:
        if len(ifs) != len(names):
            raise Untranslatable("%d conditions in the loop, %d expected, and %d of them not recognised (loop restructured)"
                                 % (len(ifs), len(names), found.count(None)))
        found = [f if f is not None else names[i] for i, f in enumerate(found)]
    return {id(n): f for n, f in zip(ifs, found)}


def walk_simple(nodes):
    for n in nodes:
        yield n
        if n[0] == "if":
            yield from walk_simple(n[2])
            yield from walk_simple(n[3])
        elif n[0] == "for":
            yield from walk_simple(n[1])


def emit(nodes, guards, fp_name, indent):
    """Coq term of a statement list"""
    pad = "  " * indent
    if not nodes:
        return "SDone"
    n, rest = nodes[0], nodes[1:]
    if n[0] == "act":
        return "SAct %s\n%s(%s)" % (n[1], pad, emit(rest, guards, fp_name, indent))
    if n[0] == "if":
        return "SIf %s\n%s  (%s)\n%s  (%s)\n%s(%s)" % (
            GUARD_CTOR[guards[id(n)]], pad, emit(n[2], guards, fp_name, indent + 1), pad,
            emit(n[3], guards, fp_name, indent + 1), pad, emit(rest, guards, fp_name, indent))
    if n[0] == "for":
        return "SLoopFp %s\n%s(%s)" % (fp_name, pad, emit(rest, guards, fp_name, indent))
    if n[0] in ("break", "continue"):
        if rest:
            raise Untranslatable("statements after `%s` in the same block" % n[0])
        return "SBreak" if n[0] == "break" else "SContinue"
    raise Untranslatable("unexpected node %r" % (n[0],))


def translate_function(f, src, notes):
    body = GG.fn_body(src, f["spec"]["sig"])
    body = canonicalise(body, f["prefix"], f["dir"], notes)
    _, _, loop, _ = parse_to_conn_loop(body, f["dir"])
    tree = simplify(loop[2], f["dir"], False)
    fps = [n for n in walk_simple(tree) if n[0] == "for"]
    if len(fps) != 1:
        raise Untranslatable("%d footpath loops in the connection loop, 1 expected" % len(fps))
    names = loop_guard_names(f["spec"], f["cond"])
    guards = name_guards(tree, names, f["cond"], f["prefix"])
    fp_name = "gen_%s_fp" % f["prefix"]
    fp_term = emit(fps[0][1], guards, fp_name, 1)
    main_term = emit(tree, guards, fp_name, 1)
    return fp_term, main_term


# the committed skeletons (what the translator reads in the tree the proofs were made for; `--print-hand` prints them):
# emitted, marked `fallback`, for a function that cannot be read
HAND = {
    'fwd': dict(
        fp="""SAct ASnapTm
  (SIf GFpSkip
    (SAct AFpNext
    (SContinue))
    (SDone)
  (SAct ASetW
  (SIf GFpMaxtr
    (SIf GFpImprove
      (SAct ASetDist
      (SAct ASetTau
      (SAct ASetStep
      (SDone))))
      (SDone)
    (SIf GFpLabel
      (SAct ASetDist
      (SAct ASetEgr
      (SDone)))
      (SDone)
    (SDone)))
    (SDone)
  (SAct AFpNext
  (SDone)))))""",
        main="""SIf GFirst
    (SIf GEnabled
      (SIf GBreak
        (SBreak)
        (SDone)
      (SAct ASnapEnter
      (SAct ASnapTdep
      (SAct ASnapAccessed
      (SIf GReach
        (SIf GBoard
          (SAct AUsable
          (SAct AEnterConn
          (SAct AEnterW
          (SDone))))
          (SDone)
        (SIf GUnboard
          (SIf GEgrReached
            (SAct AReached
            (SAct ATent
            (SDone)))
            (SDone)
          (SAct AFpReset
          (SLoopFp gen_fwd_fp
          (SDone))))
          (SDone)
        (SAct ACount
        (SDone))))
        (SDone)
      (SDone))))))
      (SDone)
    (SDone))
    (SDone)
  (SDone)"""),
    'fwdall': dict(
        fp="""SAct ASnapTm
  (SIf GFpSkip
    (SAct AFpNext
    (SContinue))
    (SDone)
  (SAct ASetW
  (SIf GFpMaxtr
    (SIf GFpImprove
      (SAct ASetDist
      (SAct ASetTau
      (SAct ASetStep
      (SDone))))
      (SDone)
    (SIf GFpLabel
      (SAct ASetDist
      (SAct ASetEgr
      (SDone)))
      (SDone)
    (SDone)))
    (SDone)
  (SAct AFpNext
  (SDone)))))""",
        main="""SIf GFirst
    (SIf GEnabled
      (SIf GBreak
        (SBreak)
        (SDone)
      (SAct ASnapEnter
      (SAct ASnapTdep
      (SAct ASnapAccessed
      (SIf GReach
        (SIf GBoard
          (SAct AUsable
          (SAct AEnterConn
          (SAct AEnterW
          (SDone))))
          (SDone)
        (SIf GUnboard
          (SAct AFpReset
          (SLoopFp gen_fwdall_fp
          (SDone)))
          (SDone)
        (SAct ACount
        (SDone))))
        (SDone)
      (SDone))))))
      (SDone)
    (SDone))
    (SDone)
  (SDone)"""),
    'rev': dict(
        fp="""SIf GFpSkip
    (SAct AFpNext
    (SContinue))
    (SDone)
  (SAct ASetW
  (SIf GFpMaxtr
    (SIf GFpImprove
      (SAct ASetDist
      (SAct ASetTau
      (SAct ASetStep
      (SDone))))
      (SDone)
    (SIf GFpLabel
      (SIf GAccAfterDep
        (SIf GAccCap
          (SAct ASetAcc
          (SDone))
          (SDone)
        (SDone))
        (SDone)
      (SDone))
      (SDone)
    (SDone)))
    (SDone)
  (SAct AFpNext
  (SDone))))""",
        main="""SIf GFirst
    (SIf GEnabled
      (SIf GBreak
        (SBreak)
        (SDone)
      (SAct ASnapExit
      (SAct ASnapTarr
      (SIf GReach
        (SIf GUnboard
          (SIf GExitFirst
            (SAct AExitConn
            (SAct AExitW
            (SDone)))
            (SIf GExitReplace
              (SAct ASnapJminw
              (SIf GExitReplaceTime
                (SAct AExitConn
                (SAct AExitW
                (SDone)))
                (SDone)
              (SDone)))
              (SDone)
            (SDone))
          (SDone))
          (SDone)
        (SIf GBoard
          (SIf GAccReached
            (SAct AReached
            (SAct ATent
            (SDone)))
            (SDone)
          (SAct AFpReset
          (SLoopFp gen_rev_fp
          (SDone))))
          (SDone)
        (SAct ACount
        (SDone))))
        (SDone)
      (SDone)))))
      (SDone)
    (SDone))
    (SDone)
  (SDone)"""),
    'revall': dict(
        fp="""SIf GFpSkip
    (SAct AFpNext
    (SContinue))
    (SDone)
  (SAct ASetW
  (SIf GFpMaxtr
    (SIf GFpImprove
      (SAct ASetDist
      (SAct ASetTau
      (SAct ASetStep
      (SDone))))
      (SDone)
    (SIf GFpLabel
      (SIf GAccAfterDep
        (SIf GAccCap
          (SAct ASetAcc
          (SDone))
          (SDone)
        (SDone))
        (SDone)
      (SDone))
      (SDone)
    (SDone)))
    (SDone)
  (SAct AFpNext
  (SDone))))""",
        main="""SIf GFirst
    (SIf GEnabled
      (SIf GBreak
        (SBreak)
        (SDone)
      (SAct ASnapExit
      (SAct ASnapTarr
      (SIf GReach
        (SIf GUnboard
          (SIf GExitFirst
            (SAct AExitConn
            (SAct AExitW
            (SDone)))
            (SIf GExitReplace
              (SAct ASnapJminw
              (SIf GExitReplaceTime
                (SAct AExitConn
                (SAct AExitW
                (SDone)))
                (SDone)
              (SDone)))
              (SDone)
            (SDone))
          (SDone))
          (SDone)
        (SIf GBoard
          (SAct AFpReset
          (SLoopFp gen_revall_fp
          (SDone)))
          (SDone)
        (SAct ACount
        (SDone))))
        (SDone)
      (SDone)))))
      (SDone)
    (SDone))
    (SDone)
  (SDone)"""),
}


def regenerate():
    repo = os.environ.get("TRV_REPO", "/repo")
    report = dict(functions={}, fallback=[], renamed=[])
    out = ["From TrV Require Import Scan.", "Require Import TrV.Skel.", ""]
    for f in FUNCS:
        origin = "source"
        notes = []
        try:
            src = GG.strip_c_comments(open(os.path.join(repo, f["file"])).read())
            fp_term, main_term = translate_function(f, src, notes)
        except (Untranslatable, ValueError, OSError) as e:
            if f["prefix"] not in HAND:
                raise RuntimeError("%s: %s, and no committed skeleton to fall back to" % (f["prefix"], e))
            origin = "fallback"
            report["fallback"].append("%s: %s" % (f["prefix"], e))
            fp_term, main_term = HAND[f["prefix"]]["fp"], HAND[f["prefix"]]["main"]
        report["functions"][f["prefix"]] = origin
        if notes:
            report["renamed"].append("%s: %s" % (f["prefix"], ", ".join(notes)))
        out.append("(* %s: %s *)" % (f["spec"]["sig"].rstrip("("), origin))
        out.append("Definition gen_%s_fp : skel :=\n  %s." % (f["prefix"], fp_term))
        out.append("Definition gen_%s_skel : skel :=\n  %s." % (f["prefix"], main_term))
        out.append("")
    header = "(* GENERATED by tools/gen_skel.py from /repo's forward_calculation.cpp / reverse_calculation.cpp - do not edit.\n   %s *)" % (
        ", ".join("%s: %s" % (k, v) for k, v in report["functions"].items()))
    text = header + "\n" + "\n".join(out)
    os.makedirs(os.path.dirname(OUT), exist_ok=True)
    old = open(OUT).read() if os.path.exists(OUT) else None
    if old != text:
        with open(OUT, "w") as fh:
            fh.write(text)
    report["changed"] = old != text
    report["from_source"] = sum(1 for v in report["functions"].values() if v == "source")
    report["total"] = len(report["functions"])
    return report


if __name__ == "__main__":
    if len(sys.argv) > 1 and sys.argv[1] == "--print-hand":
        # maintenance: what the translator reads now, in the form of the HAND table above
        repo = os.environ.get("TRV_REPO", "/repo")
        for f in FUNCS:
            src = GG.strip_c_comments(open(os.path.join(repo, f["file"])).read())
            fp_term, main_term = translate_function(f, src, [])
            print("    %r: dict(\n        fp=\"\"\"%s\"\"\",\n        main=\"\"\"%s\"\"\")," % (f["prefix"], fp_term, main_term))
    else:
        print(json.dumps(regenerate(), indent=1))
