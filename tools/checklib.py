#!/usr/bin/env python3
"""Per-property check driver.  `./check Cxx --tier quick|thorough [--replay path]`

 1. proof obligations: full .vo build of coq/Properties/Properties_Cxx.v (+ dependencies, + generated
    fragments), Print Assumptions digest, forbidden-token scan;
 2. correspondence: implementation harness vs extracted model on generated cases (projection of the
    observables of this property);
 3. failing-input search: extracted decision procedures of the property run on the implementation's
    outputs (always on).
Exit 0 iff every obligation is discharged, no disagreement, no violation (known findings excepted)."""
import os, sys, json, time, hashlib, re, shutil, subprocess

HERE = os.path.dirname(os.path.abspath(__file__))
sys.path.insert(0, HERE)
import build, gen, run

VERIF = build.VERIF
WORK = build.WORK
EVID = os.path.join(VERIF, "evidence")
REPLAYS = os.path.join(WORK, "replays")
KNOWN = os.path.join(VERIF, "known_findings.json")

FORBIDDEN = re.compile(r"\b(Admitted|admit|Axiom|Parameter|Conjecture|Unset Guard Checking|bypass_check|Admit Obligations)\b")


# ------------------------------------------------------------------------------------------------
# proof obligations

def coq_sources():
    """the .v files of the development = those listed in coq/_CoqProject (work in progress that is not yet part of
    the build is not part of the development either)"""
    out = []
    with open(os.path.join(build.COQ, "_CoqProject")) as f:
        for line in f:
            line = line.strip()
            if line.endswith(".v"):
                out.append(os.path.join(build.COQ, line))
    return sorted(out)


def strip_comments(text):
    out = []
    depth = 0
    i = 0
    while i < len(text):
        if text.startswith("(*", i):
            depth += 1
            i += 2
        elif text.startswith("*)", i) and depth > 0:
            depth -= 1
            i += 2
        else:
            if depth == 0:
                out.append(text[i])
            i += 1
    return "".join(out)


def forbidden_scan():
    hits = []
    for f in coq_sources():
        txt = strip_comments(open(f).read())
        for m in FORBIDDEN.finditer(txt):
            hits.append("%s: %s" % (os.path.relpath(f, VERIF), m.group(0)))
    return hits


ALLOWED_AXIOMS = set()   # no axioms are used; extend here (and in TRUSTED_BASE.md) if a library brings one in


def proof_obligations(prop):
    """Build Properties_<prop>.vo; returns dict(obligations, discharged, theorems, assumptions, log, ok)"""
    t0 = time.time()
    gen_err = None
    try:
        import gen_fragments, gen_guards, gen_skel, gen_emit, gen_loops, gen_optimize, gen_loader_guards, gen_param_guards, gen_handler_guards, gen_geo, gen_render, gen_scenario, gen_coll_loaders, gen_osrm
        gen_info = gen_fragments.regenerate()
        gen_info["guards"] = gen_guards.regenerate()     # scan guards translated from the current sources
        gen_info["skeleton"] = gen_skel.regenerate()     # control skeleton of the scan loops, from the current sources
        gen_info["emit"] = gen_emit.regenerate()         # step-emission loop of reverse_journey.cpp, from the current source
        gen_info["loops"] = gen_loops.regenerate()       # journey rebuild and alternativesRouting, from the current sources
        gen_info["optimize"] = gen_optimize.regenerate() # optimizeJourney: detection, rewrite blocks, pass, loop, from the current source
        gen_info["loader_guards"] = gen_loader_guards.regenerate()   # skip rules of the cache loaders, from the current sources
        gen_info["handler_guards"] = gen_handler_guards.regenerate() # /updateCache, status -> answer tables, loadAllData / updateX, /v2 skeleton
        gen_info["param_guards"] = gen_param_guards.regenerate()     # parameter factories (keys, normalisations, defaults, test order), from the current sources
        gen_info["render"] = gen_render.regenerate()                 # the three JSON renderers: (key, member) pairs per object, reason switches, from the current sources
        gen_info["geo"] = gen_geo.regenerate()           # geographic filters: typed arithmetic of the walking radius, Euclidean rows, router pre-filter and row loop
        gen_info["osrm_reply"] = gen_osrm.regenerate()   # walking-router client: the function body after the pre-filter as a statement tree (try / catch / returns / parse / null tests / loop)
        gen_info["scenario"] = gen_scenario.regenerate() # scenario trip filter (both copies), connection-set construction, cache protocol + the six cache methods, summary accumulator, hour-table loops
        gen_info["coll_loaders"] = gen_coll_loaders.regenerate()   # the seven collection loaders: frame (clear / open / handlers / return codes) and loop body (getter -> member, look-ups, fresh vectors, insertion), from the current sources
    except Exception as e:   # translator failure is reported, never silently ignored
        gen_info = dict(error=str(e))
        gen_err = str(e)
    # a translator that cannot read a piece of the CURRENT source emits its committed table for it (policy `fallback`, no alarm by
    # itself: the differential tie still covers that piece) -- said on stdout, not only in the evidence file
    if isinstance(gen_info, dict):
        for m in (gen_info.get("missing") or []) if isinstance(gen_info.get("missing"), list) else []:
            print("NOTE translator fallback (constants): %s not found in the source -- the committed value is used" % str(m)[:200])
        for gname, gi in sorted(gen_info.items()):
            fb = gi.get("fallback") if isinstance(gi, dict) else None
            miss = gi.get("missing") if isinstance(gi, dict) else None
            for item in (fb or []) + (["constant not found: %s" % m for m in (miss or [])]):
                print("NOTE translator fallback (%s): %s -- this piece of the source is not read; its proofs run on the committed table, the correspondence check still covers it"
                      % (gname, str(item)[:300]))
    vfile = os.path.join(build.COQ, "Properties", "Properties_%s.v" % prop)
    res = dict(obligations=0, discharged=0, theorems=[], assumptions={}, ok=False, log="", gen=gen_info,
               checker_cmd="coq_makefile -f _CoqProject -o Makefile && make -k -j16 Properties/Properties_%s.vo (coqc 8.16.1, full .vo)" % prop)
    if not os.path.exists(vfile):
        res["log"] = "no property file " + vfile
        return res
    src = strip_comments(open(vfile).read())
    thms = re.findall(r"\b(?:Theorem|Lemma|Corollary)\s+([A-Za-z0-9_']+)", src)
    res["theorems"] = thms
    res["obligations"] = len(thms)
    vo = "Properties/Properties_%s.vo" % prop
    # force re-check of the property file itself so that Print Assumptions output is captured
    try:
        os.remove(os.path.join(build.COQ, vo))
    except FileNotFoundError:
        pass
    ok, log = build.coq_make([vo])
    res["log"] = log[-6000:]
    hits = forbidden_scan()
    res["forbidden"] = hits
    if not ok:
        res["ok"] = False
        return res
    # parse Print Assumptions output: blocks after the theorem names, in file order
    blocks = re.split(r"(?=Closed under the global context|Axioms:)", log)
    closed = log.count("Closed under the global context")
    axioms = re.findall(r"Axioms:\s*\n((?:.+\n)+?)(?=\S|\Z)", log)
    prints = re.findall(r"Print Assumptions\s+([A-Za-z0-9_']+)", src)
    res["assumptions"] = dict(closed=closed, axiom_blocks=axioms, printed=prints)
    bad_ax = [a for a in axioms]
    res["discharged"] = len(thms) if (not bad_ax and closed >= len(prints) and len(prints) >= len(thms) and not hits) else 0
    res["ok"] = res["discharged"] == res["obligations"] and res["obligations"] > 0 and gen_err is None
    # thorough tier: independent re-check of the compiled property module and everything it depends on (coqchk), with the
    # axioms it relies on printed (-o): must be none
    if res["ok"] and os.environ.get("VERIF_TIER", "") == "thorough" or (res["ok"] and "--tier thorough" in " ".join(sys.argv)) or (res["ok"] and "thorough" in sys.argv):
        try:
            r = subprocess.run(["timeout", "1500", "coqchk", "-o", "-silent", "-Q", ".", "TrV", "TrV.Properties.Properties_%s" % prop],
                               cwd=build.COQ, stdout=subprocess.PIPE, stderr=subprocess.STDOUT, text=True)
            out = r.stdout[-3000:]
            axioms_none = re.search(r"\* Axioms:\s*<none>", out) is not None
            res["coqchk"] = dict(exit=r.returncode, axioms_none=axioms_none, summary=out[out.find("CONTEXT SUMMARY"):][:800])
            res["assumptions"]["coqchk"] = res["coqchk"]
            if r.returncode != 0 or not axioms_none:
                res["ok"] = False
                res["discharged"] = 0
                res["log"] += "\ncoqchk: " + out
        except Exception as e:
            res["coqchk"] = dict(error=str(e))
    res["wall_s"] = time.time() - t0
    return res


# ------------------------------------------------------------------------------------------------
# batches (memoised per binary pair / seed / tier so that properties sharing a run do not repeat it)

TIER_SIZES = {"quick": dict(count=480, nq=18), "thorough": dict(count=9000, nq=22)}


def memo_path(key):
    os.makedirs(os.path.join(WORK, "memo"), exist_ok=True)
    return os.path.join(WORK, "memo", key + ".json")


def routes_batch(seed, tier, l2, driver, extra_profiles=None, tag="routes", sizes=None):
    sizes = sizes or TIER_SIZES[tier]
    profiles = extra_profiles or ("opt", "loops", "wide", "tiny", "grid", "grid300", "rewrites", "mixedwait", "asymfp", "shared", "pairfam", "pairfam")
    gen_src = hashlib.sha256(open(os.path.join(HERE, "gen.py"), "rb").read()).hexdigest()[:12]     # generator changes re-run the batch
    cdir = os.path.join(VERIF, "corpus", "l2")
    if os.path.isdir(cdir):                                                                          # ... and so do corpus changes
        gen_src += hashlib.sha256(b"".join(open(os.path.join(cdir, f), "rb").read() for f in sorted(os.listdir(cdir)))).hexdigest()[:8]
    key = hashlib.sha256(("%s|%s|%s|%d|%s|%s|%s|%s" % (tag, l2, driver, seed, tier, json.dumps(sizes, sort_keys=True), profiles, gen_src)).encode()).hexdigest()[:24]
    mp = memo_path(key)
    with build.Lock("memo-" + key):
        if os.path.exists(mp):
            with open(mp) as f:
                return json.load(f)
        d = os.path.join(WORK, "scratch", "%s-%s" % (tag, key))
        shutil.rmtree(d, ignore_errors=True)
        corpus = sorted(os.path.join(VERIF, "corpus", "l2", f) for f in os.listdir(os.path.join(VERIF, "corpus", "l2"))) \
            if os.path.isdir(os.path.join(VERIF, "corpus", "l2")) else []
        cases = corpus + gen.gen_batch(d, seed, sizes["count"], sizes["nq"], profiles=profiles)
        recs = run.run_batch(cases, l2, driver, d + ".out")
        with open(mp + ".tmp", "w") as f:
            json.dump(recs, f)
        os.replace(mp + ".tmp", mp)
        return recs


def l3_routes_batch(seed, tier, driver):
    """the same kind of records as routes_batch, but ANSWERED BY THE REAL SERVER over HTTP on generated cache directories
    (tools/l3batch.py: capnp files through the real loaders, the parameter factory, the geofilter in front of a router stub, the
    JSON renderer); memoised per server binary / model / seed / tier like routes_batch.  Returns (records, error)."""
    import l3, l3batch
    binary, e3 = l3.build_server()
    if e3:
        return None, str(e3)
    n3, nq3 = (30, 14) if tier == "quick" else (150, 20)
    src = hashlib.sha256(b"".join(open(os.path.join(HERE, f), "rb").read() for f in ("gen.py", "l3batch.py", "l3.py"))).hexdigest()[:12]
    key = hashlib.sha256(("l3routes|%s|%s|%d|%s|%d|%d|%s" % (binary, driver, seed, tier, n3, nq3, src)).encode()).hexdigest()[:24]
    mp = memo_path(key)
    with build.Lock("memo-" + key):
        if os.path.exists(mp):
            with open(mp) as f:
                return json.load(f), None
        more, _extras = l3batch.l3_batch(seed + 77, n3, nq3, driver, os.path.join(WORK, "scratch", "l3routes-%s" % key), binary=binary)
        for r in more:
            r["l3"] = True
        with open(mp + ".tmp", "w") as f:
            json.dump(more, f)
        os.replace(mp + ".tmp", mp)
        return more, None


# ------------------------------------------------------------------------------------------------
# record helpers

def toks(line):
    return line.split()


def kind_of(rec):
    op = rec["op"].split()
    if op[0] == "optimize":
        return "optimize"
    if op[0] == "route":
        return "alt" if op[10] == "1" else "route"
    return op[0]


def is_fwd(rec):
    t = rec["op"].split()
    return len(t) > 9 and t[9] == "1"


def routes_in(line):
    """list of route token-lists contained in an impl/model line (single or alternatives)"""
    if line.startswith("route ok"):
        body = line.split(" | opt")[0]
        return [body]
    if line.startswith("alt ok"):
        return [p.strip() for p in line.split("||")[1:]]
    return []


def steps_of(route_text):
    parts = [p.strip() for p in route_text.split("|")]
    return parts[0].split(), [p.split() for p in parts[1:] if p and not p.startswith("opt")]


def rewrites_of(line):
    if " | opt" in line:
        return line.split(" | opt")[1].split()
    if line.startswith("optimize ok"):
        return line.split("|")[0].split()[2:]
    return []


def status_of(line):
    t = line.split()
    if len(t) >= 2 and t[1] == "ok":
        return "ok"
    if len(t) >= 3 and t[1] == "noroute":
        return "noroute " + t[2]
    return " ".join(t[1:3])


def route_verdicts(rec):
    """per-route verdict dicts parsed from the oracle line"""
    v = rec["verdict"]
    out = []
    if v.startswith("v route") or v.startswith("v optimize"):
        out.append({k: run.vget(v, k) for k in ("C01", "C02", "C06")})
    elif v.startswith("v alt n="):
        tail = v.split("capoff=")[1].split(" ", 1)[1] if "capoff=" in v else ""
        for part in tail.split(";"):
            out.append({k: run.vget(part, k) for k in ("C01", "C02", "C06")})
    return out


def dom_of(rec):
    return run.vget(rec["verdict"], "dom") == "1"


# ------------------------------------------------------------------------------------------------
# known findings

def load_known():
    if not os.path.exists(KNOWN):
        return []
    with open(KNOWN) as f:
        return json.load(f).get("findings", [])


def match_known(prop, rec, known):
    """returns the open finding that explains this violating record, or None"""
    for k in known:
        if k.get("property") != prop or not str(k.get("status", "")).startswith("open"):
            continue
        sig = k.get("signature", {})
        if sig.get("kind") == "rewrite_fired":
            if any(rewrites_of(rec["impl"])) or (kind_of(rec) != "route"):
                # the failing route must come from a calculation in which a clean-up rewrite fired
                if rec.get("rewrites") or rewrites_of(rec["impl"]):
                    return k
        elif sig.get("kind") == "op_regex":
            if re.search(sig["regex"], rec["op"]):
                return k
        elif sig.get("kind") == "impl_regex":
            if re.search(sig["regex"], rec["impl"]):
                return k
    return None


# ------------------------------------------------------------------------------------------------
# replay files

def write_replay(prop, rec, why, extra=None):
    os.makedirs(os.path.join(REPLAYS, prop), exist_ok=True)
    # minimal case: the dataset block + the single failing operation
    ds = []
    with open(rec["case"]) as f:
        for line in f:
            ds.append(line)
            if line.strip() == "end":
                break
    body = "".join(ds) + rec["op"] + "\n"
    h = hashlib.sha256(body.encode()).hexdigest()[:12]
    path = os.path.join(REPLAYS, prop, "%s-%s.case" % (prop, h))
    with open(path, "w") as f:
        f.write("# replay for %s: %s\n# source case %s op #%d\n# impl : %s\n# model: %s\n# oracle: %s\n" %
                (prop, why, rec["case"], rec["idx"], rec["impl"], rec["model"], rec["verdict"]))
        if extra:
            f.write("# %s\n" % extra)
        f.write(body)
    return path


def write_replay_file(prop, case, why, rec=None):
    """replay = a copy of the whole case file (histories, schedules: the sequence matters)"""
    os.makedirs(os.path.join(REPLAYS, prop), exist_ok=True)
    body = open(case).read()
    h = hashlib.sha256(body.encode()).hexdigest()[:12]
    path = os.path.join(REPLAYS, prop, "%s-%s.case" % (prop, h))
    with open(path, "w") as f:
        f.write("# replay for %s: %s\n" % (prop, why))
        if rec:
            f.write("# impl : %s\n# model: %s\n" % (rec["impl"][:500], rec["model"][:500]))
        f.write(body)
    return path


def write_nofail_replay(prop, what, detail):
    os.makedirs(os.path.join(REPLAYS, prop), exist_ok=True)
    path = os.path.join(REPLAYS, prop, "%s-unchecked-%d.txt" % (prop, int(time.time())))
    with open(path, "w") as f:
        f.write("property %s is no longer shown to hold\nno longer checks: %s\n\n%s\n" % (prop, what, detail))
    return path


# ------------------------------------------------------------------------------------------------
# evidence

def write_evidence(prop, tier, seed, level, coverage, assumptions, wall, violations):
    os.makedirs(EVID, exist_ok=True)
    ev = dict(property_id=prop, tier=tier, seed=seed, level=level, coverage=coverage, assumptions=assumptions,
              wall_s=round(wall, 2), violations=violations)
    with open(os.path.join(EVID, prop + ".json"), "w") as f:
        json.dump(ev, f, indent=1, sort_keys=True)
    return ev


TRUSTED_BASE = [
    "Coq 8.16.1 kernel (coqc, full .vo build; vm_compute used in finite sweeps and witnesses; no native_compute)",
    "no axioms: every property theorem prints 'Closed under the global context'",
    "extraction: ExtrOcamlBasic only (bool, option, unit, list, prod, sumbool); nat/positive/Z stay inductive; no Extract Constant; OCaml 4.13.1; ocaml/driver.ml parser/printer",
    "correspondence harness harness/*.cpp (TableDataFetcher, TableGeoFilter), tools/*.py generators and canonicaliser",
    "hand-written Gallina model of trRouting tied to /repo by behavioural correspondence on every run; generated fragments coq/gen/*.v by tools/gen_fragments.py (clang AST)",
    "not modelled, trusted: libstdc++ (stable_sort, map order), boost uuid, Cap'n Proto decoding, nlohmann JSON, SimpleWeb/asio, shared_mutex/shared_ptr, spdlog, OS",
]
