#!/usr/bin/env python3
"""Translator for the SKIP RULES of the cache loaders: regenerates coq/gen/LoaderGuards.v from the CURRENT sources of
  src/trips_and_connections_cache_fetcher.cpp  (CacheFetcher::getSchedules: which trips are skipped - unknown path, stop-time
      counts, stop-time order (D13) - and which array element feeds which field of a Connection),
  src/nodes_cache_fetcher.cpp                  (CacheFetcher::getNodes, per-stop files: the length test of the three parallel
      lists (D14), the skipped rows - unknown stop, negative walking time (D15) -, the rows pushed, the self row),
  src/transit_data.cpp + include/transit_data.hpp (TransitData::getDataStatus: the ordered emptiness tests and their codes),
  include/connection.hpp                       (which constructor argument is read back by which getter),
each as a Coq function over nat / Z / bool arguments.  Proofs/LoaderGuardsTie.v proves that the model's loaders (Loader.v,
Loader2.v) are the loaders instantiated with THESE generated fragments, so a changed operator, a dropped test, a shifted
index or two swapped tests in the source breaks a proof obligation on the next run.

Method (as tools/gen_guards.py, one level more structural because whole tests can disappear):
  comment-stripped, string-blanked function body -> statement tree (if / else / for / try / return / continue / break /
  simple statements) -> the statement list a fragment lives in is located by what it DOES (the call of a non-local name:
  `trips.emplace`, `connections.push_back(Connection(`, `NodeTimeDistance(`), never by a local's name -> the `if`s of
  that list whose body is (logging and) `continue` are its skip guards -> every expression is first CANONICALISED: a local
  with exactly one definition in the function (`T x = e;`, `T x {e};`, never a loop counter) is replaced by its definition,
  repeatedly, so the text no longer depends on the names of locals -> atoms (canonical C++ sub-expressions with a fixed
  meaning) -> a recursive-descent parser for  ?:  || && ! == != < <= > >= + -  a[i]  a.size()  and integer literals, typed
  nat (sizes, unsigned indices: Nat.ltb / Nat.leb / Nat.eqb / Nat.add / Nat.sub) or Z (stored values) -> Coq.

Policy: a fragment the translator cannot read (the list is not found, an `if` it cannot classify, an unknown
sub-expression, a variable that is not an argument of the fragment) is emitted as the committed hand-written definition
and reported `fallback` (no alarm by itself: the behavioural correspondence of tools/loadmodel.py still decides).  A
fragment it CAN read is emitted as read - a skip rule whose test is no longer in the list it was in is read as `false` -
and if that is not what the model does, Proofs/LoaderGuardsTie.v does not compile.

Unsigned arithmetic: `n - 1` on an unsigned long is emitted as Nat.sub (truncated at 0); the two differ only for n = 0,
which the count test (n >= 2) excludes before the subtraction is reached (the tie states the hypothesis)."""
import os, re, sys, json

HERE = os.path.dirname(os.path.abspath(__file__))
VERIF = os.path.dirname(HERE)
REPO = os.environ.get("TRV_REPO", "/repo")
OUT = os.path.join(VERIF, "coq", "gen", "LoaderGuards.v")

B, Z, N = "bool", "Z", "nat"


class Untranslatable(Exception):
    pass


# ------------------------------------------------------------------------------------------------
# text preparation

def strip_comments_and_strings(s):
    """comments removed, the contents of string / character literals blanked (a `//` or `;` inside a log text must not
    be read as code), preprocessor lines dropped"""
    out = []
    i, n = 0, len(s)
    while i < n:
        ch = s[i]
        if s.startswith("//", i):
            while i < n and s[i] != "\n":
                i += 1
            continue
        if s.startswith("/*", i):
            j = s.find("*/", i + 2)
            i = n if j < 0 else j + 2
            out.append(" ")
            continue
        if ch in "\"'":
            q = ch
            i += 1
            while i < n and s[i] != q:
                i += 2 if s[i] == "\\" else 1
            i += 1
            out.append(q + q)
            continue
        out.append(ch)
        i += 1
    text = "".join(out)
    return "\n".join(l for l in text.split("\n") if not l.lstrip().startswith("#"))


def fn_body(src, sig):
    i = src.index(sig)
    j = src.index("{", i)
    depth = 0
    for k in range(j, len(src)):
        if src[k] == "{":
            depth += 1
        elif src[k] == "}":
            depth -= 1
            if depth == 0:
                return src[j + 1:k]
    raise Untranslatable("unbalanced braces after " + sig)


def flat(t):
    return "".join(t.split())


# ------------------------------------------------------------------------------------------------
# statement tree: ('if', cond, then, else) ('for', header, body) ('while', cond, body) ('try', body, [handlers])
# ('return', expr) ('break',) ('continue',) ('stmt', text); a bare block is spliced into the list it sits in

def skip_ws(s, i):
    while i < len(s) and s[i].isspace():
        i += 1
    return i


def balanced(s, i, o, c):
    assert s[i] == o
    depth = 0
    for k in range(i, len(s)):
        if s[k] == o:
            depth += 1
        elif s[k] == c:
            depth -= 1
            if depth == 0:
                return s[i + 1:k], k + 1
    raise Untranslatable("unbalanced " + o)


def kw_at(s, i, kw):
    j = i + len(kw)
    return s.startswith(kw, i) and (j >= len(s) or not (s[j].isalnum() or s[j] == "_")) and \
        (i == 0 or not (s[i - 1].isalnum() or s[i - 1] == "_"))


def parse_stmt(s, i):
    i = skip_ws(s, i)
    if i >= len(s):
        raise Untranslatable("statement expected")
    if s[i] == "{":
        inner, j = balanced(s, i, "{", "}")
        return parse_list(inner), j
    if s[i] == ";":
        return [], i + 1
    if kw_at(s, i, "if"):
        j = skip_ws(s, i + 2)
        cond, j = balanced(s, j, "(", ")")
        th, j = parse_stmt(s, j)
        k = skip_ws(s, j)
        el = []
        if kw_at(s, k, "else"):
            el, j = parse_stmt(s, k + 4)
        return [("if", flat(cond), th, el)], j
    if kw_at(s, i, "for"):
        j = skip_ws(s, i + 3)
        header, j = balanced(s, j, "(", ")")
        body, j = parse_stmt(s, j)
        return [("for", header, body)], j
    if kw_at(s, i, "while"):
        j = skip_ws(s, i + 5)
        cond, j = balanced(s, j, "(", ")")
        body, j = parse_stmt(s, j)
        return [("while", flat(cond), body)], j
    if kw_at(s, i, "try"):
        j = skip_ws(s, i + 3)
        if s[j] != "{":
            raise Untranslatable("`try` without block")
        inner, j = balanced(s, j, "{", "}")
        handlers = []
        while True:
            k = skip_ws(s, j)
            if not kw_at(s, k, "catch"):
                break
            k = skip_ws(s, k + 5)
            _, k = balanced(s, k, "(", ")")
            k = skip_ws(s, k)
            h, j = balanced(s, k, "{", "}")
            handlers.append(parse_list(h))
        return [("try", parse_list(inner), handlers)], j
    for kw in ("do", "switch", "goto", "case", "default", "else", "catch"):
        if kw_at(s, i, kw):
            raise Untranslatable("unsupported statement `%s`" % kw)
    for kw in ("break", "continue"):
        if kw_at(s, i, kw):
            j = skip_ws(s, i + len(kw))
            if j < len(s) and s[j] == ";":
                return [(kw,)], j + 1
            raise Untranslatable("malformed `%s`" % kw)
    depth = 0
    k = i
    while k < len(s):
        ch = s[k]
        if ch in "([{":
            depth += 1
        elif ch in ")]}":
            depth -= 1
            if depth < 0:
                raise Untranslatable("unbalanced statement")
        elif ch == ";" and depth == 0:
            text = s[i:k]
            if kw_at(text, 0, "return"):
                return [("return", flat(text[6:]))], k + 1
            return [("stmt", text.strip())], k + 1
        k += 1
    raise Untranslatable("statement without `;`: " + s[i:i + 40])


def parse_list(s):
    out = []
    i = skip_ws(s, 0)
    while i < len(s):
        nodes, i = parse_stmt(s, i)
        out += nodes
        i = skip_ws(s, i)
    return out


def all_lists(nodes):
    """every statement list of the tree (the list itself first, then the nested ones in source order)"""
    yield nodes
    for nd in nodes:
        if nd[0] == "if":
            yield from all_lists(nd[2])
            yield from all_lists(nd[3])
        elif nd[0] in ("for", "while"):
            yield from all_lists(nd[2])
        elif nd[0] == "try":
            yield from all_lists(nd[1])
            for h in nd[2]:
                yield from all_lists(h)


def is_log(nd):
    return nd[0] == "stmt" and re.match(r"spdlog\s*::", nd[1]) is not None


def without_logs(nodes):
    return [nd for nd in nodes if not is_log(nd)]


def is_skip_guard(nd):
    """`if (c) { logging; continue; }` without else"""
    return nd[0] == "if" and not nd[3] and without_logs(nd[2]) == [("continue",)]


# ------------------------------------------------------------------------------------------------
# canonical text: locals replaced by their (unique) definitions

IDENT = r"[A-Za-z_]\w*"


def definitions(body):
    cands = {}
    for m in re.finditer(r"(" + IDENT + r")\s*(?:=(?!=)\s*([^;]*?)|\{([^;{}]*)\})\s*;", body):
        name = m.group(1)
        pre = body[:m.start()].rstrip()
        if pre.endswith(".") or pre.endswith("->") or pre.endswith("::"):
            continue
        if m.start() > 0 and (body[m.start() - 1].isalnum() or body[m.start() - 1] == "_"):
            continue
        if name in ("return", "else", "try", "do", "const", "using") or re.search(r"\busing\s*$", pre):
            continue
        rhs = flat(m.group(2) if m.group(2) is not None else m.group(3))
        if rhs == "":
            continue
        cands.setdefault(name, set()).add(rhs)
    counters = set(re.findall(r"(" + IDENT + r")\s*(?:\+\+|--|\+=|-=|\*=|/=)", body)) | \
        set(re.findall(r"(?:\+\+|--)\s*(" + IDENT + r")", body))
    defs = {}
    for name, rs in cands.items():
        if len(rs) != 1 or name in counters:
            continue
        rhs = next(iter(rs))
        if re.search(r"(?<![\w.])" + re.escape(name) + r"(?!\w)", rhs):
            continue
        defs[name] = rhs
    return defs


def simple_postfix(e):
    """no operator at depth 0: the text can be followed by `.x`, `[i]`, `->x` without parentheses"""
    t = e
    while True:
        t2 = re.sub(r"\([^()\[\]]*\)|\[[^()\[\]]*\]", "", t)
        if t2 == t:
            break
        t = t2
    t = t.replace("->", ".")
    t = re.sub(r"<[\w:]+>", "", t)
    return re.fullmatch(r"[\w.:]*", t) is not None


def canon(text, defs, rounds=12):
    text = flat(text)
    for _ in range(rounds):
        changed = [False]

        def sub(m):
            name = m.group(0)
            pre = text[:m.start()]
            if pre.endswith(".") or pre.endswith("->") or pre.endswith("::"):
                return name
            if name not in defs:
                return name
            changed[0] = True
            d = defs[name]
            return d if simple_postfix(d) else "(" + d + ")"
        new = re.sub(r"(?<![\w])" + IDENT + r"(?!\w)", sub, text)
        text = new
        if not changed[0]:
            return text
    raise Untranslatable("definitions of locals do not resolve")


# ------------------------------------------------------------------------------------------------
# expressions

def tokenize(text, atoms):
    """atoms: canonical text -> ('var', coq name, type) | ('arr', element prefix, element type | 'IDX', name of its size) |
    ('expr', coq text, type, variables)"""
    keys = sorted(atoms, key=len, reverse=True)
    toks = []
    i = 0
    while i < len(text):
        for k in keys:
            if text.startswith(k, i):
                j = i + len(k)
                if (k[-1].isalnum() or k[-1] == "_") and j < len(text) and (text[j].isalnum() or text[j] == "_"):
                    continue
                if (k[0].isalnum() or k[0] == "_") and i > 0 and (text[i - 1].isalnum() or text[i - 1] in "_."):
                    continue
                toks.append(atoms[k])
                i = j
                break
        else:
            m = re.match(r"(\.size\(\)|\.get\(\)|\|\||&&|==|!=|<=|>=|<|>|\+|-|!|\(|\)|\[|\]|\?|:)", text[i:])
            if m:
                toks.append(("op", m.group(1)))
                i += len(m.group(1))
                continue
            m = re.match(r"\d+", text[i:])
            if m and (i == 0 or not (text[i - 1].isalnum() or text[i - 1] == "_")):
                toks.append(("int", int(m.group(0))))
                i += len(m.group(0))
                continue
            raise Untranslatable("unknown text at: " + text[i:i + 70])
    return toks


class E:
    """typed Coq expression; lit = value of an integer literal whose type (nat or Z) is fixed by its context"""
    def __init__(self, coq, ty, lit=None):
        self.coq, self.ty, self.lit = coq, ty, lit


def as_type(e, ty):
    if e.lit is not None:
        if ty == N:
            if e.lit < 0:
                raise Untranslatable("negative literal where an unsigned value is expected")
            return "%d%%nat" % e.lit
        if ty == Z:
            return str(e.lit) if e.lit >= 0 else "(- %d)" % -e.lit
        raise Untranslatable("integer literal used as a condition")
    if e.ty != ty:
        raise Untranslatable("expected %s, got %s in %s" % (ty, e.ty, e.coq))
    return e.coq


def unify(l, r):
    if l.lit is not None and r.lit is not None:
        return Z
    ty = r.ty if l.lit is not None else l.ty
    if ty not in (N, Z):
        raise Untranslatable("arithmetic on %s" % ty)
    return ty


class Parser:
    def __init__(self, toks):
        self.t, self.i, self.vars = toks, 0, []

    def peek(self):
        return self.t[self.i] if self.i < len(self.t) else None

    def op(self, *ops):
        p = self.peek()
        if p and p[0] == "op" and p[1] in ops:
            self.i += 1
            return p[1]
        return None

    def parse(self):
        e = self.p_cond()
        if self.i != len(self.t):
            raise Untranslatable("trailing tokens")
        return e

    def p_cond(self):
        c = self.p_or()
        if self.op("?"):
            a = self.p_cond()
            if not self.op(":"):
                raise Untranslatable("`?` without `:`")
            b = self.p_cond()
            if a.ty == B and b.ty == B and a.lit is None and b.lit is None:
                ty = B
            else:
                ty = unify(a, b)
            return E("(if %s then %s else %s)" % (as_type(c, B), as_type(a, ty), as_type(b, ty)), ty)
        return c

    def p_or(self):
        l = self.p_and()
        while self.op("||"):
            r = self.p_and()
            l = E("(%s || %s)" % (as_type(l, B), as_type(r, B)), B)
        return l

    def p_and(self):
        l = self.p_eq()
        while self.op("&&"):
            r = self.p_eq()
            l = E("(%s && %s)" % (as_type(l, B), as_type(r, B)), B)
        return l

    def p_eq(self):
        l = self.p_rel()
        while True:
            o = self.op("==", "!=")
            if not o:
                return l
            r = self.p_rel()
            if l.ty == B and r.ty == B and l.lit is None and r.lit is None:
                e = "(Bool.eqb %s %s)" % (l.coq, r.coq)
            else:
                ty = unify(l, r)
                e = ("(Nat.eqb %s %s)" if ty == N else "(%s =? %s)") % (as_type(l, ty), as_type(r, ty))
            l = E(e if o == "==" else "(negb %s)" % e, B)

    def p_rel(self):
        l = self.p_add()
        o = self.op("<=", ">=", "<", ">")
        if not o:
            return l
        r = self.p_add()
        ty = unify(l, r)
        a, b = as_type(l, ty), as_type(r, ty)
        if ty == N:
            e = {"<": "(Nat.ltb %s %s)" % (a, b), ">": "(Nat.ltb %s %s)" % (b, a),
                 "<=": "(Nat.leb %s %s)" % (a, b), ">=": "(Nat.leb %s %s)" % (b, a)}[o]
        else:
            e = "(%s %s %s)" % (a, {"<=": "<=?", ">=": ">=?", "<": "<?", ">": ">?"}[o], b)
        return E(e, B)

    def p_add(self):
        l = self.p_un()
        while True:
            o = self.op("+", "-")
            if not o:
                return l
            r = self.p_un()
            if l.lit is not None and r.lit is not None:
                l = E(None, None, l.lit + r.lit if o == "+" else l.lit - r.lit)
                continue
            ty = unify(l, r)
            a, b = as_type(l, ty), as_type(r, ty)
            if ty == N:
                l = E("(%s %s %s)" % ("Nat.add" if o == "+" else "Nat.sub", a, b), N)
            else:
                l = E("(%s %s %s)" % (a, o, b), Z)

    def p_un(self):
        if self.op("!"):
            e = self.p_un()
            return E("(negb %s)" % as_type(e, B), B)
        if self.op("-"):
            e = self.p_un()
            if e.lit is not None:
                return E(None, None, -e.lit)
            return E("(- %s)" % as_type(e, Z), Z)
        return self.p_post()

    def p_post(self):
        p = self.peek()
        if p is None:
            raise Untranslatable("unexpected end")
        if self.op("("):
            e = self.p_cond()
            if not self.op(")"):
                raise Untranslatable("missing )")
            return e
        self.i += 1
        if p[0] == "int":
            return E(None, None, p[1])
        if p[0] == "var":
            self.vars.append(p[1])
            return E(p[1], p[2])
        if p[0] == "expr":
            self.vars += p[3]
            return E(p[1], p[2])
        if p[0] == "arr":
            name, ety = p[1], p[2]
            if self.op(".size()"):
                self.vars.append(p[3])
                return E(p[3], N)
            if not self.op("["):
                raise Untranslatable("array %s used as a value" % name)
            save = len(self.vars)
            idx = self.p_add()
            if not self.op("]"):
                raise Untranslatable("missing ]")
            ic = as_type(idx, N)
            if ety == "IDX":        # which element of the path's stop list: the index itself
                self.op(".get()")
                return E(ic, N)
            ivars = self.vars[save:]
            del self.vars[save:]
            if len(set(ivars)) != 1:
                raise Untranslatable("index %s of %s" % (ic, name))
            iv = ivars[0]
            if ic == iv:
                v = "%s_%s" % (name, iv)
            elif ic in ("(Nat.add %s 1%%nat)" % iv, "(Nat.add 1%%nat %s)" % iv):
                v = "%s_next" % name
            else:
                raise Untranslatable("index %s of %s" % (ic, name))
            self.vars.append(v)
            return E(v, ety)
        raise Untranslatable("unexpected token %r" % (p,))


def translate(text, atoms, ty, allowed):
    """text: canonical, whitespace-free; returns Coq text; every variable must be one of `allowed`"""
    p = Parser(tokenize(text, atoms))
    e = p.parse()
    coq = as_type(e, ty)
    bad = sorted(set(v for v in p.vars if v not in allowed))
    if bad:
        raise Untranslatable("mentions %s, not an argument of this fragment" % ", ".join(bad))
    return coq


def counted_for(header, defs):
    """`T i = e0; cond; i++` -> (loop variable, canonical e0, canonical cond)"""
    parts = header.split(";")
    if len(parts) != 3:
        raise Untranslatable("not a counted loop: " + flat(header)[:60])
    m = re.match(r"^\s*(?:[\w:<>]+\s+)+(" + IDENT + r")\s*(?:=\s*(.*?)|\{(.*?)\})\s*$", parts[0], flags=re.S)
    if not m:
        raise Untranslatable("loop initialisation: " + flat(parts[0]))
    v = m.group(1)
    init = m.group(2) if m.group(2) is not None else m.group(3)
    if flat(parts[2]) not in (v + "++", "++" + v, v + "+=1"):
        raise Untranslatable("loop step: " + flat(parts[2]))
    return v, canon(init, defs), canon(parts[1], defs)


def split_args(text):
    out, depth, cur = [], 0, []
    for ch in text:
        if ch in "([{":
            depth += 1
        elif ch in ")]}":
            depth -= 1
        if ch == "," and depth == 0:
            out.append("".join(cur))
            cur = []
        else:
            cur.append(ch)
    out.append("".join(cur))
    return [flat(a) for a in out]


def call_args(text, callee):
    """arguments of the first call `callee(...)` in text (whitespace-free), or None"""
    i = text.find(callee + "(")
    if i < 0:
        return None
    inner, _ = balanced(text, i + len(callee), "(", ")")
    return split_args(inner)


# ------------------------------------------------------------------------------------------------
# fragment table: name -> (argument list, result type, hand-written definition)

ZARGS4 = [("dep_i", Z), ("dep_next", Z), ("arr_i", Z), ("arr_next", Z)]
FLAGS4 = [("cb_i", Z), ("cb_next", Z), ("cu_i", Z), ("cu_next", Z)]
ROW2 = [("time_j", Z), ("dist_j", Z)]
FRAGS = {
    # --- getSchedules
    "sched_unknown_service": ([("service_found", B)], B, "(negb service_found)"),
    "trip_unknown_path": ([("path_found", B)], B, "(negb path_found)"),
    "trip_counts_bad": ([("n_arr", N), ("n_path", N), ("n_dep", N), ("n_cb", N), ("n_cu", N)], B,
                        "(((((Nat.ltb n_arr 2%nat) || (Nat.ltb n_path n_arr)) || (Nat.ltb n_dep n_arr)) || (Nat.ltb n_cb n_arr)) || (Nat.ltb n_cu n_arr))"),
    "trip_order_flag_init": ([], B, "true"),
    "trip_order_flag_on_bad": ([], B, "false"),
    "trip_order_start": ([], N, "0%nat"),
    "trip_order_cond": ([("i", N), ("n_arr", N), ("n_dep", N)], B, "(Nat.ltb (Nat.add i 1%nat) n_arr)"),
    "trip_order_bad": (ZARGS4 + [("i", N)], B, "(((dep_i <? 0) || (arr_next <? dep_i)) || ((Nat.ltb 0%nat i) && (dep_i <? arr_i)))"),
    "trip_order_skip": ([("in_order", B)], B, "(negb in_order)"),
    "conn_loop_start": ([], N, "0%nat"),
    "conn_loop_cond": ([("i", N), ("n_arr", N)], B, "(Nat.ltb i (Nat.sub n_arr 1%nat))"),
    "conn_from_idx": ([("i", N)], N, "i"),
    "conn_to_idx": ([("i", N)], N, "(Nat.add i 1%nat)"),
    "conn_dep": (ZARGS4, Z, "dep_i"),
    "conn_arr": (ZARGS4, Z, "arr_next"),
    "conn_can_board": (FLAGS4, B, "(cb_i =? 1)"),
    "conn_can_unboard": (FLAGS4, B, "(cu_next =? 1)"),
    "conn_seq": ([("i", N)], N, "(Nat.add i 1%nat)"),
    "conn_minw": ([("transferable", B)], Z, "(if transferable then 0 else (- 1))"),
    # --- getNodes, per-stop files
    "stop_lists_bad": ([("n_uuids", N), ("n_times", N), ("n_dists", N)], B, "((Nat.ltb n_times n_uuids) || (Nat.ltb n_dists n_uuids))"),
    "stop_lists_bad_ret": ([], Z, "(- EBADMSG)"),
    "stop_rows_start": ([], N, "0%nat"),
    "stop_rows_cond": ([("j", N), ("n_uuids", N)], B, "(Nat.ltb j n_uuids)"),
    "node_unknown": ([("kcount", N)], B, "(Nat.eqb kcount 0%nat)"),
    "node_time_bad": (ROW2, B, "(time_j <? 0)"),
    "node_row_time": (ROW2, Z, "time_j"),
    "node_row_dist": (ROW2, Z, "dist_j"),
    "node_rev_time": (ROW2, Z, "time_j"),
    "node_rev_dist": (ROW2, Z, "dist_j"),
    "node_row_names_target": ([], B, "true"),
    "node_rev_owner_is_target": ([], B, "true"),
    "node_rev_names_current": ([], B, "true"),
    "node_self_time": ([], Z, "0"),
    "node_self_dist": ([], Z, "0"),
    "node_self_owner_is_current": ([], B, "true"),
    "node_self_names_current": ([], B, "true"),
    "node_self_after_rows": ([], B, "true"),
}
ORDER = list(FRAGS)

ERRNO = {"ENOENT": 2, "EINVAL": 22, "EBADMSG": 74}       # Linux asm-generic/errno{,-base}.h

# canonical atoms (locals already replaced by their definitions)
PATH_ITE = "paths.find(uuidGenerator(capnpTrip.getPathUuid()))"
ATOMS_TRIP = {
    "capnpTrip.getNodeArrivalTimesSeconds()": ("arr", "arr", Z, "n_arr"),
    "capnpTrip.getNodeDepartureTimesSeconds()": ("arr", "dep", Z, "n_dep"),
    "capnpTrip.getNodesCanBoard()": ("arr", "cb", Z, "n_cb"),
    "capnpTrip.getNodesCanUnboard()": ("arr", "cu", Z, "n_cu"),
    PATH_ITE + "->second.nodesRef": ("arr", "path", "IDX", "n_path"),
    PATH_ITE + "==paths.end()": ("expr", "(negb path_found)", B, ["path_found"]),
    "paths.end()==" + PATH_ITE: ("expr", "(negb path_found)", B, ["path_found"]),
    PATH_ITE + "!=paths.end()": ("var", "path_found", B),
    "lineIter.second.mode.isTransferable()": ("var", "transferable", B),
}
SERVICE_ITE = "services.find(uuidGenerator(schedule.getServiceUuid()))"
ATOMS_SCHED = {
    SERVICE_ITE + "==services.end()": ("expr", "(negb service_found)", B, ["service_found"]),
    "services.end()==" + SERVICE_ITE: ("expr", "(negb service_found)", B, ["service_found"]),
    SERVICE_ITE + "!=services.end()": ("var", "service_found", B),
}
STOP_MSG = "capnpTMessage.getRoot<cNode>()"
ROW_UUID = "uuidGenerator(" + STOP_MSG + ".getTransferableNodesUuids()[%s])"
ATOMS_NODE = {
    STOP_MSG + ".getTransferableNodesUuids()": ("arr", "uuid", "UUID", "n_uuids"),
    STOP_MSG + ".getTransferableNodesTravelTimes()": ("arr", "time", Z, "n_times"),
    STOP_MSG + ".getTransferableNodesDistances()": ("arr", "dist", Z, "n_dists"),
}
for _k in ERRNO:
    ATOMS_NODE[_k] = ("expr", _k, Z, [])


def emit(name, coq, origin):
    args, ty, _ = FRAGS[name]
    params = " ".join("(%s : %s)" % a for a in args)
    return "Definition gen_%s%s : %s :=\n  %s.   (* %s *)" % (name, (" " + params) if params else "", ty, coq, origin)


class Gen:
    def __init__(self):
        self.vals = {}
        self.report = dict(guards={}, fallback=[])

    def put(self, name, coq, origin="source"):
        self.vals[name] = (coq, origin)

    def tr(self, name, text, atoms):
        args, ty, _ = FRAGS[name]
        return translate(text, atoms, ty, [a for a, _ in args])

    def group(self, names, fn, what):
        """fn fills the fragments `names`; if it cannot read the source all of them fall back"""
        try:
            fn()
            missing = [n for n in names if n not in self.vals]
            if missing:
                raise Untranslatable("not produced: " + ", ".join(missing))
        except Exception as e:      # whatever the reason: the committed definition, reported
            for n in names:
                self.vals.pop(n, None)
            self.report["fallback"].append("%s: %s%s" % (what, "" if isinstance(e, Untranslatable) else type(e).__name__ + ": ", e))
            for n in names:
                self.vals[n] = (FRAGS[n][2], "fallback")


def disj(parts):
    if not parts:
        return "false"
    e = parts[0]
    for p in parts[1:]:
        e = "(%s || %s)" % (e, p)
    return e


# ------------------------------------------------------------------------------------------------
# getSchedules

def gen_schedules(g):
    names_trip = ["trip_unknown_path", "trip_counts_bad", "trip_order_flag_init", "trip_order_flag_on_bad", "trip_order_start",
                  "trip_order_cond", "trip_order_bad", "trip_order_skip"]
    names_conn = ["conn_loop_start", "conn_loop_cond", "conn_from_idx", "conn_to_idx", "conn_dep", "conn_arr", "conn_can_board",
                  "conn_can_unboard", "conn_seq", "conn_minw"]
    state = {}

    def load():
        src = strip_comments_and_strings(open(os.path.join(REPO, "src/trips_and_connections_cache_fetcher.cpp")).read())
        body = fn_body(src, "CacheFetcher::getSchedules(")
        state["defs"] = definitions(body)
        state["tree"] = parse_list(body)

    def trip_list():
        ls = [l for l in all_lists(state["tree"]) if any(nd[0] == "stmt" and re.match(r"trips\s*\.\s*emplace\s*\(", nd[1]) for nd in l)]
        if len(ls) != 1:
            raise Untranslatable("%d statement lists insert into `trips`" % len(ls))
        l = ls[0]
        k = next(i for i, nd in enumerate(l) if nd[0] == "stmt" and re.match(r"trips\s*\.\s*emplace\s*\(", nd[1]))
        return l, k

    def service():
        load()
        defs = state["defs"]
        found = []
        for l in all_lists(state["tree"]):
            for nd in l:
                if nd[0] == "if" and "services.find(" in canon(nd[1], defs):
                    if not is_skip_guard(nd):
                        raise Untranslatable("the test of the schedule's service is not a `continue` guard")
                    found.append(g.tr("sched_unknown_service", canon(nd[1], defs), ATOMS_SCHED))
        g.put("sched_unknown_service", disj(found))

    def trips():
        if "tree" not in state:
            load()
        defs = state["defs"]
        l, k = trip_list()
        before = l[:k]
        flag = None           # (name, init, loop node)
        path_g, count_g, order_g = [], [], []
        loops = [nd for nd in before if nd[0] == "for"]
        for nd in before:
            if nd[0] == "if":
                if not is_skip_guard(nd):
                    raise Untranslatable("an `if` before the trip is inserted is not a `continue` guard: " + nd[1][:50])
                m = re.fullmatch(r"!\(?(" + IDENT + r")\)?", nd[1])
                if m and m.group(1) not in defs:
                    order_g.append(m.group(1))
                    continue
                c = canon(nd[1], defs)
                try:
                    path_g.append(g.tr("trip_unknown_path", c, ATOMS_TRIP))
                except Untranslatable:
                    count_g.append(g.tr("trip_counts_bad", c, ATOMS_TRIP))
            elif nd[0] in ("while", "try", "return", "break", "continue"):
                raise Untranslatable("unexpected `%s` before the trip is inserted" % nd[0])
        g.put("trip_unknown_path", disj(path_g))
        g.put("trip_counts_bad", disj(count_g))
        if not order_g and not loops:
            # no stop-time order test in this list
            g.put("trip_order_flag_init", "true"); g.put("trip_order_flag_on_bad", "true")
            g.put("trip_order_start", "0%nat"); g.put("trip_order_cond", "false"); g.put("trip_order_bad", "false")
            g.put("trip_order_skip", "false")
            return
        if len(order_g) != 1 or len(loops) != 1:
            raise Untranslatable("%d flag guards and %d loops before the trip is inserted" % (len(order_g), len(loops)))
        name = order_g[0]
        inits = [re.match(r"^bool\s+" + re.escape(name) + r"\s*(?:=\s*(true|false)|\{\s*(true|false)\s*\})$", nd[1]) for nd in before if nd[0] == "stmt"]
        inits = [m for m in inits if m]
        if len(inits) != 1:
            raise Untranslatable("declaration of the flag %s" % name)
        init = inits[0].group(1) or inits[0].group(2)
        loop = loops[0]
        v, e0, cond = counted_for(loop[1], defs)
        lb = [nd for nd in without_logs(loop[2]) if not (nd[0] == "stmt" and re.match(r"^(?:const\s+)?[\w:<>&\s]+\s" + IDENT + r"\s*(=|\{)", nd[1]))]
        if len(lb) != 1 or lb[0][0] != "if" or lb[0][3]:
            raise Untranslatable("body of the stop-time loop is not a single `if`")
        th = without_logs(lb[0][2])
        m = len(th) == 2 and th[0][0] == "stmt" and re.fullmatch(re.escape(name) + r"=(true|false)", flat(th[0][1]))
        if not m or th[1] != ("break",):
            raise Untranslatable("the stop-time test does not set the flag and leave the loop")
        atoms = dict(ATOMS_TRIP)
        atoms[v] = ("var", "i", N)
        g.put("trip_order_flag_init", init)
        g.put("trip_order_flag_on_bad", m.group(1))
        g.put("trip_order_start", g.tr("trip_order_start", e0, atoms))
        g.put("trip_order_cond", g.tr("trip_order_cond", cond, atoms))
        g.put("trip_order_bad", g.tr("trip_order_bad", canon(lb[0][1], defs), atoms))
        g.put("trip_order_skip", "(negb in_order)")

    def conns():
        if "tree" not in state:
            load()
        defs = state["defs"]
        roles = connection_roles()
        l, k = trip_list()
        loops = [nd for nd in l[k:] if nd[0] == "for" and any(s[0] == "stmt" and "Connection(" in flat(s[1]) for s in nd[2])]
        if len(loops) != 1:
            raise Untranslatable("%d loops build connections" % len(loops))
        loop = loops[0]
        v, e0, cond = counted_for(loop[1], defs)
        atoms = dict(ATOMS_TRIP)
        atoms[v] = ("var", "i", N)
        pushes = [flat(s[1]) for s in loop[2] if s[0] == "stmt" and "Connection(" in flat(s[1])]
        if len(pushes) != 1 or not pushes[0].startswith("connections.push_back(Connection("):
            raise Untranslatable("construction of the connection")
        args = call_args(pushes[0], "Connection")
        if len(args) != roles["count"]:
            raise Untranslatable("%d constructor arguments, %d parameters" % (len(args), roles["count"]))
        g.put("conn_loop_start", g.tr("conn_loop_start", e0, atoms))
        g.put("conn_loop_cond", g.tr("conn_loop_cond", cond, atoms))
        for frag, getter in (("conn_from_idx", "getDepartureNode"), ("conn_to_idx", "getArrivalNode"), ("conn_dep", "getDepartureTime"),
                             ("conn_arr", "getArrivalTime"), ("conn_can_board", "canBoard"), ("conn_can_unboard", "canUnboard"),
                             ("conn_seq", "getSequenceInTrip"), ("conn_minw", "getMinWaitingTime")):
            g.put(frag, g.tr(frag, canon(args[roles[getter]], defs), atoms))

    g.group(["sched_unknown_service"], service, "getSchedules/service")
    g.group(names_trip, trips, "getSchedules/trip tests")
    g.group(names_conn, conns, "getSchedules/connection")


def connection_roles():
    """include/connection.hpp: getter -> position of the constructor argument it reads back (getter returns member,
    member is initialised from parameter, parameter is the k-th of the constructor)"""
    src = strip_comments_and_strings(open(os.path.join(REPO, "include/connection.hpp")).read())
    m = re.search(r"\bConnection\s*\(", src)
    if not m:
        raise Untranslatable("constructor of Connection not found")
    inner, j = balanced(src, m.end() - 1, "(", ")")
    params = []
    for a in split_raw(inner):
        pm = re.search(r"(" + IDENT + r")\s*$", a)
        if not pm:
            raise Untranslatable("constructor parameter " + a)
        params.append(pm.group(1))
    init = flat(src[j:src.index("{", j)])
    roles = dict(count=len(params))
    for getter in ("getDepartureNode", "getArrivalNode", "getDepartureTime", "getArrivalTime", "canBoard", "canUnboard",
                   "getSequenceInTrip", "getMinWaitingTime"):
        gm = re.search(r"\b" + getter + r"\s*\(\s*\)\s*const\s*\{\s*return\s+(" + IDENT + r")\s*;\s*\}", src)
        if not gm:
            raise Untranslatable("getter %s not found" % getter)
        im = re.search(r"(?<![\w])" + re.escape(gm.group(1)) + r"\((" + IDENT + r")\)", init)
        if not im:
            raise Untranslatable("initialiser of %s not found" % gm.group(1))
        pos = [k for k, p in enumerate(params) if p == im.group(1)]
        if len(pos) != 1:
            raise Untranslatable("parameter %s of the constructor" % im.group(1))
        roles[getter] = pos[0]
    return roles


def split_raw(text):
    out, depth, cur = [], 0, []
    for ch in text:
        if ch in "([{<":
            depth += 1
        elif ch in ")]}>":
            depth -= 1
        if ch == "," and depth == 0:
            out.append("".join(cur).strip())
            cur = []
        else:
            cur.append(ch)
    out.append("".join(cur).strip())
    return out


# ------------------------------------------------------------------------------------------------
# getNodes: per-stop files

def gen_nodes(g):
    names_len = ["stop_lists_bad", "stop_lists_bad_ret"]
    names_rows = ["stop_rows_start", "stop_rows_cond", "node_unknown", "node_time_bad", "node_row_time", "node_row_dist", "node_rev_time",
                  "node_rev_dist", "node_row_names_target", "node_rev_owner_is_target", "node_rev_names_current"]
    names_self = ["node_self_time", "node_self_dist", "node_self_owner_is_current", "node_self_names_current", "node_self_after_rows"]
    state = {}

    def load():
        src = strip_comments_and_strings(open(os.path.join(REPO, "src/nodes_cache_fetcher.cpp")).read())
        body = fn_body(src, "CacheFetcher::getNodes(")
        state["defs"] = definitions(body)
        tree = parse_list(body)
        # the list that holds the row loop: a counted `for` whose body builds NodeTimeDistance values
        hits = []
        for l in all_lists(tree):
            for i, nd in enumerate(l):
                if nd[0] == "for" and ";" in nd[1] and any(s[0] == "stmt" and "NodeTimeDistance(" in flat(s[1]) for s in nd[2]):
                    hits.append((l, i))
        if len(hits) != 1:
            raise Untranslatable("%d loops build NodeTimeDistance rows" % len(hits))
        state["list"], state["k"] = hits[0]
        # the stop whose file is read: the element of the enclosing loop over the collection
        state["current"] = None
        for l in all_lists(tree):
            for nd in l:
                if nd[0] == "for" and any(state["list"] is x for x in all_lists(nd[2])):
                    m = re.match(r"^\s*(?:[\w:<>]+\s+)+(" + IDENT + r")\s*=\s*ts\.begin\(\)\s*;", nd[1])
                    if m:
                        state["current"] = m.group(1) + "->second"
        if state["current"] is None:
            raise Untranslatable("loop over the stops not found")

    def lengths():
        if "list" not in state:
            load()
        defs = state["defs"]
        l, k = state["list"], state["k"]
        rets = [nd for nd in l[:k] if nd[0] == "if" and any(x[0] == "return" for x in nd[2])]
        others = [nd for nd in l[:k] if nd[0] == "if" and nd not in rets]
        if others:
            raise Untranslatable("an `if` before the row loop is not understood: " + others[0][1][:50])
        if not rets:
            g.put("stop_lists_bad", "false"); g.put("stop_lists_bad_ret", "0")
            return
        if len(rets) != 1 or rets[0][3]:
            raise Untranslatable("%d returning tests before the row loop" % len(rets))
        body = [x for x in without_logs(rets[0][2]) if not (x[0] == "stmt" and re.match(r"close\s*\(", x[1]))]
        if len(body) != 1 or body[0][0] != "return":
            raise Untranslatable("body of the length test")
        g.put("stop_lists_bad", g.tr("stop_lists_bad", canon(rets[0][1], defs), ATOMS_NODE))
        g.put("stop_lists_bad_ret", g.tr("stop_lists_bad_ret", canon(body[0][1], defs), ATOMS_NODE))

    def rows():
        if "list" not in state:
            load()
        defs = state["defs"]
        loop = state["list"][state["k"]]
        v, e0, cond = counted_for(loop[1], defs)
        atoms = dict(ATOMS_NODE)
        atoms[v] = ("var", "j", N)
        target = ROW_UUID % v
        atoms["ts.count(" + target + ")"] = ("var", "kcount", N)
        g.put("stop_rows_start", g.tr("stop_rows_start", e0, atoms))
        g.put("stop_rows_cond", g.tr("stop_rows_cond", cond, atoms))
        body = loop[2]
        pushes = [i for i, s in enumerate(body) if s[0] == "stmt" and "NodeTimeDistance(" in flat(s[1])]
        unknown, bad = [], []
        for i, nd in enumerate(body):
            if nd[0] == "if":
                if i > pushes[0] or not is_skip_guard(nd):
                    raise Untranslatable("an `if` of the row loop is not a `continue` guard before the rows are pushed: " + nd[1][:50])
                c = canon(nd[1], defs)
                try:
                    unknown.append(g.tr("node_unknown", c, atoms))
                except Untranslatable:
                    bad.append(g.tr("node_time_bad", c, atoms))
            elif nd[0] != "stmt":
                raise Untranslatable("unexpected `%s` in the row loop" % nd[0])
        g.put("node_unknown", disj(unknown))
        g.put("node_time_bad", disj(bad))
        fwd, rev = [], []
        for i in pushes:
            c = canon(body[i][1], defs)
            m = re.fullmatch(r"(.*)\.push_back\(NodeTimeDistance\((.*)\)\)", c)
            if not m:
                raise Untranslatable("row construction: " + c[:60])
            a = split_args(m.group(2))
            if len(a) != 3:
                raise Untranslatable("NodeTimeDistance with %d arguments" % len(a))
            (rev if m.group(1).endswith(".reverseTransferableNodes") else fwd).append((m.group(1), a))
        if len(fwd) != 1 or len(rev) != 1:
            raise Untranslatable("%d forward and %d reverse rows pushed per entry" % (len(fwd), len(rev)))
        cur = state["current"]
        g.put("node_row_names_target", "true" if fwd[0][1][0] == "ts.at(" + target + ")" else "false")
        g.put("node_row_time", g.tr("node_row_time", fwd[0][1][1], atoms))
        g.put("node_row_dist", g.tr("node_row_dist", fwd[0][1][2], atoms))
        g.put("node_rev_owner_is_target", "true" if rev[0][0] == "ts.at(" + target + ").reverseTransferableNodes" else "false")
        g.put("node_rev_names_current", "true" if rev[0][1][0] == cur else "false")
        g.put("node_rev_time", g.tr("node_rev_time", rev[0][1][1], atoms))
        g.put("node_rev_dist", g.tr("node_rev_dist", rev[0][1][2], atoms))

    def self_row():
        if "list" not in state:
            load()
        defs = state["defs"]
        l, k = state["list"], state["k"]
        cur = state["current"]
        hits = []
        for i, nd in enumerate(l):
            if i != k and nd[0] == "stmt" and "NodeTimeDistance(" in flat(nd[1]):
                hits.append((i, canon(nd[1], defs)))
        if not hits:
            g.put("node_self_time", "0"); g.put("node_self_dist", "0")
            for n in ("node_self_owner_is_current", "node_self_names_current", "node_self_after_rows"):
                g.put(n, "false")
            return
        if len(hits) != 1:
            raise Untranslatable("%d extra rows pushed per stop file" % len(hits))
        i, c = hits[0]
        m = re.fullmatch(r"(.*)\.push_back\(NodeTimeDistance\((.*)\)\)", c)
        if not m:
            raise Untranslatable("self row: " + c[:60])
        a = split_args(m.group(2))
        if len(a) != 3:
            raise Untranslatable("NodeTimeDistance with %d arguments" % len(a))
        g.put("node_self_owner_is_current", "true" if m.group(1) == cur + ".reverseTransferableNodes" else "false")
        g.put("node_self_names_current", "true" if a[0] == cur else "false")
        g.put("node_self_time", g.tr("node_self_time", a[1], ATOMS_NODE))
        g.put("node_self_dist", g.tr("node_self_dist", a[2], ATOMS_NODE))
        g.put("node_self_after_rows", "true" if i > k else "false")

    g.group(names_len, lengths, "getNodes/list lengths")
    g.group(names_rows, rows, "getNodes/rows")
    g.group(names_self, self_row, "getNodes/self row")


# ------------------------------------------------------------------------------------------------
# getDataStatus

STATUS_ARGS = ["agencies", "services", "nodes", "lines", "paths", "scenarios", "trips"]
STATUS_HAND_ENUM = [("READY", 0), ("DATA_READ_ERROR", 1), ("NO_AGENCIES", 2), ("NO_LINES", 3), ("NO_PATHS", 4), ("NO_SERVICES", 5),
                    ("NO_SCENARIOS", 6), ("NO_SCHEDULES", 7), ("NO_NODES", 8)]
STATUS_HAND_RULES = [("(Nat.eqb agencies 0%nat)", "NO_AGENCIES"), ("(Nat.eqb services 0%nat)", "NO_SERVICES"), ("(Nat.eqb nodes 0%nat)", "NO_NODES"),
                     ("(Nat.eqb lines 0%nat)", "NO_LINES"), ("(Nat.eqb paths 0%nat)", "NO_PATHS"), ("(Nat.eqb scenarios 0%nat)", "NO_SCENARIOS"),
                     ("(Nat.eqb trips 0%nat)", "NO_SCHEDULES")]
STATUS_HAND_DEFAULT = "READY"


def gen_status(g):
    enum, rules, default = None, None, None
    origin_enum, origin_rules = "fallback", "fallback"
    try:
        hdr = strip_comments_and_strings(open(os.path.join(REPO, "include/transit_data.hpp")).read())
        m = re.search(r"enum\s+class\s+DataStatus\s*(?::\s*\w+\s*)?\{([^}]*)\}", hdr)
        if not m:
            raise Untranslatable("enum class DataStatus not found")
        enum, nxt = [], 0
        for item in m.group(1).split(","):
            item = item.strip()
            if not item:
                continue
            im = re.fullmatch(r"(" + IDENT + r")(?:\s*=\s*(\d+))?", item)
            if not im:
                raise Untranslatable("enumerator " + item)
            val = int(im.group(2)) if im.group(2) is not None else nxt
            enum.append((im.group(1), val))
            nxt = val + 1
        names = [n for n, _ in enum]
        if sorted(names) != sorted(n for n, _ in STATUS_HAND_ENUM):
            raise Untranslatable("enumerators of DataStatus: " + " ".join(names))
        origin_enum = "source"
    except (Untranslatable, OSError) as e:
        g.report["fallback"].append("DataStatus: %s" % e)
        enum = list(STATUS_HAND_ENUM)
    try:
        src = strip_comments_and_strings(open(os.path.join(REPO, "src/transit_data.cpp")).read())
        tree = parse_list(fn_body(src, "TransitData::getDataStatus("))
        atoms = {a + ".size()": ("var", a, N) for a in STATUS_ARGS}
        atoms.update({a + ".empty()": ("expr", "(Nat.eqb %s 0%%nat)" % a, B, [a]) for a in STATUS_ARGS})
        known = dict(enum)

        def status(expr):
            m = re.fullmatch(r"DataStatus::(" + IDENT + r")", expr)
            if not m or m.group(1) not in known:
                raise Untranslatable("returned value " + expr)
            return m.group(1)

        def chain(nodes):
            """-> (list of (cond, status), default or None)"""
            out = []
            for nd in without_logs(nodes):
                if nd[0] == "return":
                    return out, status(nd[1])
                if nd[0] != "if":
                    raise Untranslatable("statement in getDataStatus: " + str(nd)[:60])
                th = without_logs(nd[2])
                if len(th) != 1 or th[0][0] != "return":
                    raise Untranslatable("branch of getDataStatus does not just return")
                out.append((translate(nd[1], atoms, B, STATUS_ARGS), status(th[0][1])))
                if nd[3]:
                    sub, d = chain(nd[3])
                    out += sub
                    if d is not None:
                        return out, d
            return out, None

        rules, default = chain(tree)
        if default is None:
            raise Untranslatable("getDataStatus can fall off its end")
        origin_rules = "source"
    except (Untranslatable, ValueError, OSError) as e:
        g.report["fallback"].append("getDataStatus: %s" % e)
        rules, default = list(STATUS_HAND_RULES), STATUS_HAND_DEFAULT
    g.report["guards"]["data_status_enum"] = origin_enum
    g.report["guards"]["data_status_rules"] = origin_rules
    out = ["Definition gen_ST_%s : nat := %d%%nat.   (* %s *)" % (n, v, origin_enum) for n, v in enum]
    params = " ".join(STATUS_ARGS)
    out.append("Definition gen_data_status_rules (%s : nat) : list (bool * nat) :=\n  [ %s ].   (* %s *)" % (
        params, ";\n    ".join("(%s, gen_ST_%s)" % r for r in rules), origin_rules))
    out.append("Definition gen_data_status_default : nat := gen_ST_%s.   (* %s *)" % (default, origin_rules))
    out.append("Definition gen_data_status (%s : nat) : nat :=\n  first_rule (gen_data_status_rules %s) gen_data_status_default." % (params, params))
    return out


# ------------------------------------------------------------------------------------------------

def regenerate():
    g = Gen()
    gen_schedules(g)
    gen_nodes(g)
    out = ["(* GENERATED by tools/gen_loader_guards.py from /repo's trips_and_connections_cache_fetcher.cpp, nodes_cache_fetcher.cpp,",
           "   transit_data.cpp / transit_data.hpp, connection.hpp - do not edit. *)",
           "From Coq Require Import ZArith Bool List.", "Import ListNotations.", "Local Open Scope Z_scope.", "Local Open Scope bool_scope.", ""]
    out += ["Definition %s : Z := %d.   (* errno.h *)" % kv for kv in sorted(ERRNO.items())]
    out += ["(* an if / else-if chain of `return`s: the value of the first test that holds, else the final return *)",
            "Fixpoint first_rule (rules : list (bool * nat)) (default : nat) : nat :=",
            "  match rules with [] => default | (c, v) :: r => if c then v else first_rule r default end.", ""]
    for name in ORDER:
        coq, origin = g.vals[name]
        g.report["guards"][name] = origin
        out.append(emit(name, coq, origin))
    out += gen_status(g)
    text = "\n".join(out) + "\n"
    os.makedirs(os.path.dirname(OUT), exist_ok=True)
    old = open(OUT).read() if os.path.exists(OUT) else None
    if old != text:
        with open(OUT, "w") as f:
            f.write(text)
    rep = g.report
    rep["changed"] = old != text
    rep["from_source"] = sum(1 for v in rep["guards"].values() if v == "source")
    rep["total"] = len(rep["guards"])
    return rep


if __name__ == "__main__":
    print(json.dumps(regenerate(), indent=1))
