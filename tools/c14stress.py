#!/usr/bin/env python3
"""C14, free-running phase: T threads execute request lists against ONE TransitData with no forced scheduling
(harness/l2.cpp op `stress`), over 2-3 scenarios, in both cache modes, many short rounds each on a FRESH TransitData
(the interesting window is right after a connection set is published).  Every response is compared with the sequential
response of the same request (harness run sequentially + the extracted model).  The same phase is run on a harness built
with -fsanitize=thread: every ThreadSanitizer report that is not suppressed BY NAME below is a violation.

The forced schedules of check_hist.py park threads at the four yield points of getConnectionsForScenario: a defect that
needs two requests to overlap AFTER the publish (e.g. a published set that is still mutated by its first users) is
invisible to them; this phase is what sees it."""
import os, re, sys, time, shutil, hashlib, subprocess
from concurrent.futures import ThreadPoolExecutor
import build, checklib as cl, gen
import run as runner
from check_c12 import parse_case

# a few hundred connections: building a set and scanning it take measurable time
BIG = dict(pos_hops=True, transferable=False, nmin=8, nmax=14, lmax=14, tmax=12, loops=0.15, forbid=0.05, pfp=0.1,
           maxfws=[-1, -1, -1, -1, 600], njourneys=0)

# ThreadSanitizer suppressions, BY NAME (type:function-or-object substring), each with the reason.  Empty: the unchanged
# tree gives no report in this phase (the request-id counters of transit_routing_http_server.cpp are not part of the L2
# harness; the harness's log sink keeps no shared state).
SUPPRESSIONS = [
]

RELEVANT = re.compile(r"ConnectionSet|ScenarioConnectionCache|TransitData|Calculator|l2\.cpp")

SIZES = {
    # small/big: number of datasets; rounds: fresh TransitData objects per dataset and cache mode (the router's per-request
    # tables are sized by process-wide uid counters that grow with every TransitData built, so rounds per process stay small)
    "quick": dict(small=60, big=14, rounds=36, tsan_small=24, tsan_big=8, tsan_rounds=10, workers=4),
    "thorough": dict(small=900, big=150, rounds=60, tsan_small=400, tsan_big=100, tsan_rounds=12, workers=6),
}


def norm(line):
    return line.split(" | opt")[0].strip()


def scen_of(op):
    return op.split()[1]


def with_scen(op, s):
    t = op.split()
    t[1] = str(s)
    return " ".join(t)


def is_alt(op):
    t = op.split()
    return t[0] == "route" and t[10] == "1"


def plan(rng, qops, big):
    """(ops, T, lists, Y, J, pattern): <= 10 requests spread over 2-3 scenarios and one request list of 6 per thread"""
    n = min(len(qops), 10)
    ops = rng.sample(qops, n)
    # alternatives recalculate (and re-fetch the set) many times: keep a few of them only
    nalt = 0
    for i, o in enumerate(ops):
        if is_alt(o):
            nalt += 1
            if nalt > (1 if big else 2):
                t = o.split()
                t[10] = "0"
                ops[i] = " ".join(t)
    scens = rng.sample([1, 2, 3, 4], 2 if rng.chance(0.5) else 3)
    if 1 not in scens and rng.chance(0.7):
        scens[0] = 1          # the unrestricted scenario: the largest sets
    for i in range(n):
        ops[i] = with_scen(ops[i], scens[i % len(scens)] if i < len(scens) or rng.chance(0.7) else rng.choice(scens))
    by = {}
    for i, o in enumerate(ops):
        by.setdefault(scen_of(o), []).append(i)
    keys = sorted(by)
    T = rng.choice([4, 5, 6, 6, 8])
    L = 6
    pat = rng.choice(["random", "same_start", "split", "late_hit"])
    lists = []
    for t in range(T):
        if pat == "random":
            l = [rng.randint(0, n - 1) for _ in range(L)]
        elif pat == "same_start":
            # everybody misses on the same scenario, the sets replace each other, the second requests hit the last one
            x = keys[0]
            l = [rng.choice(by[x]), rng.choice(by[x])] + [rng.randint(0, n - 1) for _ in range(L - 2)]
        elif pat == "split":
            # two groups alternate between two scenarios in opposite phase: the one-entry cache is replaced while the other
            # group still computes on the older set
            x, y = keys[0], keys[1 % len(keys)]
            a, b = (x, y) if t % 2 == 0 else (y, x)
            l = [rng.choice(by[a if k % 2 == 0 else b]) for k in range(L)]
        else:
            # two threads publish, the others arrive on the published set after one request on another scenario
            x, y = keys[0], keys[-1]
            if t < 2:
                l = [rng.choice(by[x]) for _ in range(L)]
            else:
                l = [rng.choice(by[y])] + [rng.choice(by[x]) for _ in range(L - 2)] + [rng.choice(by[y])]
        lists.append(l)
    Y = rng.choice([0, 10, 30, 60])
    J = rng.choice([0, 0, 20, 100])
    return ops, T, lists, Y, J, pat


def stress_line(T, R, Y, J, n, lists):
    return "stress %d %d %d %d %d %s" % (T, R, Y, J, n, " ".join("%d %s" % (len(l), " ".join(map(str, l))) for l in lists))


def write_cases(d, name, ds, ops, T, lists, Y, J, rounds, tsan_rounds, pat):
    seq = os.path.join(d, name + ".seq.case")
    st = os.path.join(d, name + ".stress.case")
    ts = os.path.join(d, name + ".tsan.case")
    head = ["# C14 free-running phase: pattern %s, %d threads, lists rotated in odd rounds" % (pat, T)]
    with open(seq, "w") as f:
        f.write("\n".join(ds + ops) + "\n")
    with open(st, "w") as f:
        f.write("\n".join(head + ds + [stress_line(T, rounds, Y, J, len(ops), lists)] + ops) + "\n")
    with open(ts, "w") as f:
        f.write("\n".join(head + ds + [stress_line(T, tsan_rounds, Y, J, len(ops), lists)] + ops) + "\n")
    return dict(name=name, seq=seq, stress=st, tsan=ts, n=len(ops), T=T, ops=ops)


def split_stress_case(path):
    """(ds, stress tokens, ops) of a stress case file"""
    ds, ops = parse_case(path)
    st = [o for o in ops if o.split()[0] == "stress"]
    q = [o for o in ops if o.split()[0] in ("route", "access")]
    return ds, (st[0].split() if st else None), q


def run_stress(binary, case, mode, outdir, tsan_supp=None, timeout=300):
    """runs one stress case; returns dict(rc, header, rows=[(idx,count,round,thread,response)], done, raw, reports)"""
    env = dict(os.environ)
    env.pop("L2_CACHE_ALL", None)
    if mode == "all":
        env["L2_CACHE_ALL"] = "1"
    base = os.path.join(outdir, os.path.basename(case) + "." + mode)
    logp = None
    if tsan_supp is not None:
        logp = base + ".tsanlog"
        for f in os.listdir(outdir):
            if f.startswith(os.path.basename(logp)):
                os.remove(os.path.join(outdir, f))
        env["TSAN_OPTIONS"] = "suppressions=%s:log_path=%s:halt_on_error=0:exitcode=0:history_size=5:second_deadlock_stack=1:print_suppressions=1" % (tsan_supp, logp)
    try:
        r = subprocess.run([binary, case], stdout=subprocess.PIPE, stderr=subprocess.PIPE, timeout=timeout, env=env)
        rc, outb, errb = r.returncode, r.stdout, r.stderr
    except subprocess.TimeoutExpired as e:
        rc, outb, errb = -9, (e.stdout or b""), (e.stderr or b"")
    raw = outb.decode("utf-8", "replace")
    with open(base + ".out", "w") as f:
        f.write(raw)
    res = dict(rc=rc, header=None, rows=[], done=False, raw=raw, reports=[], matched=[], tool_error=None, case=case, mode=mode,
               stderr=errb.decode("utf-8", "replace")[-2000:])
    for line in raw.splitlines():
        t = line.split()
        if not t:
            continue
        if t[0] == "stress" and len(t) == 4 and t[1] != "done":
            res["header"] = (int(t[1]), int(t[2]), int(t[3]))
        elif line.strip() == "stress done":
            res["done"] = True
        elif t[0] == "sr" and " | " in line:
            headp, resp = line.split(" | ", 1)
            h = headp.split()
            res["rows"].append((int(h[1]), int(h[2]), int(h[3]), int(h[4]), resp))
    if logp is not None:
        text = res["stderr"]
        for f in sorted(os.listdir(outdir)):
            if f.startswith(os.path.basename(logp)):
                text += open(os.path.join(outdir, f), errors="replace").read()
        res["reports"], res["matched"], res["tool_error"] = parse_tsan(text)
    return res


def parse_tsan(text):
    """(reports, matched suppressions, tool error) from ThreadSanitizer's log"""
    reports = []
    for block in re.split(r"^==================\s*$", text, flags=re.M):
        if "WARNING: ThreadSanitizer:" in block:
            reports.append(block.strip())
    matched = []
    m = re.search(r"ThreadSanitizer: Matched \d+ suppressions.*?\n((?:\s*\d+ \S+.*\n?)+)", text)
    if m:
        for l in m.group(1).splitlines():
            t = l.split()
            if len(t) >= 2 and t[0].isdigit():
                matched.append((t[1], int(t[0])))
    err = None
    m = re.search(r"^(?:==\d+==)?\s*(FATAL|ERROR): ThreadSanitizer.*$", text, flags=re.M)
    if m:
        err = m.group(0).strip()
    return reports, matched, err


def report_kind(rep):
    m = re.search(r"WARNING: ThreadSanitizer: ([^\n(]+)", rep)
    return m.group(1).strip() if m else "report"


def report_where(rep):
    """the innermost trRouting / harness frame of the first stack"""
    for l in rep.splitlines():
        m = re.match(r"\s*#\d+ (.*?) (\S+:\d+)(?::\d+)? \(\S+\)$", l)
        if m and not m.group(1).startswith(("std::", "__gnu_cxx::", "void std::")) and ("TrRouting::" in m.group(1) or "l2.cpp" in m.group(2)):
            return "%s %s" % (re.sub(r"\(.*", "", m.group(1)), m.group(2))
    return report_summary(rep)


def report_summary(rep):
    m = re.search(r"SUMMARY: ThreadSanitizer: (.*)", rep)
    return m.group(1).strip() if m else report_kind(rep)


def report_digest(rep, per_stack=7):
    """the section headers of a report and, of every stack, the frames in trRouting / the harness (long template names cut)"""
    out = []
    kept = 0
    for l in rep.splitlines():
        st = l.strip()
        if not st:
            continue
        m = re.match(r"#(\d+) (.*?) (\S+:\d+)(?::\d+)? \(\S+\)$", st)
        if m:
            fn, loc = m.group(2), m.group(3)
            if ("TrRouting::" in fn or "l2.cpp" in loc) and kept < per_stack and not fn.startswith(("std::", "__gnu_cxx::", "void std::")):
                fn = re.sub(r"\(.*", "(...)", fn) if len(fn) > 90 else fn
                out.append("      #%s %s %s" % (m.group(1), fn[:120], loc))
                kept += 1
        elif st.startswith("#"):
            continue
        elif st.startswith(("WARNING: ThreadSanitizer", "SUMMARY:")):
            out.append("  " + st[:260])
        elif st.endswith(":") or st.startswith(("Location is", "Mutex ")):
            out.append("    " + st[:200])
            kept = 0
            if st.startswith("Thread T") or st.startswith("Location is"):
                kept = per_stack - 1 if st.startswith("Location is") else per_stack
    return out


def supp_text():
    lines = ["# written by tools/c14stress.py: ThreadSanitizer reports of the unchanged tree that are not about the shared",
             "# connection cache, suppressed by name"]
    for (kind, name, why) in SUPPRESSIONS:
        lines.append("# " + why)
        lines.append("%s:%s" % (kind, name))
    return "\n".join(lines) + "\n"


def check_result(res, refs, plain):
    """failures of one stress run against the sequential references refs[idx] = (impl, model)"""
    fails = []
    label = "free-running" if plain else "free-running under ThreadSanitizer"
    if not res["done"] or res["header"] is None:
        first = (res["raw"].strip().splitlines() or ["<no output>"])[-1]
        fails.append(("%s run did not complete (exit %s): %s" % (label, res["rc"], first[:120]), dict(res=res)))
        return fails
    for (idx, count, rnd, thr, resp) in res["rows"]:
        impl, model = refs[idx]
        if norm(resp) != norm(impl):
            fails.append(("response of a concurrent request differs from the sequential response of the same request (%s, %d of the responses to request #%d, first in round %d thread %d)" % (label, count, idx, rnd, thr),
                          dict(res=res, idx=idx, got=resp, impl=impl, model=model)))
        elif norm(resp) != norm(model):
            fails.append(("response differs from the answer of a fresh server (model of the state machine) (%s, request #%d)" % (label, idx),
                          dict(res=res, idx=idx, got=resp, impl=impl, model=model)))
    return fails


def run(l2, driver, seed, tier, d, base_cases, only=None, repeats=1):
    """only: a stress case file to replay (its own round count) instead of generated ones.
    Returns dict(fails=[(why, info)], rounds, responses, tsan_rounds, tsan_reports, tsan_suppressions, unchecked, ...)"""
    t0 = time.time()
    sz = SIZES[tier]
    shutil.rmtree(d, ignore_errors=True)
    os.makedirs(d, exist_ok=True)
    rng = gen.Rng(seed * 7919 + 14)
    items = []
    if only:
        ds, st, q = split_stress_case(only)
        T, R, Y, J, n = [int(x) for x in st[1:6]]
        lists, p = [], 6
        for _ in range(T):
            k = int(st[p])
            lists.append([int(x) for x in st[p + 1:p + 1 + k]])
            p += 1 + k
        it = write_cases(d, "replay", ds, q, T, lists, Y, J, R, min(R, SIZES["thorough"]["tsan_rounds"]), "replay")
        it["big"] = False
        items.append(it)
        tsan_items = list(items)
    else:
        small = [c for c in base_cases][:sz["small"]]
        srcs = [(c, False) for c in small]
        for i in range(sz["big"]):
            p = os.path.join(d, "big%03d.src" % i)
            with open(p, "w") as f:
                f.write(gen.gen_case(rng.fork(), BIG, 12))
            srcs.append((p, True))
        for i, (c, big) in enumerate(srcs):
            ds, ops = parse_case(c)
            qops = [o for o in ops if o.split()[0] in ("route", "access")]
            if len(qops) < 4:
                continue
            ops2, T, lists, Y, J, pat = plan(rng, qops, big)
            it = write_cases(d, "f%04d%s" % (i, "b" if big else ""), ds, ops2, T, lists, Y, J, sz["rounds"], sz["tsan_rounds"], pat)
            it["big"] = big
            items.append(it)
        smalls = [it for it in items if not it["big"]]
        bigs = [it for it in items if it["big"]]
        tsan_items = smalls[:sz["tsan_small"]] + bigs[:sz["tsan_big"]]
    out = dict(fails=[], rounds=0, responses=0, tsan_rounds=0, tsan_responses=0, tsan_reports=0, tsan_report_kinds={},
               tsan_suppressions=["%s:%s (%s)" % s for s in SUPPRESSIONS], tsan_suppressions_matched={}, unchecked=None,
               datasets=len(items), big_datasets=sum(1 for it in items if it["big"]), tsan_datasets=len(tsan_items),
               threads=sorted(set(it["T"] for it in items)))
    # sequential references: the harness on the same requests one after the other + the model
    recs = runner.run_batch([it["seq"] for it in items], l2, driver, os.path.join(d, "seq.out"))
    refs = {}
    for r in recs:
        refs.setdefault(r["case"], {})[r["idx"]] = (r["impl"], r["model"])
    for it in items:
        it["refs"] = refs.get(it["seq"], {})
        for i in range(it["n"]):
            impl, model = it["refs"].get(i, ("<missing>", "<missing>"))
            if norm(impl) != norm(model):
                out["fails"].append(("sequential response differs from the answer of a fresh server (model of the state machine), request #%d" % i,
                                     dict(item=it, idx=i, got=impl, impl=impl, model=model, mode="one", plain=True)))
    items = [it for it in items if len(it["refs"]) >= it["n"]]
    # plain build
    pdir = os.path.join(d, "plain.out")
    os.makedirs(pdir, exist_ok=True)
    jobs = [(it, mode) for _ in range(repeats) for it in items for mode in ("one", "all")]
    bad_plain = [0]

    def plain_job(j):
        if bad_plain[0] >= 8:      # a broken tree: enough failing runs to report
            return None
        res = run_stress(l2, j[0]["stress"], j[1], pdir)
        if check_result(res, j[0]["refs"], True):
            bad_plain[0] += 1
        return res
    with ThreadPoolExecutor(max_workers=sz["workers"]) as ex:
        results = list(ex.map(plain_job, jobs))
    for (it, mode), res in zip(jobs, results):
        if res is None:
            out["skipped_after_failures"] = out.get("skipped_after_failures", 0) + 1
            continue
        if res["header"]:
            out["rounds"] += res["header"][1]
            out["responses"] += res["header"][2]
        for why, info in check_result(res, it["refs"], True):
            info.update(item=it, mode=mode, plain=True)
            out["fails"].append((why, info))
    out["plain_wall_s"] = round(time.time() - t0, 1)
    # ThreadSanitizer build
    t1 = time.time()
    ts_bin, e = build.build_l2(tsan=True)
    out["tsan_build_s"] = round(time.time() - t1, 1)
    if e:
        out["unchecked"] = ("ThreadSanitizer build of the harness", e)
        return out
    supp = os.path.join(d, "tsan.supp")
    with open(supp, "w") as f:
        f.write(supp_text())
    tdir = os.path.join(d, "tsan.out")
    os.makedirs(tdir, exist_ok=True)
    tsan_items = [it for it in tsan_items if it in items]
    jobs = [(it, mode) for it in tsan_items for mode in ("one", "all")]
    bad_runs = [0]

    def tsan_job(j):
        # a tree with a race gives hundreds of reports (slow to symbolise): three runs with reports are enough
        if bad_runs[0] >= 3:
            return None
        res = run_stress(ts_bin, j[0]["tsan"], j[1], tdir, tsan_supp=supp, timeout=600)
        if res["reports"] or not res["done"]:
            bad_runs[0] += 1
        return res
    with ThreadPoolExecutor(max_workers=sz["workers"]) as ex:
        results = list(ex.map(tsan_job, jobs))
    for (it, mode), res in zip(jobs, results):
        if res is None:
            out["tsan_skipped_after_reports"] = out.get("tsan_skipped_after_reports", 0) + 1
            continue
        if res["header"]:
            out["tsan_rounds"] += res["header"][1]
            out["tsan_responses"] += res["header"][2]
        for name, cnt in res["matched"]:
            out["tsan_suppressions_matched"][name] = out["tsan_suppressions_matched"].get(name, 0) + cnt
        if res["tool_error"] and not res["reports"] and not res["done"]:
            out["unchecked"] = ("ThreadSanitizer run of the free-running phase", res["tool_error"] + "\n" + res["stderr"])
            continue
        out["tsan_reports"] += len(res["reports"])
        for rep in res["reports"]:
            k = report_kind(rep)
            out["tsan_report_kinds"][k] = out["tsan_report_kinds"].get(k, 0) + 1
        if res["reports"]:
            rep = res["reports"][0]
            names = sorted(set(RELEVANT.findall(rep)))
            out["fails"].append(("ThreadSanitizer: %s (%s)%s; %d report(s) in this run" % (report_kind(rep), report_where(rep)[:160],
                                 (" involving " + ", ".join(names)) if names else "", len(res["reports"])),
                                 dict(item=it, mode=mode, plain=False, res=res, report=rep)))
        for why, info in check_result(res, it["refs"], False):
            info.update(item=it, mode=mode, plain=False)
            out["fails"].append((why, info))
    out["tsan_wall_s"] = round(time.time() - t1, 1)
    out["wall_s"] = round(time.time() - t0, 1)
    # ThreadSanitizer findings first: they name the two accesses
    out["fails"].sort(key=lambda f: 0 if "report" in f[1] else 1)
    return out


def write_replay(pid, why, info):
    """replay = the stress case (dataset + stress operation + its requests), the reason and the first report as comments"""
    it = info["item"]
    src = it["stress"] if info.get("plain", True) else it["tsan"]
    body = open(src).read()
    os.makedirs(os.path.join(cl.REPLAYS, pid), exist_ok=True)
    h = hashlib.sha256((body + why).encode()).hexdigest()[:12]
    path = os.path.join(cl.REPLAYS, pid, "%s-%s.case" % (pid, h))
    with open(path, "w") as f:
        f.write("# replay for %s: %s\n" % (pid, why))
        f.write("# cache mode: %s; harness build: %s; re-run: ./check %s --replay <this file> (free-running: several repetitions)\n" %
                (info.get("mode"), "plain" if info.get("plain", True) else "-fsanitize=thread", pid))
        if "idx" in info:
            f.write("# request #%d: %s\n# got       : %s\n# sequential: %s\n# model     : %s\n" %
                    (info["idx"], it["ops"][info["idx"]][:400], info["got"][:600], info["impl"][:600], info["model"][:600]))
        if info.get("report"):
            f.write("# first ThreadSanitizer report, digest (frames in trRouting and in the harness):\n")
            for l in report_digest(info["report"]):
                f.write("# " + l + "\n")
            f.write("# first ThreadSanitizer report, full text:\n")
            for l in info["report"].splitlines()[:120]:
                f.write("#   " + l + "\n")
        elif info.get("res") is not None and not info["res"]["done"]:
            f.write("# output of the run that did not complete (exit %s):\n" % info["res"]["rc"])
            for l in (info["res"]["raw"].splitlines()[-5:] + info["res"]["stderr"].splitlines()[-20:]):
                f.write("#   " + l[:300] + "\n")
        f.write(body)
    return path


def describe(why, info):
    it = info["item"]
    lines = ["  %s" % why, "  cache mode: %s, %d threads, case %s" % (info.get("mode"), it["T"], os.path.basename(it["stress"]))]
    if "idx" in info:
        lines += ["  op        : %s" % it["ops"][info["idx"]][:300], "  got       : %s" % info["got"][:300],
                  "  sequential: %s" % info["impl"][:300], "  model     : %s" % info["model"][:300]]
    if info.get("report"):
        lines += report_digest(info["report"])
    return "\n".join(lines)
