#!/usr/bin/env python3
"""Translator, stage 2: regenerates coq/gen/Guards.v from the CURRENT sources of the four scan functions
(forward_calculation.cpp, reverse_calculation.cpp): the boolean condition of every `if`/`break` of the scan loops
and of the best-egress / best-access selection, and the integer expressions written into the labels, each as a Coq
function of the quantities it mentions.  Proofs/GuardsTie.v proves that the model's step functions (Scan.v) are
exactly the control skeleton instantiated with THESE generated guards, so a change of a relational operator, a
dropped or added conjunct, a changed sentinel in the source breaks a proof obligation on the next run.

Method: comment-stripped function body -> ordered list of `if (...)` conditions (balanced parentheses) -> atoms
(C++ sub-expressions with a fixed meaning, longest first) replaced by variables -> a small recursive-descent parser
for  || && ! == != < <= > >= + - and integer literals -> Coq boolean / Z expression.  Anything the parser does not
know makes that guard fall back to the committed hand-written definition (reported as `fallback`; no alarm by
itself: the behavioural correspondence still decides)."""
import os, re, sys, json

HERE = os.path.dirname(os.path.abspath(__file__))
VERIF = os.path.dirname(HERE)
REPO = os.environ.get("TRV_REPO", "/repo")
OUT = os.path.join(VERIF, "coq", "gen", "Guards.v")


def strip_c_comments(s):
    s = re.sub(r"/\*.*?\*/", " ", s, flags=re.S)
    s = re.sub(r"//[^\n]*", " ", s)
    return s


def fn_body(src, sig):
    i = src.index(sig)
    j = src.index("{", i)
    depth = 0
    for k in range(j, len(src)):
        if src[k] == "{":
            depth += 1
        elif src[k] == "}":
            depth -= 1
            if depth == 0:
                return src[j:k + 1]
    raise ValueError("unbalanced braces after " + sig)


def conditions(body):
    out = []
    for m in re.finditer(r"\bif\s*\(", body):
        i = m.end() - 1
        depth = 0
        for k in range(i, len(body)):
            if body[k] == "(":
                depth += 1
            elif body[k] == ")":
                depth -= 1
                if depth == 0:
                    out.append("".join(body[i + 1:k].split()))
                    break
    return out


def assignment(body, lhs_regex):
    m = re.search(lhs_regex + r"\s*=(?!=)(.*?);", body, flags=re.S)
    if not m:
        raise ValueError("assignment not found: " + lhs_regex)
    return "".join(m.group(1).split())


# ------------------------------------------------------------------------------------------------
# atoms: whitespace-free C++ text -> (Coq variable, type)

B, Z = "bool", "Z"
ATOMS_COMMON = {
    "(*connection).get().getDepartureTime()": ("cdep", Z),
    "(*connection).get().getArrivalTime()": ("carr", Z),
    "(*connection).get().canBoard()": ("cb", B),
    "(*connection).get().canUnboard()": ("cu", B),
    "connectionDepartureTime": ("cdep", Z),
    "connectionArrivalTime": ("carr", Z),
    "connectionMinWaitingTimeSeconds": ("minw", Z),
    "departureTimeSeconds": ("kdep", Z),
    "arrivalTimeSeconds": ("karr", Z),
    "isTripDisabled(trip.uid)": ("disabled", B),
    "parameters.getMaxTotalTravelTimeSeconds()": ("maxtt", Z),
    "parameters.getMaxFirstWaitingTimeSeconds()": ("maxfw", Z),
    "parameters.getMaxTransferWalkingTravelTimeSeconds()": ("maxtr", Z),
    "footpathTravelTime": ("w", Z),
    "parameters.getMinWaitingTimeSeconds()": ("qminw", Z),
    "MAX_INT": ("MAX_INT", Z),
}
ATOMS_FWD = dict(ATOMS_COMMON, **{
    "minAccessTravelTime": ("minacc", Z),
    "reachedAtLeastOneEgressNode": ("reached", B),
    "maxEgressTravelTime": ("maxegr", Z),
    "tentativeEgressNodeArrivalTime": ("tent", Z),
    "nodesAccessIte!=nodesAccess.end()": ("acc_found", B),
    "nodesAccessIte->second.time": ("acc_time", Z),
    "forwardJourneysSteps.at(nodeDeparture.uid).getFinalEnterConnection().has_value()": ("step_has_enter", B),
    "tripEnterConnection.has_value()": ("enter_some", B),
    "currentTripQueryOverlay.enterConnection.has_value()": ("enter1_some", B),
    "nodeDepartureTentativeTime": ("tdep", Z),
    "nodeWasAccessedFromOrigin": ("accessed", B),
    "nodeArrivalInNodesEgressIte!=nodesEgress.end()": ("egr_found", B),
    "nodeArrivalInNodesEgressIte->second.time": ("egr_time", Z),
    "nodeArrival!=transferableNode.node": ("NOTsame", B),
    "nodeArrival==transferableNode.node": ("same", B),
    "currentTransferablenNodesTentativeTime": ("tm", Z),
    "forwardEgressJourneysSteps.count(transferableNode.node.uid)==0": ("lab_none", B),
    "forwardEgressJourneysSteps.at(transferableNode.node.uid).getFinalExitConnection().value().get().getArrivalTime()": ("lab_arr", Z),
    "egressNodeArrivalTime": ("t", Z),
    "bestArrivalTime": ("best", Z),
    "egressExitConnection.value().get().getArrivalTime()": ("exit_arr", Z),
    "egress.time": ("row_time", Z),
})
ATOMS_REV = dict(ATOMS_COMMON, **{
    "minEgressTravelTime": ("minegr", Z),
    "currentTripQueryOverlay.usable": ("usable", B),
    "reachedAtLeastOneAccessNode": ("reached", B),
    "maxAccessTravelTime": ("maxacc", Z),
    "tentativeAccessNodeDepartureTime": ("tent", Z),
    "tripExitConnection.has_value()": ("exit_some", B),
    "currentTripQueryOverlay.exitConnection.has_value()": ("exit1_some", B),
    "nodeArrivalTentativeTime": ("tarr", Z),
    "reverseStepAtArrival.getFinalEnterConnection().has_value()": ("rs_has_enter", B),
    "reverseStepAtArrival.getTransferTravelTime()": ("rs_walk", Z),
    "currentTripQueryOverlay.exitConnectionTransferTravelTime": ("exit_w", Z),
    "journeyConnectionMinWaitingTimeSeconds": ("jminw", Z),
    "nodeDepartureInNodesAccessIte!=nodesAccess.end()": ("acc_found", B),
    "nodeDepartureInNodesAccessIte->second.time": ("acc_time", Z),
    "nodeDeparture!=transferableNode.node": ("NOTsame", B),
    "nodeDeparture==transferableNode.node": ("same", B),
    "nodesReverseTentativeTime.at(transferableNode.node.uid)": ("tm", Z),
    "reverseAccessJourneysSteps.count(transferableNode.node.uid)==0": ("lab_none", B),
    "reverseAccessJourneysSteps.at(transferableNode.node.uid).getFinalEnterConnection().value().get().getDepartureTime()": ("lab_dep", Z),
    "reverseAccessJourneysSteps.at(transferableNode.node.uid).getFinalEnterConnection().value().get().getMinWaitingTimeOrDefault(parameters.getMinWaitingTimeSeconds())": ("lab_minw", Z),
    "accessNodeDepartureTime": ("t", Z),
    "bestDepartureTime": ("best", Z),
    "accessEnterConnection.value().get().getDepartureTime()": ("enter_dep", Z),
    "access.time": ("row_time", Z),
    "accessEnterConnectionMinWaitingTimeSeconds": ("enter_minw", Z),
})


class Untranslatable(Exception):
    pass


def tokenize(text, atoms):
    """text is whitespace-free; returns list of tokens: ('var', name, type) | ('int', n) | ('op', s)"""
    keys = sorted(atoms, key=len, reverse=True)
    toks = []
    i = 0
    while i < len(text):
        for k in keys:
            if text.startswith(k, i):
                # an atom must not be a fragment of a longer identifier
                j = i + len(k)
                if (k[-1].isalnum() or k[-1] == "_") and j < len(text) and (text[j].isalnum() or text[j] == "_"):
                    continue
                if (k[0].isalnum() or k[0] == "_") and i > 0 and (text[i - 1].isalnum() or text[i - 1] in "_."):
                    continue
                name, ty = atoms[k]
                toks.append(("var", name, ty))
                i = j
                break
        else:
            m = re.match(r"(\|\||&&|==|!=|<=|>=|<|>|\+|-|\*|/|!|\(|\))", text[i:])
            if m:
                toks.append(("op", m.group(1)))
                i += len(m.group(1))
                continue
            m = re.match(r"\d+", text[i:])
            if m and (i == 0 or not (text[i - 1].isalnum() or text[i - 1] == "_")):
                toks.append(("int", int(m.group(0))))
                i += len(m.group(0))
                continue
            raise Untranslatable("unknown text at: " + text[i:i + 60])
    return toks


class Parser:
    def __init__(self, toks):
        self.t = toks
        self.i = 0
        self.vars = []

    def peek(self):
        return self.t[self.i] if self.i < len(self.t) else None

    def op(self, *ops):
        p = self.peek()
        if p and p[0] == "op" and p[1] in ops:
            self.i += 1
            return p[1]
        return None

    def parse(self):
        e = self.p_or()
        if self.i != len(self.t):
            raise Untranslatable("trailing tokens")
        return e

    def p_or(self):
        l = self.p_and()
        while self.op("||"):
            r = self.p_and()
            l = (self.want(l, B) and self.want(r, B)) and ("(%s || %s)" % (l[0], r[0]), B)
        return l

    def p_and(self):
        l = self.p_eq()
        while self.op("&&"):
            r = self.p_eq()
            self.want(l, B); self.want(r, B)
            l = ("(%s && %s)" % (l[0], r[0]), B)
        return l

    def p_eq(self):
        l = self.p_rel()
        while True:
            o = self.op("==", "!=")
            if not o:
                return l
            r = self.p_rel()
            if l[1] != r[1]:
                raise Untranslatable("type mismatch in ==")
            e = ("(%s =? %s)" % (l[0], r[0])) if l[1] == Z else ("(Bool.eqb %s %s)" % (l[0], r[0]))
            l = (e if o == "==" else "(negb %s)" % e, B)

    def p_rel(self):
        l = self.p_add()
        o = self.op("<=", ">=", "<", ">")
        if not o:
            return l
        r = self.p_add()
        self.want(l, Z); self.want(r, Z)
        coq = {"<=": "<=?", ">=": ">=?", "<": "<?", ">": ">?"}[o]
        return ("(%s %s %s)" % (l[0], coq, r[0]), B)

    def p_add(self):
        l = self.p_mul()
        while True:
            o = self.op("+", "-")
            if not o:
                return l
            r = self.p_mul()
            self.want(l, Z); self.want(r, Z)
            l = ("(%s %s %s)" % (l[0], o, r[0]), Z)

    def p_mul(self):
        l = self.p_un()
        while True:
            o = self.op("*", "/")
            if not o:
                return l
            r = self.p_un()
            self.want(l, Z); self.want(r, Z)
            # C++ integer division truncates toward zero: Z.quot
            l = (("(%s * %s)" % (l[0], r[0])) if o == "*" else ("(Z.quot %s %s)" % (l[0], r[0])), Z)

    def p_un(self):
        if self.op("!"):
            e = self.p_un()
            self.want(e, B)
            return ("(negb %s)" % e[0], B)
        if self.op("-"):
            e = self.p_un()
            self.want(e, Z)
            return ("(- %s)" % e[0], Z)
        if self.op("("):
            e = self.p_or()
            if not self.op(")"):
                raise Untranslatable("missing )")
            return e
        p = self.peek()
        if p is None:
            raise Untranslatable("unexpected end")
        self.i += 1
        if p[0] == "int":
            return (str(p[1]), Z)
        if p[0] == "var":
            if p[1] == "NOTsame":
                self.vars.append("same")
                return ("(negb same)", B)
            if p[1] != "MAX_INT":
                self.vars.append(p[1])
            return (p[1], p[2])
        raise Untranslatable("unexpected token %r" % (p,))

    @staticmethod
    def want(e, ty):
        if e[1] != ty:
            raise Untranslatable("expected %s, got %s in %s" % (ty, e[1], e[0]))
        return True


def resolve_locals(text, atoms, body, depth=3):
    """A guard may mention a local variable the atom table does not know (a hoisted sub-expression, e.g.
    `earliestBoardingTime`): if the function body assigns it exactly once (`[type] name = expr;`), the definition is
    substituted, up to `depth` levels, so that the guard is still translated and compared instead of falling back."""
    for _ in range(depth):
        try:
            tokenize(text, atoms)
            return text
        except Untranslatable as e:
            m = re.match(r"unknown text at: ([A-Za-z_][A-Za-z0-9_]*)", str(e))
            if not m or body is None:
                raise
            name = m.group(1)
            flat = "".join(body.split())
            defs = re.findall(r"(?:^|[;{}]|int|const|auto|unsigned|long|short|bool)" + re.escape(name) + r"=(?!=)([^;]*);", flat)
            defs = [d for d in defs if name not in d]
            if len(set(defs)) != 1:
                raise Untranslatable("unknown identifier %s (%d candidate definitions)" % (name, len(set(defs))))
            text = re.sub(r"(?<![A-Za-z0-9_.>])" + re.escape(name) + r"(?![A-Za-z0-9_(])", "(" + defs[0] + ")", text)
    tokenize(text, atoms)
    return text


def translate(text, atoms, ty, body=None):
    text = resolve_locals(text, atoms, body)
    p = Parser(tokenize(text, atoms))
    e = p.parse()
    if e[1] != ty:
        # a bare integer used as a condition (count(...)) is not translated
        raise Untranslatable("result type %s, wanted %s" % (e[1], ty))
    return e[0], p.vars


# ------------------------------------------------------------------------------------------------
# the fragments: (name, kind, locator, argument list, hand-written fallback)
# argument lists are fixed (a superset of what today's source mentions) so that both copies of a scan have the
# same type and the tie lemmas in Proofs/GuardsTie.v do not depend on what the translator found.

FWD_ARGS = {
    "first":   [("cdep", Z), ("kdep", Z), ("minacc", Z), ("qminw", Z)],
    "enabled": [("disabled", B)],
    "break":   [("reached", B), ("maxegr", Z), ("tent", Z), ("cdep", Z), ("kdep", Z), ("maxtt", Z)],
    "accessed": [("maxfw", Z), ("acc_found", B), ("acc_time", Z), ("step_has_enter", B)],
    "reach":   [("enter_some", B), ("tdep", Z), ("cdep", Z), ("minw", Z), ("accessed", B), ("maxfw", Z)],
    "board":   [("cb", B), ("enter_some", B)],
    "unboard": [("cu", B), ("enter1_some", B)],
    "egr_reached": [("reached", B), ("egr_found", B), ("egr_time", Z)],
    "fp_skip": [("same", B), ("tm", Z), ("carr", Z)],
    "fp_maxtr": [("w", Z), ("maxtr", Z)],
    "fp_improve": [("w", Z), ("carr", Z), ("tm", Z)],
    "fp_label": [("same", B), ("lab_none", B), ("lab_arr", Z), ("carr", Z)],
    "newtau":  [("w", Z), ("carr", Z)],
    "tent":    [("carr", Z)],
    "best_time": [("exit_arr", Z), ("row_time", Z)],
    "best_ok": [("t", Z), ("kdep", Z), ("maxtt", Z), ("best", Z)],
}
FWD_HAND = {
    "first": "(cdep >=? kdep + minacc)",
    "enabled": "(negb disabled)",
    "break": "((reached && (maxegr >=? 0) && (tent <? MAX_INT) && (cdep >? tent + maxegr)) || (cdep - kdep >? maxtt))",
    "break_all": "(cdep - kdep >? maxtt)",
    "accessed": "((maxfw >? 0) && acc_found && (acc_time >=? 0) && negb step_has_enter)",
    "reach": "((enter_some || (tdep <=? cdep - minw)) && (negb accessed || (cdep - tdep <=? maxfw)))",
    "board": "(cb && negb enter_some)",
    "unboard": "(cu && enter1_some)",
    "egr_reached": "(negb reached && egr_found && negb (egr_time =? -1))",
    "fp_skip": "(negb same && (tm <? carr))",
    "fp_maxtr": "(w <=? maxtr)",
    "fp_improve": "(w + carr <? tm)",
    "fp_label": "(same && (lab_none || (lab_arr >? carr)))",
    "newtau": "(w + carr)",
    "tent": "carr",
    "best_time": "(exit_arr + row_time)",
    "best_ok": "((t >=? 0) && (t - kdep <=? maxtt) && (t <? best) && (t <? MAX_INT))",
}
REV_ARGS = {
    "first":   [("carr", Z), ("karr", Z), ("minegr", Z), ("qminw", Z)],
    "enabled": [("usable", B), ("disabled", B)],
    "break":   [("reached", B), ("maxacc", Z), ("tent", Z), ("carr", Z), ("karr", Z), ("maxtt", Z)],
    "reach":   [("exit_some", B), ("tarr", Z), ("carr", Z)],
    "unboard": [("cu", B)],
    "exit_first": [("exit_some", B)],
    "exit_replace": [("rs_has_enter", B), ("rs_walk", Z), ("exit_w", Z)],
    "exit_replace_time": [("carr", Z), ("jminw", Z), ("tarr", Z)],
    "board":   [("cb", B), ("exit1_some", B)],
    "acc_reached": [("reached", B), ("acc_found", B), ("acc_time", Z)],
    "fp_skip": [("same", B), ("tm", Z), ("cdep", Z), ("minw", Z)],
    "fp_maxtr": [("w", Z), ("maxtr", Z)],
    "fp_improve": [("cdep", Z), ("w", Z), ("minw", Z), ("tm", Z)],
    "fp_label": [("same", B), ("lab_none", B), ("lab_dep", Z), ("lab_minw", Z), ("cdep", Z), ("minw", Z)],
    "acc_after_dep": [("kdep", Z), ("acc_found", B), ("cdep", Z), ("acc_time", Z), ("minw", Z)],
    "acc_cap": [("kdep", Z), ("maxfw", Z), ("cdep", Z), ("acc_time", Z)],
    "newtaur": [("cdep", Z), ("w", Z), ("minw", Z)],
    "tent":    [("cdep", Z), ("minw", Z)],
    "best_time": [("enter_dep", Z), ("row_time", Z), ("enter_minw", Z)],
    "best_ok": [("t", Z), ("karr", Z), ("maxtt", Z), ("best", Z)],
}
REV_HAND = {
    "first": "(carr <=? karr - minegr)",
    "first_all": "(carr <=? karr)",
    "enabled": "(usable && negb disabled)",
    "break": "((reached && (maxacc >=? 0) && (carr <? tent - maxacc)) || (karr - carr >? maxtt))",
    "break_all": "(karr - carr >? maxtt)",
    "reach": "(exit_some || (tarr >=? carr))",
    "unboard": "cu",
    "exit_first": "(negb exit_some)",
    "exit_replace": "(rs_has_enter && (rs_walk >=? 0) && (rs_walk <? exit_w))",
    "exit_replace_time": "(carr + jminw <=? tarr)",
    "board": "(cb && exit1_some)",
    "acc_reached": "(negb reached && acc_found && negb (acc_time =? -1))",
    "fp_skip": "(negb same && (tm >? cdep - minw))",
    "fp_maxtr": "(w <=? maxtr)",
    "fp_improve": "(cdep - w - minw >? tm)",
    "fp_label": "(same && (lab_none || (lab_dep - lab_minw <=? cdep - minw)))",
    "acc_after_dep": "((kdep =? -1) || (acc_found && (cdep - acc_time - minw >=? kdep)))",
    "acc_cap": "((kdep =? -1) || (maxfw <=? 0) || (cdep - kdep - acc_time <=? maxfw))",
    "newtaur": "(cdep - w - minw)",
    "tent": "(cdep - minw)",
    "best_time": "(enter_dep - row_time - enter_minw)",
    "best_ok": "((t >=? 0) && (karr - t <=? maxtt) && (t >? best) && (t <? MAX_INT))",
}

# per source function: expected number of `if` conditions and the index of each guard in that list
FWD_ROUTE = dict(sig="Calculator::forwardCalculation(", count=16, idx={
    "first": 0, "enabled": 1, "break": 2, "reach": 3, "board": 4, "unboard": 5, "egr_reached": 6, "fp_skip": 7,
    "fp_maxtr": 8, "fp_improve": 9, "fp_label": 10, "best_ok": 14})
FWD_ALL = dict(sig="Calculator::forwardCalculationAllNodes(", count=11, idx={
    "first": 0, "enabled": 1, "break": 2, "reach": 3, "board": 4, "unboard": 5, "fp_skip": 6, "fp_maxtr": 7,
    "fp_improve": 8, "fp_label": 9})
REV_ROUTE = dict(sig="Calculator::reverseCalculation(", count=21, idx={
    "first": 0, "enabled": 1, "break": 2, "reach": 3, "unboard": 4, "exit_first": 5, "exit_replace": 6,
    "exit_replace_time": 7, "board": 8, "acc_reached": 9, "fp_skip": 10, "fp_maxtr": 11, "fp_improve": 12,
    "fp_label": 13, "acc_after_dep": 14, "acc_cap": 15, "best_ok": 19})
REV_ALL = dict(sig="Calculator::reverseCalculationAllNodes(", count=16, idx={
    "first": 0, "enabled": 1, "break": 2, "reach": 3, "unboard": 4, "exit_first": 5, "exit_replace": 6,
    "exit_replace_time": 7, "board": 8, "fp_skip": 9, "fp_maxtr": 10, "fp_improve": 11, "fp_label": 12,
    "acc_after_dep": 13, "acc_cap": 14})

ASSIGN = {
    ("fwd", "accessed"): r"nodeWasAccessedFromOrigin",
    ("fwd", "newtau"): r"nodesTentativeTime\[transferableNode\.node\.uid\]",
    ("fwd", "best_time"): r"egressNodeArrivalTime",
    ("fwd", "tent"): r"tentativeEgressNodeArrivalTime",
    ("rev", "tent"): r"tentativeAccessNodeDepartureTime",
    ("rev", "newtaur"): r"nodesReverseTentativeTime\[transferableNode\.node\.uid\]",
    ("rev", "best_time"): r"int\s+accessNodeDepartureTime",
}


def gen_copy(prefix, direction, src, spec, args, hand, atoms, report):
    """returns list of Coq definitions for one source function"""
    defs = []
    try:
        body = fn_body(src, spec["sig"])
        conds = conditions(body)
        shape_ok = len(conds) == spec["count"]
        if not shape_ok:
            report["fallback"].append("%s: %d conditions found, %d expected (function restructured)" % (prefix, len(conds), spec["count"]))
    except Exception as e:
        body, conds, shape_ok = "", [], False
        report["fallback"].append("%s: %s" % (prefix, e))
    for name, arglist in args.items():
        hand_key = name + "_all" if (prefix.endswith("all") and (name + "_all") in hand) else name
        text = None
        if shape_ok:
            if name in spec["idx"]:
                text = conds[spec["idx"][name]]
            elif (direction, name) in ASSIGN:
                try:
                    text = assignment(body, ASSIGN[(direction, name)])
                except Exception:
                    text = None
        ty = Z if name in ("newtau", "newtaur", "best_time", "tent") else B
        expr, origin = None, "hand"
        if text is not None:
            try:
                expr, used = translate(text, atoms, ty, body)
                names = [a for a, _ in arglist]
                bad = [v for v in used if v not in names]
                if bad:
                    raise Untranslatable("mentions %s, not an argument of this guard" % ", ".join(sorted(set(bad))))
                origin = "source"
            except Untranslatable as e:
                report["fallback"].append("%s_%s: %s" % (prefix, name, e))
                expr = None
        if expr is None:
            expr = hand[hand_key]
        report["guards"]["%s_%s" % (prefix, name)] = origin
        params = " ".join("(%s : %s)" % (a, t) for a, t in arglist)
        rty = "Z" if ty == Z else "bool"
        defs.append("Definition gen_%s_%s %s : %s :=\n  %s.   (* %s *)" % (prefix, name, params, rty, expr, origin))
    return defs


ATOMS_ALT = {
    "alternativesCalculatedCount": ("count", Z),
    "maxAlternatives": ("maxalt", Z),
    "alternativeSequence": ("seq", Z),
    "parameters.getMaxValidAlternatives()": ("maxvalid", Z),
}


def gen_alt(report):
    """alternatives_routing.cpp: initial values of the two counters and the condition under which one more
    alternative is calculated"""
    defs = []
    hand = dict(seq_init="1", count_init="1", cont="((count <? maxalt) && (seq - 1 <? maxvalid))")
    vals = dict(hand)
    origin = dict(seq_init="hand", count_init="hand", cont="hand")
    try:
        src = strip_c_comments(open(os.path.join(REPO, "connection_scan_algorithm/src/alternatives_routing.cpp")).read())
        for key, var in (("seq_init", "alternativeSequence"), ("count_init", "alternativesCalculatedCount")):
            m = re.search(r"\bint\s+" + var + r"\s*(?:=\s*(-?\d+)|\{\s*(-?\d+)\s*\})\s*;", src)
            if m:
                v = int(m.group(1) if m.group(1) is not None else m.group(2))
                vals[key] = str(v) if v >= 0 else "(%d)" % v
                origin[key] = "source"
            else:
                report["fallback"].append("alt_%s: declaration not found" % key)
        conds = [c for c in conditions(src) if "alternativeSequence" in c and "alternativesCalculatedCount" in c]
        if len(conds) == 1:
            try:
                expr, used = translate(conds[0], ATOMS_ALT, B)
                vals["cont"] = expr
                origin["cont"] = "source"
            except Untranslatable as e:
                report["fallback"].append("alt_cont: %s" % e)
        else:
            report["fallback"].append("alt_cont: %d candidate conditions" % len(conds))
    except Exception as e:
        report["fallback"].append("alt: %s" % e)
    for k in ("seq_init", "count_init", "cont"):
        report["guards"]["alt_" + k] = origin[k]
    defs.append("Definition gen_alt_seq_init : Z := %s.   (* %s *)" % (vals["seq_init"], origin["seq_init"]))
    defs.append("Definition gen_alt_count_init : Z := %s.   (* %s *)" % (vals["count_init"], origin["count_init"]))
    defs.append("Definition gen_alt_cont (count : Z) (maxalt : Z) (seq : Z) (maxvalid : Z) : bool :=\n  %s.   (* %s *)" % (vals["cont"], origin["cont"]))
    return defs


ATOMS_ENTRY = {
    "departureTimeSeconds": ("kdep", Z), "arrivalTimeSeconds": ("karr", Z),
    "minAccessTravelTime": ("minacc", Z), "minEgressTravelTime": ("minegr", Z),
    "parameters.getMinWaitingTimeSeconds()": ("qminw", Z),
    "maxAccessTravelTime": ("maxacc", Z), "maxEgressTravelTime": ("maxegr", Z),
}


def gen_entry(report, fsrc, rsrc):
    """the hour slot through which each scan enters its connection list"""
    defs = []
    specs = [("fwd", fsrc, FWD_ROUTE["sig"], "departureTimeHour", "getForwardConnectionsBeginAtDepartureHour", "(Z.quot kdep 3600)"),
             ("fwdall", fsrc, FWD_ALL["sig"], "departureTimeHour", "getForwardConnectionsBeginAtDepartureHour", "(Z.quot kdep 3600)"),
             ("rev", rsrc, REV_ROUTE["sig"], "arrivalTimeHour", "getReverseConnectionsBeginAtArrivalHour", "((Z.quot karr 3600) + 1)"),
             ("revall", rsrc, REV_ALL["sig"], "arrivalTimeHour", "getReverseConnectionsBeginAtArrivalHour", "((Z.quot karr 3600) + 1)")]
    for prefix, src, sig, var, call, hand in specs:
        expr, origin = hand, "hand"
        try:
            body = "".join(fn_body(src, sig).split())
            m = re.search(call + r"\(", body)
            if not m:
                raise Untranslatable("call of %s not found" % call)
            i = m.end() - 1
            depth = 0
            arg = None
            for k in range(i, len(body)):
                if body[k] == "(":
                    depth += 1
                elif body[k] == ")":
                    depth -= 1
                    if depth == 0:
                        arg = body[i + 1:k]
                        break
            if arg is None:
                raise Untranslatable("unbalanced call")
            md = re.search(r"int" + var + r"=(.*?);", body)
            if md and var in arg:
                arg = arg.replace(var, "(" + md.group(1) + ")")
            e, used = translate(arg, ATOMS_ENTRY, Z, fn_body(src, sig))
            expr, origin = e, "source"
        except (Untranslatable, ValueError) as e:
            report["fallback"].append("%s_entry_hour: %s" % (prefix, e))
        report["guards"][prefix + "_entry_hour"] = origin
        defs.append("Definition gen_%s_entry_hour (kdep karr minacc minegr qminw maxacc maxegr : Z) : Z :=\n  %s.   (* %s *)" % (prefix, expr, origin))
    return defs


ATOMS_CMP = {
    "connectionA.get().getDepartureTime()": ("dep_a", Z), "connectionB.get().getDepartureTime()": ("dep_b", Z),
    "connectionA.get().getArrivalTime()": ("arr_a", Z), "connectionB.get().getArrivalTime()": ("arr_b", Z),
    "connectionA.get().getTrip().uuid": ("trip_a", Z), "connectionB.get().getTrip().uuid": ("trip_b", Z),
    "connectionA.get().getSequenceInTrip()": ("seq_a", Z), "connectionB.get().getSequenceInTrip()": ("seq_b", Z),
}
CMP_HAND = {
    "fwd_lt": "((dep_a <? dep_b) || ((negb (dep_a >? dep_b)) && ((trip_a <? trip_b) || ((negb (trip_a >? trip_b)) && ((seq_a <? seq_b) || ((negb (seq_a >? seq_b)) && false))))))",
    "rev_lt": "((arr_a >? arr_b) || ((negb (arr_a <? arr_b)) && ((trip_a >? trip_b) || ((negb (trip_a <? trip_b)) && ((seq_a >? seq_b) || ((negb (seq_a <? seq_b)) && false))))))",
}


def gen_comparators(report):
    """the two std::stable_sort comparators of transit_data.cpp (a cascade of `if (c) return b;` ... `return b;`) as
    boolean formulas: `if c return true; rest` = c || rest, `if c return false; rest` = negb c && rest"""
    defs = []
    names = ["fwd_lt", "rev_lt"]
    bodies = []
    try:
        src = strip_c_comments(open(os.path.join(REPO, "src/transit_data.cpp")).read())
        for m in re.finditer(r"std::stable_sort\s*\(", src):
            j = src.index("{", m.end())
            depth = 0
            for k in range(j, len(src)):
                if src[k] == "{":
                    depth += 1
                elif src[k] == "}":
                    depth -= 1
                    if depth == 0:
                        bodies.append("".join(src[j + 1:k].split()))
                        break
    except Exception as e:
        report["fallback"].append("comparators: %s" % e)
    for idx, name in enumerate(names):
        expr, origin = CMP_HAND[name], "hand"
        try:
            if len(bodies) != 2:
                raise Untranslatable("%d stable_sort comparators found, 2 expected" % len(bodies))
            b = bodies[idx]
            clauses = []
            pos = 0
            final = None
            while pos < len(b):
                m = re.match(r"(?:else)?if\(", b[pos:])
                if m:
                    i = pos + m.end() - 1
                    depth = 0
                    for k in range(i, len(b)):
                        if b[k] == "(":
                            depth += 1
                        elif b[k] == ")":
                            depth -= 1
                            if depth == 0:
                                break
                    cond = b[i + 1:k]
                    m2 = re.match(r"\{?return(true|false);\}?", b[k + 1:])
                    if not m2:
                        raise Untranslatable("comparator clause is not `if (c) return b;`")
                    clauses.append((cond, m2.group(1)))
                    pos = k + 1 + m2.end()
                    continue
                m = re.match(r"return(true|false);", b[pos:])
                if m and pos + m.end() == len(b):
                    final = m.group(1)
                    break
                raise Untranslatable("unexpected comparator text: " + b[pos:pos + 40])
            if final is None:
                raise Untranslatable("no final return")
            e = final
            for cond, val in reversed(clauses):
                c, _ = translate(cond, ATOMS_CMP, B)
                e = ("(%s || %s)" % (c, e)) if val == "true" else ("((negb %s) && %s)" % (c, e))
            expr, origin = e, "source"
        except Untranslatable as e:
            report["fallback"].append("%s: %s" % (name, e))
        report["guards"]["sort_" + name] = origin
        defs.append("Definition gen_%s (dep_a dep_b arr_a arr_b trip_a trip_b seq_a seq_b : Z) : bool :=\n  %s.   (* %s *)" % (name, expr, origin))
    return defs


ATOMS_RESET = {
    "footpathTravelTimeSeconds": ("t", Z), "minAccessTravelTime": ("mn", Z), "maxAccessTravelTime": ("mx", Z),
    "minEgressTravelTime": ("mn", Z), "maxEgressTravelTime": ("mx", Z),
    "departureTimeSeconds": ("kdep", Z), "arrivalTimeSeconds": ("karr", Z), "MAX_INT": ("MAX_INT", Z),
}


def gen_resets(report):
    """Calculator::reset (resets.cpp): the running minimum / maximum of the access and egress walks (conditions, initial
    values, and that each test is an INDEPENDENT `if`, not the `else` branch of the other) and the seeded labels"""
    hand = dict(acc_min="(t <? mn)", acc_max="(t >? mx)", egr_min="(t <? mn)", egr_max="(t >? mx)",
                acc_seed="(kdep + t)", egr_seed="(karr - t)", min_init="MAX_INT", max_init="(- 1)")
    vals, origin = dict(hand), {k: "hand" for k in hand}
    indep = dict(acc="true", egr="true")
    indep_origin = dict(acc="hand", egr="hand")
    try:
        src = strip_c_comments(open(os.path.join(REPO, "connection_scan_algorithm/src/resets.cpp")).read())
        body = fn_body(src, "Calculator::reset(")
        flat = "".join(body.split())
        for side, mnv, mxv in (("acc", "minAccessTravelTime", "maxAccessTravelTime"), ("egr", "minEgressTravelTime", "maxEgressTravelTime")):
            for which, var in (("min", mnv), ("max", mxv)):
                # the `if (...)` whose body assigns var = footpathTravelTimeSeconds
                m = re.search(r"(else)?if\(([^{};]*)\)\{?" + var + r"=footpathTravelTimeSeconds;", flat)
                if not m:
                    report["fallback"].append("reset_%s_%s: update of %s not found" % (side, which, var))
                    continue
                try:
                    e, _ = translate(m.group(2), ATOMS_RESET, B)
                    vals["%s_%s" % (side, which)] = e
                    origin["%s_%s" % (side, which)] = "source"
                    if m.group(1):
                        indep[side] = "false"
                    indep_origin[side] = "source"
                except Untranslatable as ex:
                    report["fallback"].append("reset_%s_%s: %s" % (side, which, ex))
        for key, lhs in (("acc_seed", r"nodesTentativeTime\[accessFootpath\.node\.uid\]"), ("egr_seed", r"nodesReverseTentativeTime\[egressFootpath\.node\.uid\]")):
            try:
                e, _ = translate(assignment(body, lhs), ATOMS_RESET, Z)
                vals[key], origin[key] = e, "source"
            except (Untranslatable, ValueError) as ex:
                report["fallback"].append("reset_%s: %s" % (key, ex))
        inits = {}
        for var in ("minAccessTravelTime", "maxAccessTravelTime", "minEgressTravelTime", "maxEgressTravelTime"):
            m = re.search(r"[;{}]" + var + r"=([^;]*);", flat)
            if m:
                try:
                    inits[var] = translate(m.group(1), ATOMS_RESET, Z)[0]
                except Untranslatable:
                    pass
        if len(inits) == 4 and inits["minAccessTravelTime"] == inits["minEgressTravelTime"] and inits["maxAccessTravelTime"] == inits["maxEgressTravelTime"]:
            vals["min_init"], vals["max_init"] = inits["minAccessTravelTime"], inits["maxAccessTravelTime"]
            origin["min_init"] = origin["max_init"] = "source"
        else:
            report["fallback"].append("reset initial values: %s" % inits)
    except Exception as e:
        report["fallback"].append("resets: %s" % e)
    defs = []
    for k in ("acc_min", "acc_max", "egr_min", "egr_max"):
        report["guards"]["reset_" + k] = origin[k]
        defs.append("Definition gen_reset_%s (t mn mx : Z) : bool :=\n  %s.   (* %s *)" % (k, vals[k], origin[k]))
    for k in ("acc_seed", "egr_seed"):
        report["guards"]["reset_" + k] = origin[k]
        defs.append("Definition gen_reset_%s (kdep karr t : Z) : Z :=\n  %s.   (* %s *)" % (k, vals[k], origin[k]))
    for k in ("min_init", "max_init"):
        report["guards"]["reset_" + k] = origin[k]
        defs.append("Definition gen_reset_%s : Z := %s.   (* %s *)" % (k, vals[k], origin[k]))
    for side in ("acc", "egr"):
        report["guards"]["reset_%s_independent" % side] = indep_origin[side]
        defs.append("Definition gen_reset_%s_tests_independent : bool := %s.   (* %s: neither test is the else-branch of the other *)" % (side, indep[side], indep_origin[side]))
    return defs


def regenerate():
    report = dict(guards={}, fallback=[])
    fsrc = strip_c_comments(open(os.path.join(REPO, "connection_scan_algorithm/src/forward_calculation.cpp")).read())
    rsrc = strip_c_comments(open(os.path.join(REPO, "connection_scan_algorithm/src/reverse_calculation.cpp")).read())
    out = ["(* GENERATED by tools/gen_guards.py from /repo's forward_calculation.cpp / reverse_calculation.cpp - do not edit. *)",
           "From Coq Require Import ZArith Bool.", "Local Open Scope Z_scope.", "Local Open Scope bool_scope.",
           "Definition MAX_INT : Z := 2147483647.   (* include/toolbox.hpp: std::numeric_limits<int>::max() *)", ""]
    # the all-nodes copies have no reached/egress bookkeeping and no best selection: those names fall back to the
    # hand definitions and are not used by the tie
    out += gen_copy("fwd", "fwd", fsrc, FWD_ROUTE, FWD_ARGS, FWD_HAND, ATOMS_FWD, report)
    out += gen_copy("fwdall", "fwd", fsrc, FWD_ALL, {k: v for k, v in FWD_ARGS.items() if k not in ("egr_reached", "best_time", "best_ok", "tent")},
                    FWD_HAND, ATOMS_FWD, report)
    out += gen_copy("rev", "rev", rsrc, REV_ROUTE, REV_ARGS, REV_HAND, ATOMS_REV, report)
    out += gen_copy("revall", "rev", rsrc, REV_ALL, {k: v for k, v in REV_ARGS.items() if k not in ("acc_reached", "best_time", "best_ok", "tent")},
                    REV_HAND, ATOMS_REV, report)
    out += gen_alt(report)
    out += gen_resets(report)
    out += gen_entry(report, fsrc, rsrc)
    out += gen_comparators(report)
    text = "\n".join(out) + "\n"
    os.makedirs(os.path.dirname(OUT), exist_ok=True)
    old = open(OUT).read() if os.path.exists(OUT) else None
    if old != text:
        with open(OUT, "w") as f:
            f.write(text)
    report["changed"] = old != text
    report["from_source"] = sum(1 for v in report["guards"].values() if v == "source")
    report["total"] = len(report["guards"])
    return report


if __name__ == "__main__":
    print(json.dumps(regenerate(), indent=1))
