#!/usr/bin/env python3
"""C17 corpus of crafted corrupt-but-decodable cache directories (corpus/l3/*.json): each is written with the real cache
writer, the REAL server is started on it and asked one request; the request must be answered (well-formed, documented
status) within the time limit and the process must still be alive — a hang or a death is a violation.  Witnesses of defects
found earlier (D13) live here so that they are re-checked on every run."""
import os, sys, json, time, shutil, glob

HERE = os.path.dirname(os.path.abspath(__file__))
sys.path.insert(0, HERE)
import build, gen, l3


def parse_dataset(text):
    """text dataset format of gen.Dataset.text() -> gen.Dataset"""
    ds = gen.Dataset()
    for line in text.strip().split("\n"):
        t = line.split()
        if not t or t[0] in ("dataset", "end"):
            continue
        if t[0] == "nodes":
            ds.nodes = [int(x) for x in t[2:2 + int(t[1])]]
            ds.fp = {n: [] for n in ds.nodes}
            ds.rfp = {n: [] for n in ds.nodes}
        elif t[0] in ("fp", "rfp"):
            n, k = int(t[1]), int(t[2])
            rows = [(int(t[3 + 3 * i]), int(t[4 + 3 * i]), int(t[5 + 3 * i])) for i in range(k)]
            (ds.fp if t[0] == "fp" else ds.rfp)[n] = rows
        elif t[0] == "line":
            ds.lines.append((int(t[1]), int(t[2]), int(t[3])))
        elif t[0] == "path":
            pid, l, k = int(t[1]), int(t[2]), int(t[3])
            nodes = [int(x) for x in t[4:4 + k]]
            nd = int(t[4 + k])
            dists = [int(x) for x in t[5 + k:5 + k + nd]]
            ds.paths.append((pid, l, nodes, dists))
        elif t[0] == "trip":
            tid, pid, sv, k = int(t[1]), int(t[2]), int(t[3]), int(t[4])
            times = [(int(t[5 + 4 * i]), int(t[6 + 4 * i]), int(t[7 + 4 * i]), int(t[8 + 4 * i])) for i in range(k)]
            ds.trips.append((tid, pid, sv, times))
        elif t[0] == "scen":
            sid = int(t[1])
            lists, i = [], 2
            for _ in range(9):
                k = int(t[i])
                lists.append([int(x) for x in t[i + 1:i + 1 + k]])
                i += 1 + k
            ds.scens.append((sid, lists))
    return ds


def run(binary, limit_s=15.0):
    """returns dict(cases=n, fails=[(why, path)])"""
    files = sorted(glob.glob(os.path.join(build.VERIF, "corpus", "l3", "*.json")))
    fails = []
    for path in files:
        c = json.load(open(path))
        ds = parse_dataset(c["dataset"])
        d = os.path.join(build.WORK, "scratch", "c17corpus-%d" % os.getpid(), os.path.basename(path)[:-5])
        shutil.rmtree(d, ignore_errors=True)
        l3.write_cache(ds, d)
        if c.get("fault"):      # e.g. ["flip", "nodes/", 33]: fault kind, file (first file with this prefix), argument
            import faults
            kind, prefix, arg = c["fault"]
            rel = sorted(f for f in faults.list_files(d) if f.startswith(prefix))[0]
            faults.apply_in_place(d, (kind, rel, arg if not isinstance(arg, list) else tuple(arg)))
        stub = l3.OsrmStub()
        srv = None
        try:
            stub.set_tables([tuple(r) for r in c["origin_rows"]], [tuple(r) for r in c["destination_rows"]])
            srv = l3.Server(binary, d, stub.port)
            q = c["query"]
            t0 = time.time()
            try:
                st, hd, body = srv.get(l3.route_qs(q), timeout=limit_s)
            except Exception as e:
                st, hd, body = None, None, b""
            took = time.time() - t0
            ok_answer = st in (200, 400) and body.strip().startswith(b"{")
            if st is None and not srv.alive() and c.get("fault"):
                pass
            if not ok_answer:
                fails.append(("%s: the request was not answered within %.0f s (status %r, %.1f s); server %s — %s"
                              % (os.path.basename(path), limit_s, st, took, "alive" if srv.alive() else "dead: " + srv.crash_report()[:200], c["what"][:200]), path))
            elif not srv.alive():
                fails.append(("%s: answered, but the server died afterwards: %s" % (os.path.basename(path), srv.crash_report()[:200]), path))
        except RuntimeError as e:
            fails.append(("%s: server did not start: %s" % (os.path.basename(path), str(e)[:200]), path))
        finally:
            if srv is not None:
                srv.stop()
            stub.close()
            shutil.rmtree(d, ignore_errors=True)
    return dict(cases=len(files), fails=fails)


if __name__ == "__main__":
    b, err = l3.build_server()
    print(json.dumps(run(b), indent=1))
