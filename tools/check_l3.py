#!/usr/bin/env python3
"""Checks on the real binary over HTTP (L3): C16 (loaded data routes like the dataset), C19 (summary
aggregates the routes of the same query)."""
import os, sys, time, json, shutil
import build, checklib as cl, run, gen, l3, l3batch, props_l2, loadmodel
from check_c12 import cl_open


def json_fields_ok(ds, raw_body):
    """C16: every itinerary names the right stops, lines, agencies, modes, paths and coordinates of the DATASET"""
    try:
        j = json.loads(raw_body.decode("utf-8"))
    except Exception:
        return None
    if j.get("status") != "success" or "routes" not in j.get("result", {}):
        return None
    paths = {p[0]: p for p in ds.paths}
    lines = {l[0]: l for l in ds.lines}
    trips = {t[0]: t for t in ds.trips}
    bad = []
    for r in j["result"]["routes"]:
        for s in r["steps"]:
            if s["action"] in ("boarding", "unboarding"):
                tid = l3.id_of_uuid(s["tripUuid"])
                t = trips.get(tid)
                if t is None:
                    bad.append("unknown trip %s" % s["tripUuid"])
                    continue
                p = paths[t[1]]
                ln = lines[p[1]]
                if l3.id_of_uuid(s["lineUuid"]) != ln[0] or s["lineUuid"] != l3.uuid_of(l3.K_LINE, ln[0]):
                    bad.append("lineUuid")
                if s["pathUuid"] != l3.uuid_of(l3.K_PATH, p[0]):
                    bad.append("pathUuid")
                if s["agencyUuid"] != l3.uuid_of(l3.K_AGENCY, ln[1]):
                    bad.append("agencyUuid")
                if s["mode"] != l3.mode_name(ln[2]):
                    bad.append("mode %s" % s["mode"])
                # the display strings of the objects named (written by l3.cache_texts)
                nid0 = l3.id_of_uuid(s["nodeUuid"])
                for key, want in (("agencyAcronym", "a%d" % ln[1]), ("agencyName", "agency %d" % ln[1]), ("lineShortname", "L%d" % ln[0]),
                                  ("lineLongname", "line %d" % ln[0]), ("nodeName", "n%d" % nid0), ("nodeCode", "%d" % nid0)):
                    if s.get(key) != want:
                        bad.append("%s %r (expected %r)" % (key, s.get(key), want))
                if not s.get("modeName"):
                    bad.append("modeName empty")
                nid = l3.id_of_uuid(s["nodeUuid"])
                seq = s["stopSequenceInTrip"]
                if not (1 <= seq <= len(p[2])) or p[2][seq - 1] != nid:
                    bad.append("stop %d is not stop #%d of the path" % (nid, seq))
                co = s.get("nodeCoordinates")
                if co is not None:
                    if abs(co[0] - l3.node_lon_e6(ds, nid) / 1e6) > 2e-6 or abs(co[1] - 45.0) > 2e-6:
                        bad.append("coordinates of stop %d" % nid)
    return bad


def access_fields_ok(ds, raw_body):
    """C16: every entry of an accessibility map names a stop of the DATASET with its own name, code and coordinates"""
    try:
        j = json.loads(raw_body.decode("utf-8"))
    except Exception:
        return None
    if j.get("status") != "success" or "nodes" not in j.get("result", {}):
        return None
    bad = []
    for n in j["result"]["nodes"]:
        nid = l3.id_of_uuid(n.get("nodeUuid", ""))
        if nid not in ds.nodes or n.get("nodeUuid") != l3.uuid_of(l3.K_NODE, nid):
            bad.append("unknown stop %s" % n.get("nodeUuid"))
            continue
        for key, want in (("nodeName", "n%d" % nid), ("nodeCode", "%d" % nid)):
            if n.get(key) != want:
                bad.append("%s %r (expected %r)" % (key, n.get(key), want))
        co = n.get("nodeCoordinates")
        if not (isinstance(co, list) and len(co) == 2 and abs(co[0] - l3.node_lon_e6(ds, nid) / 1e6) <= 2e-6 and abs(co[1] - 45.0) <= 2e-6):
            bad.append("coordinates of stop %d: %r" % (nid, co))
    return bad


def loader_model_on_datasets(driver, extras, recs):
    """Loader2.load_all (Loader2.encode_all dataset) for every generated dataset: status READY (the status of the dataset's sizes),
    the collection sizes of the dataset, no read error -- once on encode_all's own messages, once in the layout write_cache gave the
    real server (agency 0 / service 0 listed, dataSources present, trips of one service sharing a schedule); and the real server,
    started on that directory, must be in the predicted class (READY: no data_error answer)."""
    out = dict(datasets=0, runs=0, ready=0, disagreements=[])
    impl = {}
    for r in recs:
        impl.setdefault(r["case"], []).append(r["impl"])
    for case, (ds, ops, raws, info) in extras.items():
        out["datasets"] += 1
        name = os.path.basename(case)
        for layout in (False, True):
            try:
                p = loadmodel.predict(driver, ds, [("d", [], "healthy", [])], layout=layout)["d"]["load"]
            except Exception as e:
                out["disagreements"].append("%s: the model could not be run: %s" % (name, str(e)[:300]))
                continue
            out["runs"] += 1
            want = loadmodel.dataset_sizes(ds, layout=layout)
            wst = loadmodel.status_of_sizes(want)
            if p["status"] != wst or p["sizes"] != want or p["read_error"]:
                out["disagreements"].append("%s (%s): load_all (encode_all dataset) gives %s sizes %s read error %d, the dataset has %s sizes %s"
                                            % (name, "layout of write_cache" if layout else "encode_all", p["status"], p["sizes"], p["read_error"], wst, want))
            elif layout:
                out["ready"] += (p["status"] == "READY")
                de = [a for a in impl.get(case, []) if "dataerror" in a]
                if (p["status"] == "READY") != (not de) and impl.get(case):
                    out["disagreements"].append("%s: the model's status on the files is %s, the real server answers %s" % (name, p["status"], (de or impl[case])[0][:120]))
    return out


def main_c16(pid, tier, seed, replay_path=None):
    t0 = time.time()
    po = cl.proof_obligations(pid)
    dr, e2 = build.build_driver()
    binary, e1 = l3.build_server()
    if e1 or e2:
        path = cl.write_nofail_replay(pid, "server/model build", str(e1 or e2))
        print("VIOLATION property=%s replay=%s no-failing-input-found" % (pid, path))
        return 1
    n, nq = (56, 16) if tier == "quick" else (600, 22)
    out = os.path.join(build.WORK, "scratch", "c16-%d-%s" % (seed, tier))
    recs, extras = l3batch.l3_batch(seed, n, nq, dr, out, binary=binary)
    fails, diffs, nontriv, dead = [], [], set(), []
    lm = loader_model_on_datasets(dr, extras, recs)
    evals = 0
    for case, (ds, ops, raws, info) in extras.items():
        if not info["alive"]:
            dead.append(case)
    for r in recs:
        evals += 1
        if r["impl"].strip() != r["model"].strip():
            diffs.append(r)
        v = r["verdict"]
        if run.vget(v, "dom") == "1" and any(x.get("C01") == "0" for x in cl.route_verdicts(r)):
            fails.append(("itinerary returned on loaded data is not executable in the dataset the files encode", r))
        ds, ops, raws, info = extras[r["case"]]
        if r["idx"] < len(raws) and r["impl"].startswith(("route ok", "alt ok")):
            bad = json_fields_ok(ds, raws[r["idx"]][1])
            if bad:
                fails.append(("answer names wrong objects of the dataset: " + ", ".join(sorted(set(bad))[:4]), r))
            nontriv.add(r["op"] + r["case"])
        if r["idx"] < len(raws) and r["impl"].startswith("access ok"):
            bad = access_fields_ok(ds, raws[r["idx"]][1])
            if bad:
                fails.append(("accessibility map names wrong objects of the dataset: " + ", ".join(sorted(set(bad))[:4]), r))
    rc, viol = 0, []
    if dead:
        path = cl.write_replay_file(pid, dead[0], "server process died while serving this dataset")
        print("VIOLATION property=%s replay=%s" % (pid, path))
        viol.append(path); rc = 1
    elif fails:
        why, r = fails[0]
        path = cl.write_replay(pid, r, why)
        print("VIOLATION property=%s replay=%s\n  %s\n  op  : %s\n  impl: %s" % (pid, path, why, r["op"][:200], r["impl"][:300]))
        viol.append(path); rc = 1
    elif diffs:
        # the server on loaded files and the model on the dataset disagree: the dataset-level answer is the
        # specification here, so this IS the failing input
        r = diffs[0]
        path = cl.write_replay(pid, r, "server on the cache files answers differently from the dataset they encode")
        print("VIOLATION property=%s replay=%s\n  op   : %s\n  impl : %s\n  model: %s" % (pid, path, r["op"][:200], r["impl"][:300], r["model"][:300]))
        viol.append(path); rc = 1
    elif lm["disagreements"]:
        path = cl.write_nofail_replay(pid, "correspondence of coq/Loader2.v (encode_all / load_all) with the datasets the real server loaded",
                                      "model Loader2.load_all and the real loaders disagree:\n" + "\n".join(lm["disagreements"][:60]))
        print("VIOLATION property=%s replay=%s no-failing-input-found\n  model Loader2.load_all and the real loaders disagree (%d of %d model runs)"
              % (pid, path, len(lm["disagreements"]), lm["runs"]))
        for w in lm["disagreements"][:8]:
            print("  " + w[:400])
        viol.append(path); rc = 1
    elif not po["ok"]:
        path = cl.write_nofail_replay(pid, "proof obligations of Properties_%s.v (%d of %d)" % (pid, po["discharged"], po["obligations"]), po["log"])
        print("VIOLATION property=%s replay=%s no-failing-input-found" % (pid, path))
        viol.append(path); rc = 1
    samples = [dict(case=os.path.basename(r["case"]), op=r["op"][:200], server=r["impl"][:300]) for r in recs if r["impl"].startswith("route ok")][:3]
    cov = dict(obligations=max(1, po["obligations"]), discharged=po["discharged"], checker_cmd=po["checker_cmd"], trusted_base=cl.TRUSTED_BASE,
               theorems=po["theorems"], print_assumptions=po["assumptions"], open_statements=cl_open(pid),
               evaluations=evals, distinct_nontrivial=len(nontriv),
               rule="generated datasets are serialised to Cap'n Proto cache directories (capnp encode --packed against /repo's schemas), the real binary is started on them with the walking router replaced by a table-driven OSRM stub; every route / alternatives / accessibility answer over HTTP is compared field by field with the extracted model's answer on the DATASET, validated against the dataset by valid_itinerary_b, and its uuids/coordinates/modes checked; non-trivial = successful route answer",
               samples=samples or [dict(note="none")], datasets=len(extras), server_deaths=len(dead),
               disagreements=len(diffs), oracle_violations=len(fails), exhaustive=False,
               loader_model_rule="for every generated dataset the extracted Loader2.load_all (Loader2.encode_all dataset) must give the status of the dataset's collection sizes (READY), exactly these sizes and no read error -- on encode_all's own messages and in the layout tools/l3.py write_cache gave the real server; the real server started on that directory must be in the class of that status (its answers are compared with the model's answers on the dataset above)",
               loader_model_datasets=lm["datasets"], loader_model_comparisons=lm["runs"], loader_model_ready=lm["ready"],
               loader_model_disagreements=len(lm["disagreements"]), loader_model_disagreement_samples=lm["disagreements"][:10])
    cl.write_evidence(pid, tier, seed, "proof", cov, ["Cap'n Proto packed encoding/decoding and capnp encode are trusted (both sides use the library)",
                                                      "stops are placed metres apart so that the Euclidean pre-filter (float arithmetic, not modelled) passes every stop"],
                      time.time() - t0, len(viol))
    print("%s %s: obligations %d/%d, %d answers on %d cache directories (%d successes), %d disagreements, %d violations; loader model: %d runs on %d datasets (%d READY), %d disagreements; %.1fs" %
          (pid, tier, po["discharged"], po["obligations"], evals, len(extras), len(nontriv), len(diffs), len(fails) + len(dead),
           lm["runs"], lm["datasets"], lm["ready"], len(lm["disagreements"]), time.time() - t0))
    return rc


def summary_of(ds, route_line):
    """expected canonical summary from a canonical route/alt line: lines boarded, ordered by line id, with counts"""
    paths = {p[0]: p for p in ds.paths}
    trips = {t[0]: t for t in ds.trips}
    routes = cl.routes_in(route_line)
    counts = {}
    for rt in routes:
        for s in cl.steps_of(rt)[1]:
            if s[0] == "B":
                ln = paths[trips[int(s[1])][1]][1]
                counts[ln] = counts.get(ln, 0) + 1
    return "summary success %d" % len(routes) + "".join(" | %d %d" % (k, counts[k]) for k in sorted(counts))


def main_c19(pid, tier, seed, replay_path=None):
    t0 = time.time()
    po = cl.proof_obligations(pid)
    dr, e2 = build.build_driver()
    binary, e1 = l3.build_server()
    if e1 or e2:
        path = cl.write_nofail_replay(pid, "server/model build", str(e1 or e2))
        print("VIOLATION property=%s replay=%s no-failing-input-found" % (pid, path))
        return 1
    n, nq = (20, 14) if tier == "quick" else (300, 22)
    out = os.path.join(build.WORK, "scratch", "c19-%d-%s" % (seed, tier))
    recs, extras = l3batch.l3_batch(seed + 50, n, nq, dr, out, binary=binary, opts=dict(summary=True), profiles=("opt", "loops", "grid", "tiny", "asymfp", "mixedwait", "wide"))
    # the same on servers that STARTED on an incomplete directory (no stop file) and were then refreshed over HTTP: the summary
    # handler must follow the data status exactly as the route handler does
    n2 = 4 if tier == "quick" else 40
    recs2, extras2 = l3batch.l3_batch(seed + 51, n2, nq, dr, out + "-refreshed", binary=binary, opts=dict(summary=True, start_incomplete=True),
                                      profiles=("opt", "grid", "tiny", "wide"))
    recs = recs + recs2
    extras.update(extras2)
    fails, nontriv, evals = [], set(), 0
    for r in recs:
        ds, ops, raws, info = extras[r["case"]]
        if not r["op"].startswith("route") or r["idx"] >= len(raws) or len(raws[r["idx"]]) < 4:
            continue
        st, body, st2, body2 = raws[r["idx"]]
        evals += 1
        got = l3.canon_summary(body2) if st2 is not None else "summary noreply"
        if r["impl"].startswith(("route ok", "alt ok")):
            exp = summary_of(ds, r["impl"])
            if len(cl.routes_in(r["impl"])) >= 2 or sum(1 for s in cl.steps_of(cl.routes_in(r["impl"])[0])[1] if s[0] == "B") >= 2:
                nontriv.add(r["op"] + r["case"])
        elif "noroute" in r["impl"]:
            exp = "summary success 0"
        elif "queryerror" in r["impl"] or "dataerror" in r["impl"]:
            exp = "summary " + " ".join(r["impl"].split()[1:])
        else:
            exp = None
        if exp is not None and got != exp:
            fails.append(("summary %r differs from the aggregation %r of the routes of the same query" % (got, exp), r))
        if st2 is not None and st is not None and st2 != st:
            fails.append(("summary answers HTTP %s where route answers HTTP %s" % (st2, st), r))
        # the model's summary of the model's routes (Coq summary_of_routes) must agree too
    rc, viol = 0, []
    if fails:
        why, r = fails[0]
        path = cl.write_replay(pid, r, why)
        print("VIOLATION property=%s replay=%s\n  %s\n  op: %s\n  route answer: %s" % (pid, path, why, r["op"][:200], r["impl"][:300]))
        viol.append(path); rc = 1
    elif not po["ok"]:
        path = cl.write_nofail_replay(pid, "proof obligations of Properties_%s.v (%d of %d)" % (pid, po["discharged"], po["obligations"]), po["log"])
        print("VIOLATION property=%s replay=%s no-failing-input-found" % (pid, path))
        viol.append(path); rc = 1
    samples = [dict(op=r["op"][:160], route_answer=r["impl"][:200]) for r in recs if r["impl"].startswith("alt ok")][:2]
    cov = dict(obligations=max(1, po["obligations"]), discharged=po["discharged"], checker_cmd=po["checker_cmd"], trusted_base=cl.TRUSTED_BASE,
               theorems=po["theorems"], print_assumptions=po["assumptions"], open_statements=cl_open(pid),
               evaluations=evals, distinct_nontrivial=len(nontriv),
               rule="GET /v2/route and GET /v2/summary with identical parameters on the real binary (with and without alternatives, failing queries included); the summary must equal the aggregation (lines ordered by uuid, boardings counted over all routes) of the route answer; a second group of servers STARTS without the stop file and is refreshed over HTTP before the requests; non-trivial = >=2 routes or >=2 boardings",
               samples=samples or [dict(note="none")], disagreements=len(fails), exhaustive=False)
    cl.write_evidence(pid, tier, seed, "proof", cov, ["HTTP framing by SimpleWeb trusted"], time.time() - t0, len(viol))
    print("%s %s: obligations %d/%d, %d endpoint pairs (%d non-trivial), %d violations, %.1fs" % (pid, tier, po["discharged"], po["obligations"], evals, len(nontriv), len(fails), time.time() - t0))
    return rc
