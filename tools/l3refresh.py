#!/usr/bin/env python3
"""C15 at L3: refresh histories on the REAL trRouting binary over HTTP.

One history:
    dataset A, dataset B = modify(A) on the same stops / lines / paths, one cache directory D
    start server S on D written from A (possibly with one kind of files left out)      -> answers a0 to the query set Q
    write B into D (possibly with one kind of files left out), GET /updateCache?names=.. -> answers a1 of S to Q
    start a FRESH server F on D                                                         -> answers f1 to Q      a1 must equal f1
    write A into D again exactly as at the start, GET /updateCache?names=.. on S        -> answers a2 of S to Q a2 must equal a0
      (a0 came from a server newly started on these very files: it is the fresh answer for the way back)
    S must be alive all along and every /updateCache reply must be the success object.

History kinds (the `names` sent and what differs between A's and B's files):
    k1  names=all                  trips dropped / times moved / scenario 2's services changed
    k2  names=schedules            trips dropped / times moved only (what `schedules` re-reads: the per-line files)
    k3  names=scenarios,schedules  trips / times / scenario 2
    k6  names=schedules,scenarios  the same with the schedules named FIRST (the handler reloads in the order given)
    k8  names=schedules (or all)   the server starts while ONE line's schedule file (the line with most trips) is missing; the file
                                   then appears (B = A, complete): what was found missing at start-up must not be remembered
    k7  names=scenarios            only the scenario file changes: B = A WITHOUT scenario 2, then (instead of A again) A with scenario 2
                                   back under ANOTHER definition -- a set cached for a scenario that disappeared must not be served
                                   when its uuid returns (not among the refreshes C15 names; it holds on the code as it is and
                                   keeps C02's "only trips the queried scenario admits" honest across scenario reloads)
    k4  names=all                  A is written WITHOUT one kind of files (S starts not ready: data_error), B is complete
    k5  names=all                  A complete, B is written WITHOUT one kind of files (S must start answering data_error)
Both connection-cache modes (--cacheAllConnectionSets false / true).  Q = 10 requests over scenarios 1, 2, 3 (the last one on scenario 2): route, route
with alternatives, summary (with and without alternatives), accessibility; departure and arrival time types.  Q is sent
before the refresh too, so the scenarios asked after it have cached connection sets from the old timetable.

An answer is compared as "<HTTP status> <canonical text>" (l3.canon_*): for success bodies the whole itinerary /
map / summary, for the others status + errorCode / reason.

run(binary, seed, tier) -> dict(evaluations, histories, fails=[(why, replay_dict)], kinds, ...)
replay(binary, path)    -> re-runs the history recorded in a replay file written by write_replay()."""
import copy, hashlib, json, os, shutil, sys, time
from concurrent.futures import ThreadPoolExecutor

sys.path.insert(0, os.path.dirname(os.path.abspath(__file__)))
import build, gen, l3  # noqa: E402

KINDS = ("k1", "k2", "k3", "k4", "k5", "k6", "k7", "k8")
NAMES = {"k1": "all", "k2": "schedules", "k3": "scenarios,schedules", "k4": "all", "k5": "all", "k6": "schedules,scenarios", "k7": "scenarios", "k8": "schedules"}
# what can be left out of a cache directory, and the data status a server started on the rest reports
OMITTABLE = ("lines", "paths", "schedules", "scenarios", "agencies", "services", "nodes")
QUICK_PLAN = [("k1", False), ("k2", True), ("k3", False), ("k4", True), ("k5", False), ("k4", False), ("k5", True), ("k1", True), ("k6", False), ("k6", True), ("k7", False), ("k7", True), ("k8", False), ("k8", True)]
QUICK_OMITS = {3: "lines", 4: "paths", 5: "schedules", 6: "scenarios"}      # history index -> kind of files left out


def omit_files(ds, what):
    """relative file names of the kind of files `what` (for l3.write_cache's omit=)"""
    if what is None:
        return ()
    if what == "schedules":
        return tuple("lines/line_%s.capnpbin" % l3.uuid_of(l3.K_LINE, l[0]) for l in ds.lines)
    if what.startswith("linefile:"):
        return ("lines/line_%s.capnpbin" % l3.uuid_of(l3.K_LINE, int(what[9:])),)
    return ("%s.capnpbin" % what,)


def modify(rng, ds, scen_too=True, new_line=False, force_scen=False):
    """A second dataset on the same stops / footpaths / lines / paths (deep copy): some trips dropped, whole trips moved by
    +-60..900 s, some trips delayed from one stop on (times stay >= 0 and ordered), scenario 2's service list changed."""
    d = copy.deepcopy(ds)
    keep_all = rng.chance(0.3)
    trips, changed = [], False
    for (tid, path, service, times) in d.trips:
        if not keep_all and len(d.trips) > 1 and rng.chance(0.3):
            changed = True
            continue
        shift = rng.choice([0, 60, 300, -60, -120, -900, 900, rng.randint(60, 900), -rng.randint(60, 900)])
        if times and times[-1][1] + shift >= 115200:
            shift = 0
        nt = [(max(0, a + shift), max(0, dp + shift), cb, cu) for (a, dp, cb, cu) in times]
        if len(nt) >= 2 and rng.chance(0.3):
            k, delay = rng.randint(1, len(nt) - 1), rng.choice([60, 120, 600])
            if nt[-1][1] + delay < 115200:
                nt = nt[:k] + [(a + delay, dp + delay, cb, cu) for (a, dp, cb, cu) in nt[k:]]
        changed = changed or nt != times
        trips.append((tid, path, service, nt))
    if not trips:
        trips = [copy.deepcopy(d.trips[0])]
    if not changed:      # B must differ from A: move the first trip by a minute
        (tid, path, service, times) = trips[0]
        trips[0] = (tid, path, service, [(a + 60, dp + 60, cb, cu) for (a, dp, cb, cu) in times])
    d.trips = trips
    if scen_too and (rng.chance(0.7) or force_scen):
        d.scens = [(sid, ([rng.choice([[2], [1, 2]])] + [list(x) for x in ls[1:]]) if sid == 2 else ls) for (sid, ls) in d.scens]
    if new_line and d.paths and d.trips:
        # names=all only: B also has a line (with a path and trips) that A does not have, and scenario 3 of B filters on it
        # (except-line or only-line list naming the NEW line): a refresh that resolves the scenario lists against the old
        # lines, or reloads the collections in an order that leaves references to freed lines, answers differently from a
        # fresh server on scenario 3
        nl = max(l[0] for l in d.lines) + 1
        # the path with the most trips is taken over by the new line: its trips move to a new path of the new line
        by_path = {}
        for t in d.trips:
            by_path[t[1]] = by_path.get(t[1], 0) + 1
        busiest = max(sorted(by_path), key=lambda k: by_path[k])
        src_path = [p for p in d.paths if p[0] == busiest][0]
        np_ = max(p[0] for p in d.paths) + 1
        d.lines.append((nl, d.lines[0][1], rng.choice([1, 2])))
        d.paths.append((np_, nl, list(src_path[2]), list(src_path[3])))
        d.trips = [(tid, np_ if path == busiest else path, service, times) for (tid, path, service, times) in d.trips]
        def relist(ls):
            ls = [list(x) for x in ls]
            if rng.chance(0.5):
                ls[5] = sorted(set(ls[5] + [nl]))                 # exceptLines gets the new line
            else:
                ls[1] = [nl]                                      # onlyLines: the new line alone
            return ls
        d.scens = [(sid, relist(ls)) if sid == 3 else (sid, ls) for (sid, ls) in d.scens]
    return d


def make_requests(rng, ds, prof):
    """Q: [dict(kind, path, acc, egr)] -- kind in route / alt / summary / access; acc, egr = the stub's tables for the request"""
    qs = l3._gen_queries(gen, rng, ds, prof, 4)
    qs = [(dict(q), acc, egr) for (q, acc, egr) in qs]
    qs[0][0]["scen"] = 1
    qs[1][0]["scen"] = 2
    qs[2][0]["scen"] = 3
    if len(set(q["fwd"] for (q, _, _) in qs)) == 1:       # both time types
        qs[3][0]["fwd"] = 1 - qs[3][0]["fwd"]
    out = []

    def add(kind, i, alt=False):
        q, acc, egr = qs[i]
        if kind == "access":
            rows = acc if q["fwd"] else egr
            out.append(dict(kind="access", path=l3.access_qs(q), acc=rows, egr=rows, scen=q["scen"], fwd=q["fwd"]))
        elif kind == "summary":
            out.append(dict(kind="summary", path=l3.summary_qs(q, alt), acc=acc, egr=egr, scen=q["scen"], fwd=q["fwd"]))
        else:
            out.append(dict(kind="alt" if alt else "route", path=l3.route_qs(q, alt), acc=acc, egr=egr, scen=q["scen"], fwd=q["fwd"]))
    add("route", 0); add("route", 0, True); add("summary", 0)
    add("route", 1); add("access", 1); add("summary", 1)
    add("route", 2); add("summary", 2, True)
    add("access", 3); add("route", 3)
    # WIDE accessibility maps: every stop offered at 0 s, the whole day, no travel-time limit, departure and arrival direction:
    # the map then depends on (nearly) every trip of the scenario, so a timetable that is only PARTLY the one on disk shows
    cs = ds.conns()
    t_lo = max(0, min([c[4] for c in cs] or [3600]) - 600)
    t_hi = min(115199, max([c[5] for c in cs] or [3600]) + 600)
    allrows = [(n, 0, 0) for n in ds.nodes][:12]
    for scen, fwd in ((1, 1), (4, 0), (1, 0)):
        qw = dict(scen=scen, time=t_lo if fwd else t_hi, minw=60, maxtt=gen.MAX_INT, maxacc=1200, maxegr=1200, maxtr=1200, maxfw=-1, fwd=fwd)
        out.append(dict(kind="access", path=l3.access_qs(qw), acc=allrows, egr=allrows, scen=scen, fwd=fwd))
    add("route", 1)          # the LAST request before a refresh is on scenario 2, whose definition the refresh changes: the
    return out               # one-entry cache then holds exactly the set a refresh must not keep or rebuild from old definitions


def ask(srv, stub, req):
    """-> "<HTTP status> <canonical text>" """
    stub.set_tables([tuple(r) for r in req["acc"]], [tuple(r) for r in req["egr"]])
    stub.set_faults(req.get("faults") or [])     # a request of a history may be one whose router exchange FAILS
    st, hd, body = srv.get(req["path"])
    stub.set_faults([])
    if st is None:
        return "noreply" + ("" if srv.alive() else " (server exited with status %s: %s)" % (srv.exit_status(), srv.crash_report()))
    if req["kind"] == "access":
        c = l3.canon_access(body)
    elif req["kind"] == "summary":
        c = l3.canon_summary(body)
    else:
        c = l3.canon_route(body, req["kind"] == "alt")
    if c.endswith("unparsable"):
        c += " " + body[:200].decode("latin-1")
    return "%d %s" % (st, c)


def ask_all(srv, stub, reqs, reverse=False):
    """reverse=True: the requests are SENT last-first (the answers come back in list order): right after a refresh the very
    request the server answered last before it is then the first one it sees again"""
    if not reverse:
        return [ask(srv, stub, r) for r in reqs]
    return [ask(srv, stub, r) for r in reversed(reqs)][::-1]


def update(srv, names):
    """-> (ok, text of the reply)"""
    st, hd, body = srv.get("/updateCache?names=" + names, timeout=60)
    text = "%s %s" % (st, body.decode("latin-1")[:300])
    try:
        j = json.loads(body.decode("utf-8"))
        ok = st == 200 and j.get("status") == "success" and j.get("cache_names") == names
    except Exception:
        ok = False
    return ok, text


def history_spec(seed, tier, index):
    """everything random about history `index`, derived from the seed alone"""
    if tier == "quick":
        kind, cache_all = QUICK_PLAN[index % len(QUICK_PLAN)]
        omit = QUICK_OMITS.get(index % len(QUICK_PLAN)) if kind in ("k4", "k5") else None
    else:
        kind, rnd = KINDS[index % len(KINDS)], index // len(KINDS)
        cache_all = rnd % 2 == 1
        # k4 and k5 of the same round leave out different kinds of files; 12 rounds go through all of them
        omit = {"k4": OMITTABLE[rnd % len(OMITTABLE)], "k5": OMITTABLE[(rnd + 3) % len(OMITTABLE)]}.get(kind)
    rng = gen.Rng((seed * 7919 + 15) * 1000 + index)
    prof = dict(gen.PROFILES["opt"], pempty=0.02)
    A = gen.gen_dataset(rng.fork(), prof)
    A_back = None
    if kind == "k8":
        pl = {p[0]: p[1] for p in A.paths}
        cnt = {}
        for t in A.trips:
            cnt[pl[t[1]]] = cnt.get(pl[t[1]], 0) + 1
        omit = "linefile:%d" % max(sorted(cnt), key=lambda k: cnt[k])
        B = copy.deepcopy(A)
        rng.fork()
    elif kind == "k7":
        B = copy.deepcopy(A)
        B.scens = [sc for sc in B.scens if sc[0] != 2]
        A_back = copy.deepcopy(A)
        old2 = [ls for (sid, ls) in A.scens if sid == 2][0][0]
        new2 = [2] if 1 in old2 else [1]
        A_back.scens = [(sid, ([new2] + [list(x) for x in ls[1:]]) if sid == 2 else ls) for (sid, ls) in A_back.scens]
        rng.fork()
    else:
        B = modify(rng.fork(), A, scen_too=(kind != "k2"), new_line=(kind in ("k1", "k4")), force_scen=(kind in ("k3", "k6")))
    reqs = make_requests(rng.fork(), A, prof)
    if kind in ("k3", "k6", "k7"):
        # requests on scenario 2 that its NEW definition can serve: planned on the trips of the services it names after the
        # refresh (otherwise old and new definition often both answer "no route" and a stale set cannot be told from a fresh one)
        final = A_back if kind == "k7" else B
        new2 = [ls for (sid, ls) in final.scens if sid == 2][0][0]
        sub = copy.deepcopy(final)
        sub.trips = [t for t in sub.trips if t[2] in new2] or sub.trips
        r2 = rng.fork()
        for (q, acc, egr) in l3._gen_queries(gen, r2, sub, prof, 3):
            q = dict(q); q["scen"] = 2
            reqs.append(dict(kind="route", path=l3.route_qs(q, False), acc=acc, egr=egr, scen=2, fwd=q["fwd"]))
            reqs.append(dict(kind="summary", path=l3.summary_qs(q, False), acc=acc, egr=egr, scen=2, fwd=q["fwd"]))
    return dict(index=index, kind=kind, cache_all=cache_all, omit=omit, names=NAMES[kind], A=A, B=B, A_back=A_back, requests=reqs)


def run_history(binary, spec, workdir, keep_on_failure=True):
    """-> dict(fails=[(why, replay_dict)], evaluations, changed, success, wall)"""
    t0 = time.time()
    kind, names, omit, cache_all, reqs, A, B = spec["kind"], spec["names"], spec["omit"], spec["cache_all"], spec["requests"], spec["A"], spec["B"]
    omit_a = omit_files(A, omit) if kind in ("k4", "k8") else ()
    omit_b = omit_files(B, omit) if kind == "k5" else ()
    cache = os.path.join(workdir, "cache")
    shutil.rmtree(workdir, ignore_errors=True)
    os.makedirs(cache)
    base = dict(level="L3 refresh history on the real binary", seed=spec.get("seed"), tier=spec.get("tier"), history=spec["index"], kind=kind,
                cache_all=cache_all, omit=omit, omitted_from=("A (start-up)" if kind in ("k4", "k8") else "B (refresh)") if omit else None,
                update="/updateCache?names=" + names, dataset_A=A.text(), dataset_B=B.text(), binary=binary)
    fails, evals, changed, success = [], 0, 0, 0
    stub = l3.OsrmStub()
    old = fresh = None

    def fail(why, **kw):
        fails.append((why, dict(base, why=why, **kw)))

    try:
        l3.write_cache(A, cache, omit=omit_a)
        old = l3.Server(binary, cache, stub.port, threads=1, cache_all=cache_all)
        a0 = ask_all(old, stub, reqs)
        base["old_server_log"] = old.log_path
        # ---- A -> B --------------------------------------------------------------------------------------------
        l3.write_cache(B, cache, omit=omit_b)
        missing = [f for f in omit_b if os.path.exists(os.path.join(cache, f))]
        if missing:
            raise RuntimeError("harness: omitted files are present: %s" % missing)
        ok, reply = update(old, names)
        if not ok:
            fail("the reply of /updateCache?names=%s is not the success object" % names, phase="A->B", update_reply=reply)
        a1 = ask_all(old, stub, reqs, reverse=True) if old.alive() else ["noreply (server dead)"] * len(reqs)
        fresh = l3.Server(binary, cache, stub.port, threads=1, cache_all=cache_all)
        f1 = ask_all(fresh, stub, reqs)
        for i, r in enumerate(reqs):
            evals += 1
            changed += a0[i] != f1[i]
            success += " ok " in f1[i] or "summary success" in f1[i]
            if a1[i] != f1[i]:
                fail("after /updateCache?names=%s the server answers differently from a server newly started on the same files" % names,
                     phase="A->B", request_number=i, request=r, answer_before_refresh=a0[i], answer_after_refresh=a1[i],
                     answer_of_fresh_server=f1[i], update_reply=reply, stale=(a1[i] == a0[i]))
        if not fresh.alive():
            fail("the freshly started server died", phase="A->B", exit_status=fresh.exit_status(), log=fresh.crash_report())
        fresh.stop()
        fresh = None
        if not old.alive():
            fail("the refreshed server died", phase="A->B", exit_status=old.exit_status(), log=old.crash_report())
        else:
            # ---- B -> A: the start-up answers a0 are the fresh server's answers on these files --------------------
            if spec.get("A_back") is not None:
                # (k7) not A itself but A with scenario 2 redefined: the reference is a server newly started on THOSE files
                l3.write_cache(spec["A_back"], cache, omit=omit_a)
                fresh = l3.Server(binary, cache, stub.port, threads=1, cache_all=cache_all)
                a0 = ask_all(fresh, stub, reqs)
                fresh.stop()
                fresh = None
                base["dataset_A_back"] = spec["A_back"].text()
            else:
                l3.write_cache(A, cache, omit=omit_a)
            ok, reply = update(old, names)
            if not ok:
                fail("the reply of /updateCache?names=%s is not the success object" % names, phase="B->A", update_reply=reply)
            a2 = ask_all(old, stub, reqs, reverse=True)
            for i, r in enumerate(reqs):
                evals += 1
                if a2[i] != a0[i]:
                    fail("after the files were put back and /updateCache?names=%s the server answers differently from a server newly started on the same files" % names,
                         phase="B->A", request_number=i, request=r, answer_before_refresh=a1[i], answer_after_refresh=a2[i],
                         answer_of_fresh_server=a0[i], update_reply=reply, stale=(a2[i] == a1[i]))
            if not old.alive():
                fail("the refreshed server died", phase="B->A", exit_status=old.exit_status(), log=old.crash_report())
    except Exception as e:       # a server that does not start, capnp encode failing, ...
        import traceback
        fail("history could not be run: %s: %s" % (type(e).__name__, str(e)[:600]), phase="harness", traceback=traceback.format_exc()[-1500:])
    finally:
        for s in (old, fresh):
            if s is not None:
                s.stop()
        stub.close()
        if not (fails and keep_on_failure):
            shutil.rmtree(workdir, ignore_errors=True)
    return dict(fails=fails, evaluations=evals, changed=changed, success=success, wall=time.time() - t0)


# ---------------------------------------------------------------------------------------------------
# random refresh SEQUENCES ("kr"): 3-4 steps, each a change of the files followed by a refresh that names what changed
# ---------------------------------------------------------------------------------------------------
STEP_KINDS = ("trips", "scen2", "scen2_gone", "scen2_back", "trips+scen2", "newline", "stops_moved")
# the cache names a step may be refreshed with (the handler reloads in the order given); only names that cover what changed,
# and never an upstream collection alone (DESIGN 0.4)
STEP_NAMES = {"trips": ["schedules", "all", "scenarios,schedules", "schedules,scenarios"],
              "scen2": ["scenarios", "scenarios,schedules", "schedules,scenarios", "all"],
              "scen2_gone": ["scenarios", "schedules,scenarios", "all"],
              "scen2_back": ["scenarios", "scenarios,schedules", "schedules,scenarios", "all"],
              "trips+scen2": ["scenarios,schedules", "schedules,scenarios", "all"],
              "newline": ["all"],
              "stops_moved": ["all"]}        # some stops move by a third of a metre (the router stub tells stops apart by their exact coordinates)


def random_spec(seed, tier, index):
    rng = gen.Rng((seed * 7919 + 151) * 1000 + index)
    prof = dict(gen.PROFILES[("opt", "wide", "mixedwait")[index % 3]], pempty=0.02)
    A = gen.gen_dataset(rng.fork(), prof)
    cur, steps, gone = A, [], False
    for k in range(rng.choice([3, 3, 4])):
        kinds = [x for x in STEP_KINDS if (x == "scen2_back") == gone or x in ("trips", "newline", "stops_moved")]
        kinds = [x for x in kinds if not (gone and x in ("scen2", "scen2_gone", "trips+scen2"))]
        kind = rng.choice(kinds)
        nxt = copy.deepcopy(cur)
        if kind in ("trips", "trips+scen2"):
            nxt = modify(rng.fork(), cur, scen_too=False)
        if kind == "newline":
            nxt = modify(rng.fork(), cur, scen_too=False, new_line=True)
        if kind == "stops_moved":
            was = getattr(cur, "lon_off", None) or {}
            nxt.lon_off = {n: (was.get(n, 0) + 4) % 8 if rng.chance(0.6) else was.get(n, 0) for n in nxt.nodes}
            if all(nxt.lon_off[n] == was.get(n, 0) for n in nxt.nodes):
                nxt.lon_off[nxt.nodes[0]] = (was.get(nxt.nodes[0], 0) + 4) % 8
        if kind in ("scen2", "trips+scen2", "scen2_back"):
            ref = [ls for (sid, ls) in A.scens if sid == 2][0]
            old2 = [ls for (sid, ls) in cur.scens if sid == 2]
            was = old2[0][0] if old2 else ref[0]
            new2 = rng.choice([x for x in ([1], [2], [1, 2], [2, 2, 2]) if sorted(set(x)) != sorted(set(was))])
            others = [sc for sc in nxt.scens if sc[0] != 2]
            nxt.scens = sorted(others + [(2, [new2] + [list(x) for x in ref[1:]])], key=lambda sc: sc[0])
            gone = False
        if kind == "scen2_gone":
            nxt.scens = [sc for sc in nxt.scens if sc[0] != 2]
            gone = True
        steps.append(dict(kind=kind, names=rng.choice(STEP_NAMES[kind]), ds=nxt))
        cur = nxt
    # requests: the usual set on A plus, for every step, requests on scenario 2 planned on the trips its definition then admits
    reqs = make_requests(rng.fork(), A, prof)
    for st in steps:
        d2 = [ls for (sid, ls) in st["ds"].scens if sid == 2]
        if not d2:
            continue
        sub = copy.deepcopy(st["ds"])
        sub.trips = [t for t in sub.trips if t[2] in d2[0][0]] or sub.trips
        for (q, acc, egr) in l3._gen_queries(gen, rng.fork(), sub, prof, 2):
            q = dict(q); q["scen"] = 2
            reqs.append(dict(kind="route", path=l3.route_qs(q, False), acc=acc, egr=egr, scen=2, fwd=q["fwd"]))
            reqs.append(dict(kind="summary", path=l3.summary_qs(q, False), acc=acc, egr=egr, scen=2, fwd=q["fwd"]))
    return dict(index=index, kind="kr", cache_all=index % 2 == 1, A=A, steps=steps, requests=reqs)


def run_random_history(binary, spec, workdir):
    t0 = time.time()
    reqs, A, cache_all = spec["requests"], spec["A"], spec["cache_all"]
    cache = os.path.join(workdir, "cache")
    shutil.rmtree(workdir, ignore_errors=True)
    os.makedirs(cache)
    base = dict(level="L3 random refresh sequence on the real binary", seed=spec.get("seed"), tier=spec.get("tier"), history=spec["index"], kind="kr",
                cache_all=cache_all, dataset_A=A.text(), steps=[dict(kind=st["kind"], update="/updateCache?names=" + st["names"], dataset=st["ds"].text()) for st in spec["steps"]],
                binary=binary)
    fails, evals, changed, success = [], 0, 0, 0
    stub = l3.OsrmStub()
    old = fresh = None

    def fail(why, **kw):
        fails.append((why, dict(base, why=why, update=kw.pop("update", None), **kw)))
    try:
        l3.write_cache(A, cache)
        old = l3.Server(binary, cache, stub.port, threads=1, cache_all=cache_all)
        prev = ask_all(old, stub, reqs)
        nfd = lambda: len(os.listdir("/proc/%d/fd" % old.pid))
        fd0 = nfd()
        for k, st in enumerate(spec["steps"]):
            l3.write_cache(st["ds"], cache)
            stub.set_layout(st["ds"])            # exact coordinates of this step's stops (None-layout when no stop ever moved)
            ok, reply = update(old, st["names"])
            upd = "/updateCache?names=" + st["names"]
            if not ok:
                fail("the reply of %s is not the success object" % upd, phase="step %d (%s)" % (k + 1, st["kind"]), update=upd, update_reply=reply)
            if not old.alive():
                fail("the refreshed server died", phase="step %d (%s)" % (k + 1, st["kind"]), update=upd, exit_status=old.exit_status(), log=old.crash_report())
                break
            a1 = ask_all(old, stub, reqs, reverse=(k % 2 == 0))
            fresh = l3.Server(binary, cache, stub.port, threads=1, cache_all=cache_all)
            f1 = ask_all(fresh, stub, reqs)
            fresh.stop(); fresh = None
            for i, r in enumerate(reqs):
                evals += 1
                changed += prev[i] != f1[i]
                success += " ok " in f1[i] or "summary success" in f1[i]
                if a1[i] != f1[i]:
                    fail("after step %d (%s, %s) the server answers differently from a server newly started on the same files" % (k + 1, st["kind"], upd),
                         phase="step %d (%s)" % (k + 1, st["kind"]), update=upd, request_number=i, request=r, answer_before_refresh=prev[i],
                         answer_after_refresh=a1[i], answer_of_fresh_server=f1[i], update_reply=reply, stale=(a1[i] == prev[i]))
            if not old.alive():
                fail("the refreshed server died", phase="step %d (%s)" % (k + 1, st["kind"]), update=upd, exit_status=old.exit_status(), log=old.crash_report())
                break
            prev = a1
        if old.alive():
            # reloading must not accumulate open files: five more full reloads of the last directory, then count
            for _ in range(5):
                update(old, "all")
            fd1 = nfd() if old.alive() else fd0
            if fd1 > fd0 + 2:
                fail("the server holds %d open file descriptors after %d refreshes, %d before the first one: files opened by a reload are not closed"
                     % (fd1, len(spec["steps"]) + 5, fd0), phase="descriptors", update="/updateCache?names=all")
    except Exception as e:
        import traceback
        fail("history could not be run: %s: %s" % (type(e).__name__, str(e)[:600]), phase="harness", traceback=traceback.format_exc()[-1500:])
    finally:
        for sv in (old, fresh):
            if sv is not None:
                sv.stop()
        stub.close()
        if not fails:
            shutil.rmtree(workdir, ignore_errors=True)
    return dict(fails=fails, evaluations=evals, changed=changed, success=success, wall=time.time() - t0)


def run(binary, seed, tier, only=None, workers=None):
    """All histories of the tier (or only the history number `only`)."""
    t0 = time.time()
    n = len(QUICK_PLAN) if tier == "quick" else 60
    root = os.path.join(build.WORK, "scratch", "c15-l3-%d-%s" % (seed, tier))
    if only is None:
        shutil.rmtree(root, ignore_errors=True)
    os.makedirs(root, exist_ok=True)
    specs = []
    nr = 8 if tier == "quick" else 60
    idxs = (list(range(n)) + [1000 + j for j in range(nr)]) if only is None else [only]
    for i in idxs:
        s = random_spec(seed, tier, i - 1000) if i >= 1000 else history_spec(seed, tier, i)
        s["seed"], s["tier"] = seed, tier
        if i >= 1000:
            s["index"], s["omit"] = i, None
        specs.append(s)
    workers = workers or (4 if tier == "quick" else 8)
    runner = lambda s: (run_random_history if s["kind"] == "kr" else run_history)(binary, s, os.path.join(root, "h%04d" % s["index"]))
    with ThreadPoolExecutor(max_workers=workers) as ex:
        results = list(ex.map(runner, specs))
    fails, kinds, modes, omits = [], {}, {}, {}
    for s, r in zip(specs, results):
        fails += r["fails"]
        kinds[s["kind"]] = kinds.get(s["kind"], 0) + 1
        modes["all" if s["cache_all"] else "one"] = modes.get("all" if s["cache_all"] else "one", 0) + 1
        if s["omit"]:
            omits["%s:%s" % (s["kind"], s["omit"])] = omits.get("%s:%s" % (s["kind"], s["omit"]), 0) + 1
    if only is None and not fails:
        shutil.rmtree(root, ignore_errors=True)
    return dict(evaluations=sum(r["evaluations"] for r in results), histories=len(specs), fails=fails, kinds=kinds, cache_modes=modes,
                omitted=omits, answers_changed_by_refresh=sum(r["changed"] for r in results),
                successful_answers=sum(r["success"] for r in results), wall_s=round(time.time() - t0, 1))


def write_replay(pid, why, rd):
    """replay file of one failure (JSON); `./check C15 --replay <file>` re-runs the history"""
    import checklib as cl
    os.makedirs(os.path.join(cl.REPLAYS, pid), exist_ok=True)
    body = json.dumps(rd, indent=1, sort_keys=True, default=str)
    path = os.path.join(cl.REPLAYS, pid, "%s-l3-%s.json" % (pid, hashlib.sha256(body.encode()).hexdigest()[:12]))
    with open(path, "w") as f:
        f.write(body + "\n")
    return path


def replay(binary, path):
    with open(path) as f:
        rd = json.load(f)
    return run(binary, int(rd["seed"]), rd["tier"], only=int(rd["history"]))


def describe(why, rd):
    """a few lines for the check's output"""
    o = ["  %s" % why,
         "  history %s kind %s (%s), cache mode %s%s, phase %s" % (rd.get("history"), rd.get("kind"), rd.get("update"), "all" if rd.get("cache_all") else "one",
                                                                    ", %s files left out of %s" % (rd["omit"], rd["omitted_from"]) if rd.get("omit") else "", rd.get("phase"))]
    if "request" in rd:
        o += ["  request        : %s" % rd["request"]["path"],
              "  before refresh : %s" % rd["answer_before_refresh"][:300],
              "  after refresh  : %s" % rd["answer_after_refresh"][:300],
              "  fresh server   : %s" % rd["answer_of_fresh_server"][:300]]
    for k in ("update_reply", "log", "traceback"):
        if k in rd and "request" not in rd:
            o.append("  %s: %s" % (k, str(rd[k])[:600]))
    return "\n".join(o)


if __name__ == "__main__":
    tier = sys.argv[1] if len(sys.argv) > 1 else "quick"
    seed = int(sys.argv[2]) if len(sys.argv) > 2 else 1
    binary, err = l3.build_server()
    if not binary:
        print(err)
        sys.exit(2)
    res = run(binary, seed, tier, only=int(sys.argv[3]) if len(sys.argv) > 3 else None)
    for (why, rd) in res["fails"][:10]:
        print(describe(why, rd))
    print({k: v for k, v in res.items() if k != "fails"}, "fails:", len(res["fails"]))
    sys.exit(1 if res["fails"] else 0)
