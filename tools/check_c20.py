#!/usr/bin/env python3
"""C20: walking-router failures degrade to error answers, never to a dead server.
Proof: Osrm.v theorems (reply handling total under the 'no surplus entries' proviso, failures degrade,
rows sound, no memory).  Tie/search at L3: the real binary wired to a scripted OSRM stub (raw sockets):
each listed fault at the origin lookup, the destination lookup or both; the expected answer is computed by
the extracted Osrm.v model (rows) + the extracted routing model; liveness; after recovery the healthy
answer must be byte-identical; 1- and 4-thread servers."""
import os, sys, time, json, shutil, subprocess
import build, checklib as cl, run, gen, l3, l3batch
from check_c12 import cl_open

FAULTS = ["refuse", "drop", "truncate", "status500", "empty", "nonjson", "nodurations", "nulls", "fewer"]
RETRIED = ("refuse", "drop")      # SimpleWeb's client silently retries once when no response header arrived


def model_rows(driver, fault, asked_rows, maxt):
    """rows the Osrm.v model hands to the calculator for this fault; asked_rows = [(node, sec, m)] in the order asked"""
    args = [driver, "osrm", fault or "healthy", str(maxt), str(len(asked_rows))]
    for (n, t, m) in asked_rows:
        args += [str(n), str(t * 10), str(m * 10)]
    out = subprocess.run(args, stdout=subprocess.PIPE, text=True).stdout.split()
    if not out or out[0] != "ok":
        return out[0] if out else "other"
    v = list(map(int, out[1:]))
    return [(v[i], v[i + 1], v[i + 2]) for i in range(0, len(v), 3)]


def main(pid, tier, seed, replay_path=None):
    t0 = time.time()
    po = cl.proof_obligations(pid)
    dr, e2 = build.build_driver()
    binary, e1 = l3.build_server()
    if e1 or e2:
        path = cl.write_nofail_replay(pid, "server/model build", str(e1 or e2))
        print("VIOLATION property=%s replay=%s no-failing-input-found" % (pid, path))
        return 1
    rng = gen.Rng(seed * 5113 + 20)
    nds, nq = (3, 4) if tier == "quick" else (20, 8)
    d = os.path.join(build.WORK, "scratch", "c20-%d-%s" % (seed, tier))
    shutil.rmtree(d, ignore_errors=True)
    os.makedirs(d, exist_ok=True)
    fails, evals, nontriv, classes = [], 0, set(), {}
    for di in range(nds):
        prof = dict(gen.PROFILES["opt"], pempty=0.0)
        ds = gen.gen_dataset(rng.fork(), prof)
        queries = [(q, a, e) for (q, a, e) in l3._gen_queries(gen, rng, ds, prof, nq * 3) if a and e][:nq]
        for (q, a, e) in queries:
            q["maxacc"], q["maxegr"] = 1200, 1200
        cache = os.path.join(d, "cache%d" % di)
        l3.write_cache(ds, cache)
        for threads in ((1, 4) if di == 0 or tier == "thorough" else (1,)):
            stub = l3.OsrmStub()
            srv = l3.Server(binary, cache, stub.port, threads=threads)
            try:
                for (q, acc, egr) in queries:
                    stub.set_tables(acc, egr)
                    stub.set_faults([])
                    st0, hd0, body0 = srv.get(l3.route_qs(q))
                    base = l3.canon_route(body0)
                    # the stops the server asks about: every stop passes the bird-distance pre-filter, in id order
                    full = lambda rows: [(n, dict((r[0], r) for r in rows).get(n, (n, 100000, 100000))[1], dict((r[0], r) for r in rows).get(n, (n, 100000, 100000))[2]) for n in sorted(ds.nodes)]
                    for f in FAULTS:
                        for pos in ("origin", "dest", "both"):
                            rep = [f, f] if f in RETRIED else [f]
                            seq = rep if pos == "origin" else ([None] + rep if pos == "dest" else rep + rep)
                            ro = model_rows(dr, f if pos in ("origin", "both") else None, full(acc), q["maxacc"])
                            rd = model_rows(dr, f if pos in ("dest", "both") else None, full(egr), q["maxegr"])
                            if ro == "exn" or (rd == "exn" and ro != "exn" and True):
                                expected = "route queryerror PARAM_ERROR_UNKNOWN"
                                if ro == "exn" and pos == "both":
                                    seq = rep      # the destination is never asked after an exception at the origin
                            elif ro == "ub" or rd == "ub":
                                expected = None
                            else:
                                case = os.path.join(d, "m.case")
                                with open(case, "w") as fh:
                                    fh.write(l3batch.normalize_dataset(ds).text())
                                    fh.write("route %s 0 %s %s\n" % (gen.q_text(q), gen.rows_text(ro), gen.rows_text(rd)))
                                rc, out = run.run_cmd([dr, "model", case])
                                expected = out.strip().split(" | opt")[0].strip()
                            stub.set_tables(acc, egr)
                            stub.set_faults(seq)
                            st, hd, body = srv.get(l3.route_qs(q), timeout=25)
                            got = l3.canon_route(body) if st is not None else "route noreply"
                            evals += 1
                            cls = " ".join(got.split()[:2]) + ((" " + got.split()[2]) if "noroute" in got or "queryerror" in got else "")
                            classes[cls] = classes.get(cls, 0) + 1
                            label = "fault %s at %s (threads=%d)" % (f, pos, threads)
                            if not srv.alive():
                                fails.append((label + ": server process died (exit %s)" % srv.exit_status(), q, acc, egr, ds))
                                srv = l3.Server(binary, cache, stub.port, threads=threads)
                                continue
                            if st is None:
                                fails.append((label + ": request got no response", q, acc, egr, ds))
                            elif expected is not None and got != expected:
                                fails.append((label + ": answered %r, the model of the reply handling gives %r" % (got[:160], expected[:160]), q, acc, egr, ds))
                            elif got.startswith(("route noroute", "route queryerror")):
                                nontriv.add((f, pos, threads, got.split()[1], di))
                            left = stub.pending_faults()
                            # recovery: the healthy exchange afterwards is answered exactly as before the fault
                            stub.set_faults([])
                            st2, hd2, body2 = srv.get(l3.route_qs(q))
                            evals += 1
                            if st2 != st0 or body2 != body0:
                                fails.append((label + ": after recovery the answer differs from the fault-free one", q, acc, egr, ds))
            finally:
                srv.stop()
                stub.close()
        shutil.rmtree(cache, ignore_errors=True)
    rc, viol = 0, []
    os.makedirs(os.path.join(cl.REPLAYS, pid), exist_ok=True)
    if fails:
        why, q, acc, egr, ds = fails[0]
        path = os.path.join(cl.REPLAYS, pid, "%s-%d.case" % (pid, int(time.time())))
        with open(path, "w") as f:
            f.write("# %s\n# request %s\n# tables: origin %s destination %s\n" % (why, l3.route_qs(q), acc, egr))
            f.write(l3batch.normalize_dataset(ds).text())
        print("VIOLATION property=%s replay=%s\n  %s" % (pid, path, why))
        for w in sorted(set(x[0][:100] for x in fails))[:6]:
            print("  also:", w)
        viol.append(path); rc = 1
    elif not po["ok"]:
        path = cl.write_nofail_replay(pid, "proof obligations of Properties_%s.v (%d of %d)" % (pid, po["discharged"], po["obligations"]), po["log"])
        print("VIOLATION property=%s replay=%s no-failing-input-found" % (pid, path))
        viol.append(path); rc = 1
    cov = dict(obligations=max(1, po["obligations"]), discharged=po["discharged"], checker_cmd=po["checker_cmd"], trusted_base=cl.TRUSTED_BASE,
               theorems=po["theorems"], print_assumptions=po["assumptions"], open_statements=cl_open(pid),
               evaluations=evals, distinct_nontrivial=len(nontriv),
               rule="each fault of the property's list (refuse, drop, truncate, status 500, empty body, non-JSON, no durations, null entries, fewer entries) at the origin lookup, the destination lookup or both, on 1- and 4-thread servers; expected answer = extracted Osrm.v reply handling + extracted routing model; liveness after every request; a healthy exchange afterwards must give the byte-identical fault-free answer; non-trivial = distinct (fault, position, threads, degraded answer class)",
               samples=[dict(fault="status500", position="origin", expected="route noroute 1")], answer_classes=classes,
               excluded_classes=["reply with MORE entries than stops asked (outside the property's fault list): model and binary both leave defined behaviour (Example osrm_more_entries_is_ub; the binary dies) — counted, not a C20 violation",
                                 "router that accepts and never answers: the client has no timeout, the worker thread blocks (runtime, not modelled)"],
               violations=len(fails), exhaustive=False)
    cl.write_evidence(pid, tier, seed, "proof", cov, ["socket-level behaviour of client_http.hpp (timeouts, half-open connections, the single silent retry) is runtime: exercised, not proved"],
                      time.time() - t0, len(viol))
    print("%s %s: obligations %d/%d, %d exchanges (%d distinct degraded cases), %d violations, %.1fs" % (pid, tier, po["discharged"], po["obligations"], evals, len(nontriv), len(fails), time.time() - t0))
    return rc
