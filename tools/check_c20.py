#!/usr/bin/env python3
"""C20: walking-router failures degrade to error answers, never to a dead server.
Proof: Osrm.v theorems (reply handling total under the 'no surplus entries' proviso, failures degrade,
rows sound, no memory).  Tie/search at L3: the real binary wired to a scripted OSRM stub (raw sockets):
each listed fault at the origin lookup, the destination lookup or both; the expected answer is computed by
the extracted Osrm.v model (rows) + the extracted routing model; liveness; after recovery the healthy
answer must be byte-identical; 1- and 4-thread servers.

Recovery histories: the stops of every dataset are spread over two or three clusters 39 km apart (l3.set_clusters), every
query has its origin point in the cluster of its first access row and its destination point in the cluster of its first
egress row, so the lookups of different requests have DIFFERENT candidate stop sets.  A history is
   healthy Q1  ->  Q1 with the fault  ->  healthy Q2 (origin lookup over another candidate set than the lookup that failed)
   ->  healthy Q1
and every healthy answer must be byte-identical to the answer the same request got in the fault-free exchange sequence at
the start of the server's life (which itself must agree with the model): state left behind by a failed lookup
(per thread, per calculator, per connection) shows up as a wrong answer to Q2 or to the second Q1."""
import os, sys, time, json, shutil, subprocess
import build, checklib as cl, run, gen, l3, l3batch
from check_c12 import cl_open

FAULTS = ["refuse", "drop", "truncate", "status500", "empty", "nonjson", "nodurations", "nodistances", "nulls", "fewer", "fewer_dist", "fewer_dur", "emptyrows", "emptydist", "streamcut_str", "streamcut_key", "nulldur_scalar_dist"]
RETRIED = ("refuse", "drop")      # SimpleWeb's client silently retries once when no response header arrived


def model_rows(driver, fault, asked_rows, maxt):
    """rows the Osrm.v model hands to the calculator for this fault; asked_rows = [(node, sec, m)] in the order asked"""
    args = [driver, "osrm", fault or "healthy", str(maxt), str(len(asked_rows))]
    for (n, t, m) in asked_rows:
        args += [str(n), str(t * 10), str(m * 10)]
    out = subprocess.run(args, stdout=subprocess.PIPE, text=True).stdout.split()
    if not out or out[0] != "ok":
        return out[0] if out else "other"
    v = list(map(int, out[1:]))
    return [(v[i], v[i + 1], v[i + 2]) for i in range(0, len(v), 3)]


def lookup_outcomes(conns):
    """Every way the connections the router stub handled for ONE request (the fault applied to each, in order) can be
    split over the origin lookup and the destination lookup, for the faults of RETRIED: a lookup takes one connection
    (healthy, or a fault that was not retried: a reset that reaches the client while it is still connecting is an error of
    connect(), which client_http.hpp does not retry) or two (a fault, then the single retry).
    -> set of (origin lookup failed, destination lookup failed)"""
    def one(cs):
        """-> [(failed, rest)]"""
        if not cs:
            return []
        out = [(cs[0] is not None, cs[1:])]
        if cs[0] is not None and len(cs) >= 2:
            out.append((cs[1] is not None, cs[2:]))
        return out
    res = set()
    for (o, rest) in one(list(conns)):
        for (dd, rest2) in one(rest):
            if not rest2:
                res.add((o, dd))
    return res


_memo = {}


def _memo_run(key, fn):
    if key not in _memo:
        _memo[key] = fn()
    return _memo[key]


def model_answer(dr, d, ds, q, ro, rd):
    """canonical answer of the extracted routing model for the footpath rows ro (origin) / rd (destination)"""
    def go():
        case = os.path.join(d, "m.case")
        with open(case, "w") as fh:
            fh.write(l3batch.normalize_dataset(ds).text())
            fh.write("route %s 0 %s %s\n" % (gen.q_text(q), gen.rows_text(ro), gen.rows_text(rd)))
        rc, out = run.run_cmd([dr, "model", case])
        return out.strip().split(" | opt")[0].strip()
    return _memo_run(("model", ds.c20key, gen.q_text(q), tuple(ro), tuple(rd)), go)


def pick_queries(rng, ds, prof, nq):
    """nq feasible-looking queries with their points placed in the clusters of their first access / egress rows;
    at least two different origin clusters among them (a query is made up when the generator gives none)"""
    cand = [(q, a, e) for (q, a, e) in l3._gen_queries(gen, rng, ds, prof, nq * 5) if a and e]
    for (q, a, e) in cand:
        q["maxacc"], q["maxegr"] = 1200, 1200
        q["origin_off"], q["dest_off"] = l3.lon_off(ds, a[0][0]), l3.lon_off(ds, e[0][0])
    out = cand[:nq]
    if out and len(set(q["origin_off"] for (q, _, _) in out)) < 2:
        other = [c for c in cand[nq:] if c[0]["origin_off"] != out[0][0]["origin_off"]]
        if other:
            out[-1] = other[0]
        else:
            q, a, e = out[-1]
            off = [o for o in sorted(set(ds.lon_off.values())) if o != q["origin_off"]][0]
            out[-1] = (dict(q, origin_off=off), [(l3.candidates(ds, off)[0], 0, 10)], e)
    return out


def main(pid, tier, seed, replay_path=None):
    t0 = time.time()
    po = cl.proof_obligations(pid)
    dr, e2 = build.build_driver()
    binary, e1 = l3.build_server()
    if e1 or e2:
        path = cl.write_nofail_replay(pid, "server/model build", str(e1 or e2))
        print("VIOLATION property=%s replay=%s no-failing-input-found" % (pid, path))
        return 1
    rng = gen.Rng(seed * 5113 + 20)
    nds, nq = (3, 4) if tier == "quick" else (20, 8)
    d = os.path.join(build.WORK, "scratch", "c20-%d-%s" % (seed, tier))
    shutil.rmtree(d, ignore_errors=True)
    os.makedirs(d, exist_ok=True)
    fails, evals, nontriv, classes = [], 0, set(), {}
    rec_hist, rec_answers, rec_distinct, clusters_used, baselines, unretried = 0, 0, 0, {}, 0, 0
    seq_count, seq_exchanges, seq_answers, far_checks = 0, 0, 0, 0
    for di in range(nds):
        prof = dict(gen.PROFILES["opt"], pempty=0.0)
        ds = gen.gen_dataset(rng.fork(), prof)
        ncl = 3 if (di % 3 == 2 and len(ds.nodes) >= 6) else 2
        l3.set_clusters(ds, ncl)
        ds.c20key = (seed, tier, di)
        clusters_used[str(ncl)] = clusters_used.get(str(ncl), 0) + 1
        queries = pick_queries(rng, ds, prof, nq)
        cache = os.path.join(d, "cache%d" % di)
        l3.write_cache(ds, cache)
        # the stops the server asks about: the stops of the point's cluster pass the bird-distance pre-filter, in id order
        def full(rows, off):
            t = dict((r[0], r) for r in rows)
            return [t.get(n, (n, l3.UNREACHABLE, l3.UNREACHABLE)) for n in l3.candidates(ds, off)]

        def rows_for(fault, rows, off, maxt):
            asked = full(rows, off)
            return _memo_run(("rows", fault, tuple(asked), maxt), lambda: model_rows(dr, fault, asked, maxt))
        for threads in ((1, 4) if di == 0 or tier == "thorough" else (1,)):
            stub = l3.OsrmStub()
            stub.set_layout(ds)
            srv = l3.Server(binary, cache, stub.port, threads=threads)
            try:
                # fault-free exchange sequence: the reference answers of this server's life
                ref = []
                for (q, acc, egr) in queries:
                    stub.set_tables(acc, egr)
                    stub.set_faults([])
                    st0, hd0, body0 = srv.get(l3.route_qs(q))
                    evals += 1
                    baselines += 1
                    ref.append((st0, body0))
                    want = model_answer(dr, d, ds, q, rows_for(None, acc, q["origin_off"], q["maxacc"]), rows_for(None, egr, q["dest_off"], q["maxegr"]))
                    got0 = l3.canon_route(body0) if st0 is not None else "route noreply"
                    if got0 != want:
                        fails.append(("fault-free exchange (threads=%d): answered %r, the model gives %r" % (threads, got0[:160], want[:160]), q, acc, egr, ds, []))
                # a request whose origin lies in a cluster WITHOUT stops: the straight-line pre-filter finds nothing, the router is
                # not asked for the origin at all (NO_ACCESS_AT_ORIGIN).  Its fault-free answer is the reference for the same request
                # sent right after a fault: state left behind by a failed lookup must not leak into a lookup that needs no router
                far_q = dict(queries[0][0], origin_off=9 * l3.CLUSTER_STEP)
                stub.set_tables(queries[0][1], queries[0][2])
                stub.set_faults([])
                far_ref = srv.get(l3.route_qs(far_q))[::2]
                evals += 1
                turn = 0
                for qi, (q, acc, egr) in enumerate(queries):
                    st0, body0 = ref[qi]
                    for f in FAULTS:
                        for pos in ("origin", "dest", "both"):
                            rep = [f, f] if f in RETRIED else [f]
                            seq = rep if pos == "origin" else ([None] + rep if pos == "dest" else rep + rep)
                            ro = rows_for(f if pos in ("origin", "both") else None, acc, q["origin_off"], q["maxacc"])
                            rd = rows_for(f if pos in ("dest", "both") else None, egr, q["dest_off"], q["maxegr"])
                            if ro == "exn" or (rd == "exn" and ro != "exn" and True):
                                expected = "route queryerror PARAM_ERROR_UNKNOWN"
                                if ro == "exn" and pos == "both":
                                    seq = rep      # the destination is never asked after an exception at the origin
                            elif ro == "ub" or rd == "ub":
                                expected = None
                            else:
                                expected = model_answer(dr, d, ds, q, ro, rd)
                            stub.set_tables(acc, egr)
                            stub.set_faults(seq)
                            n_conn, n_req = len(stub.faults_applied), len(stub.requests_seen)
                            st, hd, body = srv.get(l3.route_qs(q), timeout=25)
                            got = l3.canon_route(body) if st is not None else "route noreply"
                            evals += 1
                            cls = " ".join(got.split()[:2]) + ((" " + got.split()[2]) if "noroute" in got or "queryerror" in got else "")
                            classes[cls] = classes.get(cls, 0) + 1
                            label = "fault %s at %s (threads=%d)" % (f, pos, threads)
                            hist = ["healthy  %s" % l3.route_qs(q), "%-8s %s   (router script %s)" % ("FAULT", l3.route_qs(q), seq)]
                            if not srv.alive():
                                fails.append((label + ": server process died (exit %s)" % srv.exit_status(), q, acc, egr, ds, hist))
                                srv = l3.Server(binary, cache, stub.port, threads=threads)
                                continue
                            conns = stub.faults_applied[n_conn:]
                            if st is not None and f in RETRIED and expected is not None and got != expected and len(conns) != len(seq) + (1 if pos == "origin" else 0):
                                # the connections were not used the way the script assumes (fault, silent retry, ...): accept the
                                # model's answer for any split of the connections actually made over the two lookups
                                alts = set(model_answer(dr, d, ds, q, rows_for(f if o else None, acc, q["origin_off"], q["maxacc"]),
                                                        rows_for(f if dd else None, egr, q["dest_off"], q["maxegr"])) for (o, dd) in lookup_outcomes(conns))
                                if got in alts:
                                    unretried += 1
                                    expected = got
                            if st is None:
                                fails.append((label + ": request got no response", q, acc, egr, ds, hist))
                            elif expected is not None and got != expected:
                                hist = hist + ["the router stub handled the connections %s (fault applied to each), read the lookups %s, script left over %s"
                                               % (stub.faults_applied[n_conn:], stub.requests_seen[n_req:], stub.pending_faults())]
                                fails.append((label + ": answered %r, the model of the reply handling gives %r" % (got[:160], expected[:160]), q, acc, egr, ds, hist))
                            elif got.startswith(("route noroute", "route queryerror")):
                                nontriv.add((f, pos, threads, got.split()[1], di))
                            left = stub.pending_faults()
                            # recovery history: a healthy request whose ORIGIN lookup (the next lookup of a one-thread server)
                            # runs over another candidate set than the first lookup that failed, then the faulted request again,
                            # healthy: both are answered exactly as in the fault-free sequence
                            stale = q["origin_off"] if pos in ("origin", "both") else q["dest_off"]
                            partners = [j for j in range(len(queries)) if j != qi and queries[j][0]["origin_off"] != stale] or \
                                       [j for j in range(len(queries)) if queries[j][0]["origin_off"] != stale] or \
                                       [j for j in range(len(queries)) if j != qi] or [qi]
                            pj = partners[turn % len(partners)]
                            turn += 1
                            rec_hist += 1
                            if queries[pj][0]["origin_off"] != stale:
                                rec_distinct += 1
                            if turn % 2 == 0:
                                stub.set_faults([])
                                stub.set_tables(queries[0][1], queries[0][2])      # the tables the reference answer was made with
                                stf, hdf, bodyf = srv.get(l3.route_qs(far_q))
                                evals += 1
                                far_checks += 1
                                if (stf, bodyf) != far_ref:
                                    fails.append((label + ": right after the fault a request whose origin has no stop in reach (the router is not asked) is answered %r, fault-free it is %r"
                                                  % ((l3.canon_route(bodyf) if stf is not None else "route noreply")[:120], l3.canon_route(far_ref[1])[:120]), q, acc, egr, ds,
                                                  hist + ["healthy  %s" % l3.route_qs(far_q)]))
                            for (j, what) in ((pj, "another request"), (qi, "the same request")):
                                q2, acc2, egr2 = queries[j]
                                stub.set_tables(acc2, egr2)
                                stub.set_faults([])
                                st2, hd2, body2 = srv.get(l3.route_qs(q2))
                                evals += 1
                                rec_answers += 1
                                hist = hist + ["healthy  %s   (tables: origin %s destination %s)" % (l3.route_qs(q2), acc2, egr2)]
                                if not srv.alive():
                                    fails.append((label + ": server process died (exit %s) on %s after recovery" % (srv.exit_status(), what), q, acc, egr, ds, hist))
                                    srv = l3.Server(binary, cache, stub.port, threads=threads)
                                    break
                                if (st2, body2) != ref[j]:
                                    g2 = l3.canon_route(body2) if st2 is not None else "route noreply"
                                    fails.append((label + ": after recovery %s (origin cluster %d, destination cluster %d; the failed lookup was over cluster %d) "
                                                  "is answered %r, fault-free it is %r" % (what, q2["origin_off"] // l3.CLUSTER_STEP, q2["dest_off"] // l3.CLUSTER_STEP,
                                                                                         stale // l3.CLUSTER_STEP, g2[:120], l3.canon_route(ref[j][1])[:120]), q, acc, egr, ds, hist))
                # random SEQUENCES of faults: several faulted exchanges in a row (different faults, different requests, any
                # position), then every request healthy again: all must be answered as in the fault-free exchange sequence
                srng = gen.Rng((seed * 977 + di) * 31 + threads)
                for si in range(6 if tier == "quick" else 20):
                    if not srv.alive():
                        srv = l3.Server(binary, cache, stub.port, threads=threads)
                    hist = []
                    for _ in range(srng.randint(3, 6)):
                        qi2 = srng.randint(0, len(queries) - 1)
                        q2, acc2, egr2 = queries[qi2]
                        f1, f2 = srng.choice(FAULTS + [None]), srng.choice(FAULTS + [None, None])
                        script = ([f1, f1] if f1 in RETRIED else [f1]) + ([f2, f2] if f2 in RETRIED else [f2])
                        stub.set_tables(acc2, egr2)
                        stub.set_faults(script)
                        st2, hd2, body2 = srv.get(l3.route_qs(q2), timeout=25)
                        evals += 1
                        seq_exchanges += 1
                        hist.append("%-8s %s   (router script %s)" % ("FAULTS", l3.route_qs(q2), script))
                        if st2 is None or not srv.alive():
                            fails.append(("fault sequence (threads=%d): request got no response / server died (exit %s)" % (threads, srv.exit_status()), q2, acc2, egr2, ds, list(hist)))
                            break
                    stub.set_faults([])
                    if not srv.alive():
                        continue
                    stub.set_tables(queries[0][1], queries[0][2])
                    stf, hdf, bodyf = srv.get(l3.route_qs(far_q))
                    evals += 1
                    far_checks += 1
                    if (stf, bodyf) != far_ref:
                        fails.append(("after a sequence of %d faulted exchanges (threads=%d) a request whose origin has no stop in reach is answered %r, fault-free it is %r"
                                      % (len(hist), threads, (l3.canon_route(bodyf) if stf is not None else "route noreply")[:120], l3.canon_route(far_ref[1])[:120]),
                                      far_q, [], [], ds, hist + ["healthy  %s" % l3.route_qs(far_q)]))
                    for j, (q2, acc2, egr2) in enumerate(queries):
                        stub.set_tables(acc2, egr2)
                        stub.set_faults([])
                        st2, hd2, body2 = srv.get(l3.route_qs(q2))
                        evals += 1
                        seq_answers += 1
                        if (st2, body2) != ref[j]:
                            g2 = l3.canon_route(body2) if st2 is not None else "route noreply"
                            fails.append(("after a sequence of %d faulted exchanges (threads=%d) a healthy request is answered %r, fault-free it is %r"
                                          % (len(hist), threads, g2[:120], l3.canon_route(ref[j][1])[:120]), q2, acc2, egr2, ds, hist + ["healthy  %s" % l3.route_qs(q2)]))
                            break
                    seq_count += 1
            finally:
                srv.stop()
                stub.close()
        shutil.rmtree(cache, ignore_errors=True)
    rc, viol = 0, []
    os.makedirs(os.path.join(cl.REPLAYS, pid), exist_ok=True)
    if fails:
        why, q, acc, egr, ds, hist = fails[0]
        path = os.path.join(cl.REPLAYS, pid, "%s-%d.case" % (pid, int(time.time())))
        with open(path, "w") as f:
            f.write("# %s\n# request %s\n# tables: origin %s destination %s\n" % (why, l3.route_qs(q), acc, egr))
            f.write("# stop clusters (stop: cluster; cluster k lies %.1f degrees of longitude east of cluster 0): %s\n"
                    % (l3.CLUSTER_STEP / 1e6, " ".join("%d:%d" % (n, l3.lon_off(ds, n) // l3.CLUSTER_STEP) for n in sorted(ds.nodes))))
            for h in hist:
                f.write("# history: %s\n" % h)
            f.write(l3batch.normalize_dataset(ds).text())
        print("VIOLATION property=%s replay=%s\n  %s" % (pid, path, why))
        for w in sorted(set(x[0][:100] for x in fails))[:6]:
            print("  also:", w)
        viol.append(path); rc = 1
    elif not po["ok"]:
        path = cl.write_nofail_replay(pid, "proof obligations of Properties_%s.v (%d of %d)" % (pid, po["discharged"], po["obligations"]), po["log"])
        print("VIOLATION property=%s replay=%s no-failing-input-found" % (pid, path))
        viol.append(path); rc = 1
    cov = dict(obligations=max(1, po["obligations"]), discharged=po["discharged"], checker_cmd=po["checker_cmd"], trusted_base=cl.TRUSTED_BASE,
               theorems=po["theorems"], print_assumptions=po["assumptions"], open_statements=cl_open(pid),
               evaluations=evals, distinct_nontrivial=len(nontriv),
               recovery_histories=rec_hist, recovery_answers=rec_answers, recovery_histories_distinct_candidate_sets=rec_distinct,
               clusters_used=clusters_used, fault_free_reference_answers=baselines, connect_resets_not_retried=unretried,
               requests_without_router_lookup_after_a_fault=far_checks, fault_sequences=seq_count, fault_sequence_exchanges=seq_exchanges, answers_after_fault_sequences=seq_answers,
               rule="each fault of the property's list (refuse, drop, truncate, status 500, empty body, non-JSON, no durations, null entries, fewer entries, a null first entry of durations with a scalar for distances - {\"durations\":[null],\"distances\":5}: the client's && chain must not evaluate distances[0]; also replies streamed without Content-Length that end inside a string literal or an object key, with waypoint objects carrying quotes and backslashes) at the origin lookup, the destination lookup or both, on 1- and 4-thread servers; expected answer = extracted Osrm.v reply handling + extracted routing model; liveness after every request; "
                    "stops spread over 2 or 3 clusters 39 km apart so that lookups have different candidate stop sets; recovery history after every fault = healthy request with its origin in another cluster than the failed lookup, then the faulted request again, healthy: both must get the byte-identical answer of the fault-free exchange sequence (which must equal the model's answer); non-trivial = distinct (fault, position, threads, degraded answer class); plus random SEQUENCES of 3-6 faulted exchanges (any fault at either lookup, different requests) followed by every request healthy: byte-identical to the fault-free answers",
               samples=[dict(fault="status500", position="origin", expected="route noroute 1")], answer_classes=classes,
               excluded_classes=["reply with MORE entries than stops asked (outside the property's fault list): model and binary both leave defined behaviour (Example osrm_more_entries_is_ub; the binary dies) — counted, not a C20 violation",
                                 "router that accepts and never answers: the client has no timeout, the worker thread blocks (runtime, not modelled)",
                                 "a reset that reaches the client before its connect() completed is not retried by client_http.hpp (about 1 in 10^4 'refuse' connections): the answer is then compared with the model for the split of the connections actually made (connect_resets_not_retried)"],
               violations=len(fails), exhaustive=False)
    cl.write_evidence(pid, tier, seed, "proof", cov, ["socket-level behaviour of client_http.hpp (timeouts, half-open connections, the single silent retry) is runtime: exercised, not proved"],
                      time.time() - t0, len(viol))
    print("%s %s: obligations %d/%d, %d exchanges (%d distinct degraded cases), %d recovery histories (%d with a different candidate set, %d answers), %d violations, %.1fs"
          % (pid, tier, po["discharged"], po["obligations"], evals, len(nontriv), rec_hist, rec_distinct, rec_answers, len(fails), time.time() - t0))
    return rc
