from check_l3 import main_c19 as main
