#!/usr/bin/env python3
"""C13 (history independence), C14 (any schedule), C15 (refresh): state-machine theorems in Coq
(Proofs/ServerInv.v) + L2 ties on the real TransitData / cache / Calculator:
  C13: request histories on one TransitData in both cache modes, permuted and with repeats;
  C14: forced schedules at the four yield points of getConnectionsForScenario (TRROUTING_VERIF hook), then a free-running
       phase (tools/c14stress.py: 4-8 threads, no forced scheduling, fresh TransitData every round), plain and under
       ThreadSanitizer;
  C15: histories with refreshes (update functions in the /updateCache handler's order) over dataset pairs.
Every response is compared with the extracted model's history-free answer (which the theorems show to be
what the state machine returns) and with the same request on a fresh process (implementation-only)."""
import os, sys, time, json, shutil, itertools, subprocess
import build, checklib as cl, run, gen
from check_c12 import parse_case, cl_open


def norm(line):
    return line.split(" | opt")[0].strip()


def write_case(path, ds_lines, ops):
    with open(path, "w") as f:
        f.write("\n".join(ds_lines + ops) + "\n")


def interleavings(counts):
    """all sequences over thread ids with counts[i] occurrences of i"""
    total = sum(counts)
    def rec(rem, acc):
        if len(acc) == total:
            yield list(acc)
            return
        for i in range(len(rem)):
            if rem[i] > 0:
                rem[i] -= 1
                acc.append(i)
                yield from rec(rem, acc)
                acc.pop()
                rem[i] += 1
    yield from rec(list(counts), [])


def modify_dataset(rng, ds_lines, scen_too=True):
    """a second dataset on the same stops/lines/paths: some trips dropped, times moved, scenario 3 changed"""
    out = []
    trips = [l for l in ds_lines if l.startswith("trip ")]
    keep_all = rng.chance(0.3)
    for l in ds_lines:
        t = l.split()
        if t[0] == "trip":
            if not keep_all and len(trips) > 1 and rng.chance(0.3):
                continue
            n = int(t[4])
            shift = rng.choice([0, 0, 60, 300, -120, 900])
            vals = t[5:]
            for i in range(n):
                vals[4 * i] = str(max(0, int(vals[4 * i]) + shift))
                vals[4 * i + 1] = str(max(0, int(vals[4 * i + 1]) + shift))
            out.append(" ".join(t[:5] + vals))
        elif scen_too and t[0] == "scen" and t[1] == "2" and rng.chance(0.5):
            out.append("scen 2 1 2 0 0 0 0 0 0 0 0")
        else:
            out.append(l)
    if not any(l.startswith("trip ") for l in out):
        out.insert(-1, trips[0])
    return out


def main(pid, tier, seed, replay_path=None):
    t0 = time.time()
    if pid == "C15" and replay_path and replay_path.endswith(".json"):
        return replay_l3(pid, replay_path)
    if pid in ("C13", "C14") and replay_path and replay_path.endswith(".json"):
        return replay_l3(pid, replay_path, hist=True)
    if pid == "C14" and replay_path and is_stress_case(replay_path):
        return replay_stress(pid, tier, seed, replay_path)
    po = cl.proof_obligations(pid)
    l2, e1 = build.build_l2()
    dr, e2 = build.build_driver()
    if e1 or e2:
        path = cl.write_nofail_replay(pid, "harness/model build", e1 or e2)
        print("VIOLATION property=%s replay=%s no-failing-input-found" % (pid, path))
        return 1
    d = os.path.join(build.WORK, "scratch", "%s-%d-%s" % (pid.lower(), seed, tier))
    shutil.rmtree(d, ignore_errors=True)
    for suf in (".one", ".all", ".fresh"):
        shutil.rmtree(d + suf, ignore_errors=True)
    os.makedirs(d, exist_ok=True)
    rng = gen.Rng(seed * 31337 + {"C13": 1, "C14": 2, "C15": 3}[pid])
    n = {"quick": 60, "thorough": 900}[tier]
    base = [replay_path] if replay_path else gen.gen_batch(os.path.join(d, "base"), seed + 300, n, 12, profiles=("opt", "grid", "tiny", "loops"))
    cases = []
    meta = {}
    for ci, c in enumerate(base):
        ds, ops = parse_case(c)
        qops = [o for o in ops if o.split()[0] in ("route", "access")]
        if len(qops) < 4:
            continue
        if replay_path:
            cases.append(c)
            continue
        if pid == "C13":
            # history: original order, then a permutation with repeats
            h = list(qops)
            perm = rng.sample(h, len(h)) + [rng.choice(h) for _ in range(6)]
            # force the cache pattern miss / hit / replaced-before-use: same scenario ... other scenario ... same scenario
            p = os.path.join(d, "h%04d.case" % ci)
            write_case(p, ds, h + perm)
            cases.append(p)
        elif pid == "C14":
            k = 2 if rng.chance(0.7) else 3
            chosen = rng.sample(qops, k)
            # make sure at least two scenarios take part
            if len(set(o.split()[1] for o in chosen)) < 2:
                t = chosen[-1].split()
                t[1] = "2" if t[1] != "2" else "1"
                chosen[-1] = " ".join(t)
            warm = [rng.choice(qops)] if rng.chance(0.5) else []
            counts = [3] * k
            scheds = list(interleavings(counts))
            if k == 3 or tier == "quick":
                scheds = rng.sample(scheds, 8 if tier == "quick" else 60)
            for si, sc in enumerate(scheds):
                p = os.path.join(d, "s%04d_%03d.case" % (ci, si))
                write_case(p, ds, warm + ["parallel %d %d %s" % (k, len(sc), " ".join(map(str, sc)))] + chosen + [rng.choice(qops)])
                cases.append(p)
        else:
            kind = rng.choice([0, 1, 2])
            # the refresh kind covers what changed on disk: scenario files change only when they are re-read
            ds2 = modify_dataset(rng, ds, scen_too=(kind != 1))
            h1 = rng.sample(qops, min(len(qops), 5))
            h2 = rng.sample(qops, min(len(qops), 6))
            ops2 = h1 + ["refresh %d" % kind] + ds2 + h2
            if rng.chance(0.4):
                ops2 += ["refresh %d" % rng.choice([0, 2])] + ds + rng.sample(qops, 3)
            p = os.path.join(d, "r%04d.case" % ci)
            with open(p, "w") as f:
                f.write("\n".join(ds + ops2) + "\n")
            cases.append(p)
            meta[p] = kind
    env_all = dict(os.environ, L2_CACHE_ALL="1")
    recs_one = run.run_batch(cases, l2, dr, d + ".one")
    recs_all = run.run_batch(cases, l2, dr, d + ".all", env=env_all)
    evals, fails, nontriv, diffs = 0, [], set(), []
    traces = set()
    for mode, recs in (("one", recs_one), ("all", recs_all)):
        seen_scen = {}
        for r in recs:
            k0 = r["op"].split()[0]
            if k0 in ("parallel",):
                traces.add(r["impl"])
                if r["impl"].split()[:1] != ["parallel"]:
                    fails.append(("concurrent run did not complete: " + r["impl"][:80], r, mode))
                continue
            if k0 in ("refresh", "dataset", "index") or r["impl"].startswith(("nodes", "fp", "rfp", "line", "path", "trip", "scen", "end")):
                # refresh lines: the status must agree too
                if k0 == "refresh" and r["impl"].strip() != r["model"].strip():
                    fails.append(("data status after the refresh differs from a fresh start", r, mode))
                continue
            if k0 not in ("route", "access"):
                continue
            evals += 1
            if norm(r["impl"]) != norm(r["model"]):
                fails.append(("response differs from the answer of a fresh server (model of the state machine)", r, mode))
            key = (r["case"], mode)
            hist = seen_scen.setdefault(key, [])
            sc = r["op"].split()[1]
            if sc in hist and hist and hist[-1] != sc:
                nontriv.add(r["case"] + r["op"] + mode + str(len(hist)))
            hist.append(sc)
    # dataset-block lines of refresh ops appear as pseudo-operations in run.py's op list: ignore them above.
    # implementation-only oracle: a sample of requests on a fresh process
    fresh_checked = 0
    if not replay_path and pid in ("C13", "C15"):
        sample = [r for r in recs_one if r["op"].split()[0] in ("route", "access")]
        sample = rng.sample(sample, min(len(sample), 150 if tier == "quick" else 1500))
        fdir = d + ".freshcases"
        shutil.rmtree(fdir, ignore_errors=True)
        os.makedirs(fdir, exist_ok=True)
        fcases = []
        for i, r in enumerate(sample):
            ds_in_force = dataset_in_force(r["case"], r["idx"])
            fp = os.path.join(fdir, "f%05d.case" % i)
            write_case(fp, ds_in_force, [r["op"]])
            fcases.append((fp, r))
        frecs = run.run_batch([f for f, _ in fcases], l2, dr, d + ".fresh")
        fby = {fr["case"]: fr for fr in frecs}
        for fp, r in fcases:
            fr = fby.get(fp)
            if fr is None:
                continue
            fresh_checked += 1
            if norm(fr["impl"]) != norm(r["impl"]):
                fails.append(("response differs from the same request on a freshly started instance: " + norm(fr["impl"])[:200], r, "one"))
    # C15 only: refresh histories on the REAL server binary over HTTP (the /updateCache handler and the data status the
    # endpoints answer from exist only there)
    l3res, l3fails = None, []
    if pid == "C15" and not replay_path:
        import l3, l3refresh
        binary, e3 = l3.build_server()
        if e3:
            path = cl.write_nofail_replay(pid, "server build (L3 refresh histories)", str(e3))
            print("VIOLATION property=%s replay=%s no-failing-input-found" % (pid, path))
            return 1
        l3res = l3refresh.run(binary, seed, tier)
        l3fails = l3res["fails"]
    # C13 only: request histories on the REAL server binary over HTTP, router-stub and Euclidean walking modes (the handlers,
    # the walking filters and the per-thread calculator exist only there): three orders of one request set + fresh servers
    l3h, l3hfails = None, []
    if pid == "C13" and not replay_path:
        import l3, l3hist
        binary, e3 = l3.build_server()
        if e3:
            path = cl.write_nofail_replay(pid, "server build (L3 request histories)", str(e3))
            print("VIOLATION property=%s replay=%s no-failing-input-found" % (pid, path))
            return 1
        l3h = l3hist.run(binary, seed, tier)
        l3hfails = l3h["fails"]
    # C14 only: free-running phase on the real classes (no forced scheduling), plain build and ThreadSanitizer build
    fr, frfails = None, []
    if pid == "C14" and not replay_path:
        import c14stress
        fr = c14stress.run(l2, dr, seed, tier, d + ".free", [c for c in base])
        frfails = fr["fails"]
    # C14 only: the REAL multi-threaded server under concurrent HTTP clients (handlers, factories, geo filter, worker threads)
    l3c, l3cfails = None, []
    if pid == "C14" and not replay_path:
        import l3, l3hist
        binary, e3 = l3.build_server()
        if e3:
            path = cl.write_nofail_replay(pid, "server build (L3 concurrent clients)", str(e3))
            print("VIOLATION property=%s replay=%s no-failing-input-found" % (pid, path))
            return 1
        l3c = l3hist.run_concurrent(binary, seed, tier)
        l3cfails = l3c["fails"]
    rc, viol = 0, []
    if l3cfails:
        why, rd = l3cfails[0]
        path = l3hist.write_replay(pid, why, rd)
        print("VIOLATION property=%s replay=%s" % (pid, path))
        print(l3hist.describe(why, rd))
        viol.append(path); rc = 1
    if frfails:
        why, info = frfails[0]
        path = c14stress.write_replay(pid, why, info)
        print("VIOLATION property=%s replay=%s" % (pid, path))
        print(c14stress.describe(why, info))
        for w in sorted(set(x[0][:150] for x in frfails[1:]))[:6]:
            print("  also:", w)
        viol.append(path); rc = 1
    if fr is not None and fr["unchecked"] and not frfails:
        path = cl.write_nofail_replay(pid, fr["unchecked"][0], fr["unchecked"][1])
        print("VIOLATION property=%s replay=%s no-failing-input-found" % (pid, path))
        viol.append(path); rc = 1
    if l3hfails:
        why, rd = l3hfails[0]
        path = l3hist.write_replay(pid, why, rd)
        print("VIOLATION property=%s replay=%s" % (pid, path))
        print(l3hist.describe(why, rd))
        for w in sorted(set("history %s (%s): %s" % (x[1].get("history"), x[1].get("mode"), str(x[1].get("request", x[0]))[:140]) for x in l3hfails[1:]))[:6]:
            print("  also:", w)
        viol.append(path); rc = 1
    if l3fails:
        why, rd = l3fails[0]
        path = l3refresh.write_replay(pid, why, rd)
        print("VIOLATION property=%s replay=%s" % (pid, path))
        print(l3refresh.describe(why, rd))
        for w in sorted(set("history %s kind %s phase %s: %s" % (x[1].get("history"), x[1].get("kind"), x[1].get("phase"), x[0][:90]) for x in l3fails[1:]))[:8]:
            print("  also:", w)
        viol.append(path); rc = 1
    if fails:
        why, r, mode = fails[0]
        path = cl.write_replay_file(pid, r["case"], "%s (cache mode %s, op #%d: %s)" % (why, mode, r["idx"], r["op"]), r)
        print("VIOLATION property=%s replay=%s" % (pid, path))
        print("  %s\n  cache mode: %s\n  op   : %s\n  impl : %s\n  model: %s" % (why, mode, r["op"], r["impl"][:300], r["model"][:300]))
        viol.append(path); rc = 1
    elif not po["ok"] and not l3fails and not l3hfails and not l3cfails and not viol:
        path = cl.write_nofail_replay(pid, "proof obligations of Properties_%s.v (%d of %d)" % (pid, po["discharged"], po["obligations"]), po["log"])
        print("VIOLATION property=%s replay=%s no-failing-input-found" % (pid, path))
        viol.append(path); rc = 1
    samples = []
    for c in cases[:2]:
        samples.append(dict(case=os.path.basename(c), operations=[o[:120] for o in parse_case(c)[1][:8]]))
    if traces:
        samples.append(dict(forced_schedule_trace=sorted(traces)[0][:300]))
    cov = dict(obligations=max(1, po["obligations"]), discharged=po["discharged"], checker_cmd=po["checker_cmd"], trusted_base=cl.TRUSTED_BASE,
               theorems=po["theorems"], print_assumptions=po["assumptions"], open_statements=cl_open(pid),
               evaluations=evals, distinct_nontrivial=len(nontriv) if pid != "C14" else len(traces),
               rule={"C13": "request histories (original order + permutation with repeats) over 3 scenarios on ONE TransitData, cache modes one/all; each response compared with the model's fresh answer and a sample with a fresh process; non-trivial = the request's scenario was cached earlier and another scenario was queried in between (miss, hit, replaced)",
                     "C14": "2-3 concurrent requests over >=2 scenarios, one thread each, under forced schedules at the four yield points (all 20 interleavings for 2 threads in thorough, samples otherwise), cold and warmed caches, both cache modes; non-trivial = distinct observed yield-point traces. Free-running phase: 4-8 threads started together behind a barrier, each with a list of 6 route/accessibility requests (rotated in every second round) over 2-3 scenarios against ONE TransitData, no forced scheduling (the hook yields with probability 0-60 % or does nothing, optional start jitter <= 100 us), a fresh TransitData every round, both cache modes, datasets of the generators plus a profile with a few hundred connections; every response compared with the sequential response of the same request and with the model; the same phase on a harness built with -fsanitize=thread (fewer rounds): every unsuppressed ThreadSanitizer report is a violation, the first report goes into the replay file",
                     "C15": "histories with refreshes of kind all / schedules / scenarios+schedules between dataset pairs (trips dropped, times moved, scenario lists changed), both cache modes; non-trivial = request for a scenario cached before the refresh"}[pid],
               samples=samples or [dict(note="none")], histories=len(cases), fresh_process_comparisons=fresh_checked,
               disagreements=len(fails) + len(l3fails) + len(frfails) + len(l3hfails) + len(l3cfails), exhaustive=False)
    if l3c is not None:
        cov.update(l3_concurrent_servers=l3c["histories"], l3_concurrent_answers=l3c["evaluations"], l3_concurrent_disagreements=len(l3cfails),
                   l3_concurrent_rule="real binary with --threads=4 --useEuclideanDistance=true (answers are a function of the request alone), both cache modes: 8 client threads send one request set (route, alternatives, summary, accessibility, invalid requests; walking-limit sweep) in their own shuffled orders, 2 (quick) / 4 (thorough) rounds each; every response must equal the response of a one-thread server asked sequentially; the process must stay alive")
    if l3h is not None:
        cov.update(l3_histories=l3h["histories"], l3_answers=l3h["evaluations"], l3_requests=l3h["requests"],
                   l3_successful_requests=l3h["successful_requests"], l3_distinct_answers=l3h["distinct_answers"],
                   l3_euclidean_histories=l3h["euclidean_histories"], l3_router_histories=l3h["router_histories"],
                   l3_disagreements=len(l3hfails),
                   l3_rule="real binary over HTTP, walking router stub and --useEuclideanDistance=true alternately, both cache modes: one request set (route, alternatives, summary, accessibility over scenarios 1-4, both time types, four invalid requests in between; Euclidean mode: the same points with a sweep of walking limits 6..45 s that cuts the stop set at every stop) answered by three servers in the given, the reverse and a shuffled order with repeats, plus single requests on servers started for them alone: every request must get the same answer everywhere")
    if fr is not None:
        cov.update(free_running_rounds=fr["rounds"], free_running_responses=fr["responses"], free_running_datasets=fr["datasets"],
                   free_running_big_datasets=fr["big_datasets"], free_running_threads=fr["threads"], free_running_disagreements=len(frfails),
                   tsan_rounds=fr["tsan_rounds"], tsan_responses=fr["tsan_responses"], tsan_reports=fr["tsan_reports"],
                   tsan_report_kinds=fr["tsan_report_kinds"], tsan_suppressions=fr["tsan_suppressions"],
                   tsan_suppressions_matched=fr["tsan_suppressions_matched"], tsan_datasets=fr["tsan_datasets"],
                   free_running_wall_s=fr.get("wall_s"), tsan_wall_s=fr.get("tsan_wall_s"), tsan_build_s=fr.get("tsan_build_s"))
    if l3res is not None:
        cov.update(l3_refresh_histories=l3res["histories"], l3_refresh_answers=l3res["evaluations"], l3_refresh_kinds=l3res["kinds"],
                   l3_refresh_cache_modes=l3res["cache_modes"], l3_refresh_omitted=l3res["omitted"],
                   l3_refresh_answers_changed=l3res["answers_changed_by_refresh"], l3_refresh_disagreements=len(l3fails),
                   l3_refresh_rule="real binary over HTTP: server started on dataset A's cache files (k4: one kind of files missing), query set of 9 requests (route, alternatives, summary, accessibility; scenarios 1-3; both time types), files replaced by dataset B's (k5: one kind removed), GET /updateCache?names=all | schedules | scenarios,schedules, the queries again: every answer must equal the answer of a server newly started on the same directory; then A's files are put back, /updateCache again, and every answer must equal the start-up answer; replies of /updateCache must be the success object, the process must stay alive. Kinds k6 (schedules named first), k7 (names=scenarios: scenario 2 disappears, then returns under another definition) and kr: RANDOM SEQUENCES of 3-4 steps (trips moved/dropped, scenario 2 redefined / removed / back, both, a new line), each refreshed with a randomly chosen cache-name list that covers what changed (never an upstream collection alone), every answer after every step compared with a freshly started server; requests on scenario 2 are planned on the trips its definition admits at that step")
    assumptions = {"C13": ["L2 part: one TransitData per history (table geofilters); the HTTP handlers, walking filters and per-thread calculator of the real process are covered by the L3 part (metamorphic: same request set in three orders + fresh servers), not by the model"],
                   "C14": ["lookup and publish are atomic (shared_mutex) and a thread keeps its shared_ptr: trusted runtime; data races, torn updates and lifetimes are exercised (forced schedules; free-running threads on a plain and on a ThreadSanitizer build in both tiers), not proved",
                           "alternatives re-fetch the set at every recalculation; the protocol model fetches once per request"],
                   "C15": ["L2 part: refresh = TransitData::update* in the /updateCache handler's order on an in-memory fetcher; the HTTP handler and the data status the endpoints answer from are exercised by the L3 part (real binary, Cap'n Proto files rewritten on disk, /updateCache over HTTP)"]}[pid]
    cl.write_evidence(pid, tier, seed, "proof", cov, assumptions, time.time() - t0, len(viol))
    l3txt = "" if l3res is None else " L3 (real server, /updateCache over HTTP): %d answers after refresh in %d histories %s, %d changed by the refresh, %d differ from a fresh server, %.1fs;" % (
        l3res["evaluations"], l3res["histories"], " ".join("%s=%d" % kv for kv in sorted(l3res["kinds"].items())), l3res["answers_changed_by_refresh"], len(l3fails), l3res["wall_s"])
    frtxt = "" if fr is None else " free-running: %d responses in %d rounds (%d datasets, %d large), ThreadSanitizer: %d responses in %d rounds, %d reports, %d suppressions, %.1fs;" % (
        fr["responses"], fr["rounds"], fr["datasets"], fr["big_datasets"], fr["tsan_responses"], fr["tsan_rounds"], fr["tsan_reports"], len(fr["tsan_suppressions"]), fr.get("wall_s") or 0)
    l3ctxt = "" if l3c is None else " L3 (real 4-thread server, 8 concurrent clients): %d answers on %d servers, %d differ from the idle server, %.1fs;" % (
        l3c["evaluations"], l3c["histories"], len(l3cfails), l3c["wall_s"])
    l3htxt = "" if l3h is None else " L3 (real server, %d Euclidean + %d router-stub histories in 3 orders + fresh servers): %d answers to %d requests (%d successful), %d depend on the history, %.1fs;" % (
        l3h["euclidean_histories"], l3h["router_histories"], l3h["evaluations"], l3h["requests"], l3h["successful_requests"], len(l3hfails), l3h["wall_s"])
    print("%s %s: obligations %d/%d, %d responses in %d histories (%d non-trivial), %d fresh-process comparisons,%s%s%s %d violations, %.1fs" %
          (pid, tier, po["discharged"], po["obligations"], evals, len(cases), cov["distinct_nontrivial"], fresh_checked, l3txt, frtxt, l3htxt + l3ctxt, len(fails) + len(l3fails) + len(frfails) + len(l3hfails) + len(l3cfails), time.time() - t0))
    return rc


def is_stress_case(path):
    try:
        with open(path) as f:
            return any(l.split("#")[0].split()[:1] == ["stress"] for l in f)
    except OSError:
        return False


def replay_stress(pid, tier, seed, replay_path):
    """re-run a replay file of the free-running phase: several repetitions on the plain build, both cache modes, then the
    ThreadSanitizer build"""
    import c14stress
    l2, e1 = build.build_l2()
    dr, e2 = build.build_driver()
    if e1 or e2:
        path = cl.write_nofail_replay(pid, "harness/model build", e1 or e2)
        print("VIOLATION property=%s replay=%s no-failing-input-found" % (pid, path))
        return 1
    d = os.path.join(build.WORK, "scratch", "%s-replay-free" % pid.lower())
    fr = c14stress.run(l2, dr, seed, tier, d, [], only=replay_path, repeats=8)
    if fr["fails"]:
        why, info = fr["fails"][0]
        print("VIOLATION property=%s replay=%s" % (pid, replay_path))
        print(c14stress.describe(why, info))
        return 1
    if fr["unchecked"]:
        path = cl.write_nofail_replay(pid, fr["unchecked"][0], fr["unchecked"][1])
        print("VIOLATION property=%s replay=%s no-failing-input-found" % (pid, path))
        return 1
    print("%s replay %s: free-running %d responses in %d rounds, ThreadSanitizer %d responses in %d rounds, %d reports: all equal to the sequential responses" %
          (pid, replay_path, fr["responses"], fr["rounds"], fr["tsan_responses"], fr["tsan_rounds"], fr["tsan_reports"]))
    return 0


def replay_l3(pid, replay_path, hist=False):
    """re-run the history of an L3 replay file (tools/l3refresh.py, tools/l3hist.py) on the binary built from the current sources"""
    import l3, l3refresh
    if hist:
        import l3hist as l3refresh
    binary, e3 = l3.build_server()
    if e3:
        path = cl.write_nofail_replay(pid, "server build (L3 refresh histories)", str(e3))
        print("VIOLATION property=%s replay=%s no-failing-input-found" % (pid, path))
        return 1
    res = l3refresh.replay(binary, replay_path)
    if res["fails"]:
        why, rd = res["fails"][0]
        print("VIOLATION property=%s replay=%s" % (pid, replay_path))
        print(l3refresh.describe(why, rd))
        return 1
    print("%s replay %s: %d answers in %d history, all equal to a fresh server's" % (pid, replay_path, res["evaluations"], res["histories"]))
    return 0


def dataset_in_force(case, opidx):
    """dataset block in force when operation number opidx (run.py numbering) is executed"""
    ds, _ = parse_case(case)
    ops = run.ops_of(case)
    cur = ds
    for k in range(min(opidx, len(ops))):
        if ops[k].split()[0] == "refresh":
            cur = ops[k].split("\n")[1:]
    return cur
