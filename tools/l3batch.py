#!/usr/bin/env python3
"""L3 batches: the same operations as the L2 batches, run against the REAL trRouting binary (built from
/repo's working tree) over HTTP, on Cap'n Proto cache directories written from generated datasets, with
the walking router replaced by a scripted OSRM stub.  Produces records in the same shape as run.py
(case, idx, op, impl, model, verdict) so that the per-property evaluation of props_l2 applies unchanged."""
import os, sys, copy, json, subprocess, shutil, time, hashlib
from concurrent.futures import ThreadPoolExecutor
import build, gen, run, l3

MAX_INT = 2147483647


def parse_op(text):
    t = text.split()
    if t[0] not in ("route", "access"):
        return None
    q = dict(scen=int(t[1]), time=int(t[2]), minw=int(t[3]), maxtt=int(t[4]), maxacc=int(t[5]), maxegr=int(t[6]),
             maxtr=int(t[7]), maxfw=int(t[8]), fwd=int(t[9]))
    def rows(i):
        n = int(t[i])
        return [(int(t[i + 1 + 3 * k]), int(t[i + 2 + 3 * k]), int(t[i + 3 + 3 * k])) for k in range(n)], i + 1 + 3 * n
    if t[0] == "route":
        alt = t[10] == "1"
        acc, j = rows(11)
        egr, _ = rows(j)
        return ("route", q, alt, acc, egr)
    r, _ = rows(10)
    return ("access", q, r)


def op_text(op):
    """the operation as the model sees it: rows as the server's geofilter hands them to the calculator (q["cand_acc"] /
    q["cand_egr"], when present: the stops inside the straight-line radius of the walking maximum -- only those are asked about)"""
    if op[0] == "route":
        _, q, alt, acc, egr = op
        return "route %s %d %s %s" % (gen.q_text(q), 1 if alt else 0, gen.rows_text(l3.effective_rows(acc, q["maxacc"], q.get("cand_acc"))),
                                      gen.rows_text(l3.effective_rows(egr, q["maxegr"], q.get("cand_egr"))))
    _, q, rows = op
    return "access %s %s" % (gen.q_text(q), gen.rows_text(l3.effective_rows(rows, q["maxacc"] if q["fwd"] else q["maxegr"],
                                                                              q.get("cand_acc") if q["fwd"] else q.get("cand_egr"))))


def to_l2_format(op, line):
    """canonical L3 line -> the L2 text (accessibility reasons as integers, arrival-query node times)"""
    if op[0] == "access":
        q = op[1]
        if line.startswith("access noroute "):
            r = line.split()[2]
            code = {"NO_ACCESS_AT_PLACE": 1 if q["fwd"] else 2, "NO_SERVICE_AT_PLACE": 3 if q["fwd"] else 4, "NO_ROUTING_FOUND": 0}.get(r, 9)
            return "access noroute %d" % code
        if line.startswith("access ok") and not q["fwd"]:
            parts = line.split(" | ")
            for i in range(1, len(parts)):
                f = parts[i].split()
                f[1] = str(int(f[1]) + int(f[2]))     # JSON nodeTime = arrivalTime - totalTravelTime
                parts[i] = " ".join(f)
            return " | ".join(parts)
    return line


def normalize_dataset(ds):
    """the dataset as the real loader reconstructs it: reverse footpath lists derived from the forward ones"""
    d2 = copy.copy(ds)
    d2.rfp = l3.expected_reverse_footpaths(ds)
    return d2


def add_long_walk_island(ds, r):
    """Four more stops and two more lines that touch nothing else: trip A rides P0 -> P, trip B rides Q -> Q1, and the ONLY way from
    P to Q is a footpath LONGER than the default transfer maximum (1200 s), stored in both stop files with different times.
    Returns the requests that must ride both: (q, access rows, egress rows) -- with a transfer maximum that allows the walk (or
    none) the answer is that journey, with the default maximum there is none."""
    n0 = max(ds.nodes) + 1
    P0, P, Q, Q1 = n0, n0 + 1, n0 + 2, n0 + 3
    ds.nodes = list(ds.nodes) + [P0, P, Q, Q1]
    w, w2, dist = r.choice([1300, 1500, 2000]), r.choice([1250, 1800, 2300]), r.randint(900, 2500)
    ds.fp[P0] = [(P0, 0, 0)]
    ds.fp[P] = [(P, 0, 0), (Q, w, dist)]
    ds.fp[Q] = [(Q, 0, 0), (P, w2, dist)]
    ds.fp[Q1] = [(Q1, 0, 0)]
    la, lb = max(l[0] for l in ds.lines) + 1, max(l[0] for l in ds.lines) + 2
    ds.lines = list(ds.lines) + [(la, 1, 1), (lb, 2, 2)]
    pa, pb = max(p[0] for p in ds.paths) + 1, max(p[0] for p in ds.paths) + 2
    ds.paths = list(ds.paths) + [(pa, la, [P0, P], [700]), (pb, lb, [Q, Q1], [800])]
    ta, tb = max(t[0] for t in ds.trips) + 1, max(t[0] for t in ds.trips) + 2
    t0 = r.choice([21600, 36000, 50400])
    tdep = t0 + 300 + w + r.choice([0, 60, 600])
    ds.trips = list(ds.trips) + [(ta, pa, 1, [(t0, t0, 1, 1), (t0 + 300, t0 + 300, 1, 1)]), (tb, pb, 1, [(tdep, tdep, 1, 1), (tdep + 240, tdep + 240, 1, 1)])]
    out = []
    for maxtr in (MAX_INT, 2400, 1200):
        q = dict(scen=1, time=t0 - 90, minw=0, maxtt=MAX_INT, maxacc=1200, maxegr=1200, maxtr=maxtr, maxfw=-1, fwd=1)
        out.append((q, [(P0, 30, 40)], [(Q1, 30, 40)]))
    out.append((dict(scen=1, time=tdep + 240 + 90, minw=0, maxtt=MAX_INT, maxacc=1200, maxegr=1200, maxtr=MAX_INT, maxfw=-1, fwd=0), [(P0, 30, 40)], [(Q1, 30, 40)]))
    return out


def serve_dataset(args):
    """one dataset: cache directory, stub, server, all operations; returns (impl lines, raw bodies, info)"""
    binary, ds, ops, workdir, opts = args
    os.makedirs(workdir, exist_ok=True)
    cache = os.path.join(workdir, "cache")
    shutil.rmtree(cache, ignore_errors=True)
    l3.write_cache(ds, cache)
    lines, raws = [], []
    info = dict(alive=True, exit=None)
    stub = l3.OsrmStub()
    if getattr(ds, "lon_off", None):
        stub.set_layout(ds)          # stops placed by hand (near the pre-filter radius): ids from the dataset's own coordinates
    stub.fraction = bool(opts.get("fraction"))        # durations / distances served as t - 0.8 (the server takes the ceiling)
    srv = None
    try:
        away = None
        if opts.get("start_incomplete"):
            # the server STARTS on a directory without its stop file (data status: no nodes), is asked once, then the file is
            # put back and everything refreshed over HTTP: all three endpoints must follow the new data status
            for name in ("nodes.capnpbin",):
                if os.path.exists(os.path.join(cache, name)):
                    away = (os.path.join(cache, name), os.path.join(workdir, name + ".away"))
                    os.replace(*away)
        srv = l3.Server(binary, cache, stub.port, threads=opts.get("threads", 1), cache_all=opts.get("cache_all", False))
        if away:
            first = [o for o in ops if o[0] == "route"]
            if first:
                stub.set_tables(first[0][3], first[0][4])
                info["before_refresh"] = [srv.get(l3.route_qs(first[0][1], False))[0], srv.get(l3.summary_qs(first[0][1], False))[0]]
            os.replace(away[1], away[0])
            info["refresh_status"] = srv.get("/updateCache?names=all", timeout=60)[0]
        for op in ops:
            if op[0] == "route":
                _, q, alt, acc, egr = op
                stub.set_tables(acc, egr)
                st, hd, body = srv.get(l3.route_qs(q, alt))
                line = l3.canon_route(body, alt) if st is not None else "route noreply"
                if opts.get("summary"):
                    st2, hd2, body2 = srv.get(l3.summary_qs(q, alt))
                    raws.append((st, body, st2, body2))
                else:
                    raws.append((st, body))
            else:
                _, q, rows = op
                if q["fwd"]:
                    stub.set_tables(rows, rows)
                else:
                    stub.set_tables(rows, rows)
                st, hd, body = srv.get(l3.access_qs(q))
                line = l3.canon_access(body) if st is not None else "access noreply"
                raws.append((st, body))
            hd = {k.lower(): v for k, v in hd.items()}
            if st is not None and (hd.get("content-length") is None or int(hd.get("content-length")) != len(body)):
                line += " BADLENGTH"
            lines.append(to_l2_format(op, line))
            if not srv.alive():
                info["alive"] = False
                break
    finally:
        if srv is not None:
            info["exit"] = srv.exit_status()
            srv.stop()
        stub.close()
        if not opts.get("keep"):
            shutil.rmtree(cache, ignore_errors=True)
    return lines, raws, info


def l3_batch(seed, count, nq, driver, outdir, binary=None, profiles=("opt", "loops", "grid", "tiny", "wide", "asymfp", "mixedwait", "pairfam", "rewrites"), opts=None, workers=8):
    """returns (records, extras) ; extras[case] = (ds, ops, raws, info)"""
    opts = opts or {}
    if binary is None:
        binary, err = l3.build_server(san=opts.get("san", False))
        if not binary:
            raise RuntimeError("server build failed: " + str(err))
    shutil.rmtree(outdir, ignore_errors=True)
    os.makedirs(outdir, exist_ok=True)
    rng = gen.Rng(seed * 104729 + 7)
    jobs, metas = [], []
    for i in range(count):
        prof_name = profiles[i % len(profiles)]
        prof = dict(gen.PROFILES[prof_name])
        prof["pempty"] = 0.02
        r = rng.fork()
        ds = gen.gen_dataset(r, prof)
        # every fifth directory: the stops lie just inside (even ids) and just outside (odd ids) the straight-line radius the
        # server derives from a 60 s walking maximum (5 km/h: 83.3 m) -- the router stub offers ALL of them within 50 s, the
        # server must ask about the inside ones only; with any larger maximum of the request set every stop is inside
        near = (i % 5 == 4) and len(ds.nodes) >= 2
        # every fourth directory gets an "island" whose two lines are joined by nothing but a footpath longer than 1200 s
        island = add_long_walk_island(ds, r) if (i % 4 == 1 and not near and ds.lines and ds.paths and ds.trips) else []
        if near:
            l3.set_near_radius(ds, 60)
        # Int16 fields of the node files, distances of the path JSON
        ops = []
        for qi, (q, acc, egr) in enumerate(l3._gen_queries(gen, r, ds, prof, nq)):
            # every scenario of the directory is asked (the generator aims most queries at scenario 1): scenario lists --
            # service subsets incl. repeated entries, only/except filters, filters that leave nothing -- go through the real loader
            q["scen"] = (1, 2, 3, 4, 2, 1, 3, 2)[qi % 8]
            # access/egress maxima vary: every generated table row is <= 600 s and the stub answers 100000 s for a stop that is
            # not in the table, so every maximum in [600, 100000) must give the model's answer; the large values exercise the
            # walking-radius arithmetic in front of the router
            # 50000 / 60000 s (their squares do not fit 32 bits) and NO limit (sent as 0, read as MAX_INT): the radius arithmetic
            # must still let every stop through.  Without a limit the 100000 s the stub answers for a stop outside the table
            # are admissible walks too, so the table then names every stop explicitly (same answer on the wire).
            lims = [1200, 1200, 900, 40000, 99999, 120, 300, 1200, 50000, 60000, MAX_INT]
            q["maxacc"] = r.choice(lims)
            q["maxegr"] = r.choice(lims)
            def _full(rows):
                have = set(n for (n, _, _) in rows)
                return list(rows) + [(n, l3.UNREACHABLE, l3.UNREACHABLE) for n in ds.nodes if n not in have]
            if q["maxacc"] == MAX_INT:
                acc = _full(acc)
            if q["maxegr"] == MAX_INT:
                egr = _full(egr)
            # boundary: a maximum EQUAL to the walking time of one of the rows (the row is kept: `<=`), so that rows slower
            # than it are dropped by the server as they are by l3.effective_rows
            for key, rows in (("maxacc", acc), ("maxegr", egr)):
                # (>= 60 s: the points lie 11 m / 22 m from the stops, and the server's straight-line pre-filter drops every
                # stop farther than limit * 1.39 m/s before the router is asked -- a smaller limit contradicts the layout)
                ts = sorted(set(t for (_, t, _) in rows if 60 <= t < l3.UNREACHABLE))
                if ts and r.chance(0.3):
                    q[key] = r.choice(ts)
            if q["maxtr"] == MAX_INT and r.chance(0.5):
                q["maxtr"] = 1200
            if near:
                # the router offers every stop of its table within 50 s; every second request asks for a 60 s maximum
                acc = [(n, min(t, 50), m) for (n, t, m) in acc]
                egr = [(n, min(t, 50), m) for (n, t, m) in egr]
                if qi % 2 == 0:
                    q["maxacc"] = q["maxegr"] = 60
                for key, ck, lat in (("maxacc", "cand_acc", l3.ORIGIN_LAT), ("maxegr", "cand_egr", l3.DEST_LAT)):
                    if q[key] < 120:
                        q[key] = 60
                    inside, unclear = l3.radius_candidates(ds, q[key], 0, lat)
                    if unclear:
                        q[key] = 1200
                        inside, unclear = l3.radius_candidates(ds, 1200, 0, lat)
                    q[ck] = inside
            ops.append(("route", q, False, acc, egr))
            if r.chance(0.25):
                ops.append(("route", q, True, acc, egr))
            if r.chance(0.35):
                ops.append(("access", q, acc if q["fwd"] else egr))
        for (qi_, acc_, egr_) in island:
            ops.append(("route", qi_, False, acc_, egr_))
        # requests PLANNED over a footpath longer than the default transfer maximum (1200 s): ride into its first stop, walk it,
        # ride out of its second stop, with no transfer maximum -- the stop files' long rows must have been loaded, in both tables
        if not near:
            conns = ds.conns()          # (trip, seq, from, to, dep, arr, canBoard, canUnboard)
            planned = 0
            for a in ds.nodes:
                for (b, w, dist) in ds.fp.get(a, []):
                    if w <= 1200 or b == a or planned >= 2:
                        continue
                    pairs = [(ci, co) for ci in conns if ci[3] == a and ci[7] for co in conns
                             if co[2] == b and co[6] and co[0] != ci[0] and co[4] >= ci[5] + w]
                    if not pairs:
                        continue
                    ci, co = min(pairs, key=lambda p: p[1][4] - p[0][5])
                    # ... in a scenario of its own that admits the two lines ridden only (no other line can short-cut the walk)
                    line_of_trip = {t[0]: [pp[1] for pp in ds.paths if pp[0] == t[1]][0] for t in ds.trips}
                    sid = 20 + planned
                    ds.scens.append((sid, [[1, 2], sorted(set([line_of_trip[ci[0]], line_of_trip[co[0]]])), [], [], [], [], [], [], []]))
                    qp = dict(scen=sid, time=max(0, ci[4] - 90), minw=0, maxtt=MAX_INT, maxacc=1200, maxegr=1200, maxtr=MAX_INT, maxfw=-1, fwd=1)
                    ops.append(("route", qp, False, [(ci[2], 30, 40)], [(co[3], 30, 40)]))
                    qr = dict(qp, fwd=0, time=min(115199, co[5] + 90))
                    ops.append(("route", qr, False, [(ci[2], 30, 40)], [(co[3], 30, 40)]))
                    planned += 1
        # per directory: one accessibility request whose place has NO stop in reach and one route request with both tables
        # empty (the router offers nothing): the NO_ACCESS_* reasons as the real renderer writes them
        if ops:
            q0 = dict([o for o in ops if o[0] == "route"][0][1])
            for key in ("maxacc", "maxegr"):
                # (an empty table means 100000 s to every stop: "nothing in reach" needs a limit below that)
                if q0[key] >= l3.UNREACHABLE:
                    q0[key] = 1200
            ops.append(("access", dict(q0), []))
            ops.append(("route", dict(q0), False, [], []))
            q1 = dict(q0); q1["fwd"] = 1 - q0["fwd"]
            ops.append(("access", q1, []))
        case = os.path.join(outdir, "l%04d_%s.case" % (i, prof_name))
        with open(case, "w") as f:
            f.write("# L3 seed=%d index=%d profile=%s\n" % (seed, i, prof_name))
            f.write(normalize_dataset(ds).text())
            f.write("\n".join(op_text(o) for o in ops) + "\n")
        jobs.append((binary, ds, ops, os.path.join(outdir, "w%04d" % i), dict(opts, fraction=(i % 3 == 1))))
        metas.append((case, ds, ops))
    with ThreadPoolExecutor(max_workers=workers) as ex:
        served = list(ex.map(serve_dataset, jobs))
    recs = []
    extras = {}
    for (case, ds, ops), (lines, raws, info) in zip(metas, served):
        impl_path = case + ".impl"
        with open(impl_path, "w") as f:
            f.write("\n".join(lines) + "\n")
        rc_m, model = run.run_cmd([driver, "model", case])
        rc_o, orac = run.run_cmd([driver, "oracle", case, impl_path])
        ml = model.splitlines()
        ol = orac.splitlines()[1:]
        optext = run.ops_of(case)
        for i, o in enumerate(optext):
            recs.append(dict(case=case, idx=i, op=o, impl=lines[i] if i < len(lines) else "<missing: server died>",
                             model=(ml[i].split(" | opt")[0].rstrip() if i < len(ml) else "<missing rc=%d>" % rc_m),
                             verdict=ol[i] if i < len(ol) else "<missing rc=%d>" % rc_o, ds=""))
        extras[case] = (ds, ops, raws, info)
    return recs, extras


def replay_case(path, driver, binary, workdir):
    """a replay file written from an L3 record (dataset block + operations): the REAL server is started on the cache directory
    written from the dataset and asked the operations; returns records in the shape l3_batch gives"""
    import c17corpus
    text = open(path).read()
    body = "\n".join(l for l in text.split("\n") if not l.startswith("#"))
    ds = c17corpus.parse_dataset(body.split("\nend")[0])
    ops = [parse_op(l) for l in body.split("\n") if l.split() and l.split()[0] in ("route", "access")]
    ops = [o for o in ops if o]
    shutil.rmtree(workdir, ignore_errors=True)
    lines, raws, info = serve_dataset((binary, ds, ops, workdir, dict()))
    case = os.path.join(workdir, "replay.case")
    with open(case, "w") as f:
        f.write(normalize_dataset(ds).text())
        f.write("\n".join(op_text(o) for o in ops) + "\n")
    impl_path = case + ".impl"
    with open(impl_path, "w") as f:
        f.write("\n".join(lines) + "\n")
    rc_m, model = run.run_cmd([driver, "model", case])
    rc_o, orac = run.run_cmd([driver, "oracle", case, impl_path])
    ml, ol = model.splitlines(), orac.splitlines()[1:]
    recs = []
    for i, o in enumerate(run.ops_of(case)):
        recs.append(dict(case=case, idx=i, op=o, impl=lines[i] if i < len(lines) else "<missing: server died>",
                         model=(ml[i].split(" | opt")[0].rstrip() if i < len(ml) else "<missing rc=%d>" % rc_m),
                         verdict=ol[i] if i < len(ol) else "<missing rc=%d>" % rc_o, ds="", l3=True))
    return recs
