#!/bin/sh
# usage: tools/mutcheck.sh <patch.diff> <check ids...>  — applies a patch to a scratch copy of /repo (never /repo itself),
# runs the named checks against it and removes the copy.
set -e
PATCH=$(readlink -f "$1"); shift
D=/var/tmp/trv-mut-$$
rsync -a --exclude .git /repo/ $D/
( cd $D && patch -p1 -s < "$PATCH" )
cd /verif
for c in "$@"; do
  TRV_REPO=$D ./check $c --tier quick 2>&1 | grep -E "VIOLATION|quick:" | head -3
done
rm -rf $D
