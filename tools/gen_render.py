#!/usr/bin/env python3
"""Translator for the three JSON RENDERERS: regenerates coq/gen/Render.v from the CURRENT sources of
  connection_scan_algorithm/src/result_to_v2.cpp                  (/v2/route: steps, route object, query echo, no-routing answer, top levels)
  connection_scan_algorithm/src/result_to_v2_accessibility.cpp    (/v2/accessibility: node object, query echo, no-routing answer, top level)
  connection_scan_algorithm/src/result_to_v2_summary.cpp          (/v2/summary: line object, query echo, the three top levels)

For every object a renderer fills, the assignments `obj["key"] = expr;` are emitted IN SOURCE ORDER as Coq data of type
`list (string * rsel)` (coq/RenderJson.v): the key string and a SELECTOR naming what is read - a member of the result
classes of include/routing_result.hpp (`RTotalTravelTime`, `SStepDepartureTime`, `NArrivalTime`, `LCount`, ...), a
constant (`RConst "walking"`, `RInt 1`; named string constants are looked up in constants.hpp / result_constants.hpp),
`a - b`, `c ? a : b`, `{a, b}`, an assignment inside `if (c) {...}` (`RWhen c sel`), `json::array()` followed by
push_back loops (`RStepsEach`, `RRoutesEach`, `RRouteOne`, `RNodesEach`), a nested object (`RQueryObj`, `RResultObj`),
or an OPAQUE attribute of a data object (`ROpaque OTripAgencyAcronym`, `ROpaque ONodeUuid`, ...: names, codes, uuids and
coordinates - the model carries ids, not strings).  The switch over NoRoutingReason of the two noRoutingFoundResponse
functions is emitted as (enumerator, string) rows + default (no other translator regenerates these tables).

Locals are substituted back (`const auto& x = result.totalDistance; json["totalDistance"] = x;` reads the same), so are
`boost::uuids::to_string(...)`; comments, whitespace and the order of INDEPENDENT assignments do not matter to the
proofs (Proofs/RenderTie.v interprets the table with std::map semantics: sorted keys, last writer wins).

What breaks Proofs/RenderTie.v on the next run: a key fed from another member, a dropped or added key, a duplicated key
whose last writer differs, a changed constant, a changed guard, a changed reason row.

Policy (as the other gen_*.py): a function the translator cannot read - unknown statement, unknown member, restructured
loop - is emitted from the committed table (HAND) and reported `fallback` with the reason (no alarm by itself: the
behavioural correspondence still decides); what it CAN read is emitted as read."""
import os, re, sys, json

HERE = os.path.dirname(os.path.abspath(__file__))
sys.path.insert(0, HERE)
import gen_guards as GG
import gen_skel as SK
from gen_skel import Untranslatable, flat

VERIF = os.path.dirname(HERE)
OUT = os.path.join(VERIF, "coq", "gen", "Render.v")
SRC_ROUTE = "connection_scan_algorithm/src/result_to_v2.cpp"
SRC_ACCESS = "connection_scan_algorithm/src/result_to_v2_accessibility.cpp"
SRC_SUMMARY = "connection_scan_algorithm/src/result_to_v2_summary.cpp"
CONST_HEADERS = ["connection_scan_algorithm/include/constants.hpp", "connection_scan_algorithm/include/result_constants.hpp"]

# ------------------------------------------------------------------------------------------------
# vocabulary: (class, member path with `->` written `.`) -> selector

TRIP_PATHS = {
    "agency.acronym": "OTripAgencyAcronym", "agency.name": "OTripAgencyName", "agency.uuid": "OTripAgencyUuid",
    "line.shortname": "OTripLineShortname", "line.longname": "OTripLineLongname", "line.uuid": "OTripLineUuid",
    "path.uuid": "OTripPathUuid", "line.mode.name": "OTripModeName", "line.mode.shortname": "OTripModeShortname",
    "uuid": "OTripUuid",
    "line.agency.acronym": "OTripLineAgencyAcronym", "line.agency.name": "OTripLineAgencyName", "line.agency.uuid": "OTripLineAgencyUuid",
}
NODE_PATHS = {"name": "ONodeName", "code": "ONodeCode", "uuid": "ONodeUuid",
              "point.longitude": "ONodeLongitude", "point.latitude": "ONodeLatitude"}
TRANSIT_STEP = dict({"legSequenceInTrip": "SLegSequenceInTrip", "stopSequenceInTrip": "SStopSequenceInTrip", "action": "SAction"},
                    **{"trip." + k: "ROpaque " + v for k, v in TRIP_PATHS.items()},
                    **{"node." + k: "ROpaque " + v for k, v in NODE_PATHS.items()})
MEMBERS = {
    "SingleCalculationResult": {
        "departureTime": "RDepartureTime", "arrivalTime": "RArrivalTime", "totalTravelTime": "RTotalTravelTime",
        "totalDistance": "RTotalDistance", "totalInVehicleTime": "RTotalInVehicleTime",
        "totalInVehicleDistance": "RTotalInVehicleDistance", "totalNonTransitTravelTime": "RTotalNonTransitTravelTime",
        "totalNonTransitDistance": "RTotalNonTransitDistance", "numberOfBoardings": "RNumberOfBoardings",
        "numberOfTransfers": "RNumberOfTransfers", "transferWalkingTime": "RTransferWalkingTime",
        "transferWalkingDistance": "RTransferWalkingDistance", "accessTravelTime": "RAccessTravelTime",
        "accessDistance": "RAccessDistance", "egressTravelTime": "REgressTravelTime", "egressDistance": "REgressDistance",
        "transferWaitingTime": "RTransferWaitingTime", "firstWaitingTime": "RFirstWaitingTime",
        "totalWaitingTime": "RTotalWaitingTime"},
    "BoardingStep": dict(TRANSIT_STEP, departureTime="SStepDepartureTime", waitingTime="SWaitingTime"),
    "UnboardingStep": dict(TRANSIT_STEP, arrivalTime="SStepArrivalTime", inVehicleTime="SInVehicleTime",
                           inVehicleDistanceMeters="SInVehicleDistanceMeters"),
    "WalkingStep": {"travelTime": "STravelTime", "distanceMeters": "SDistanceMeters", "departureTime": "SStepDepartureTime",
                    "arrivalTime": "SStepArrivalTime", "readyToBoardAt": "SReadyToBoardAt", "action": "SAction",
                    "walkingType": "SWalkingType"},
    "AccessibleNodes": dict({"arrivalTime": "NArrivalTime", "totalTravelTime": "NTotalTravelTime",
                             "numberOfTransfers": "NNumberOfTransfers"},
                            **{"node." + k: "ROpaque " + v for k, v in NODE_PATHS.items()}),
    "AllNodesResult": {"totalNodeCount": "ATotalNodeCount", "numberOfReachableNodes": "ANumberOfReachableNodes"},
    "AlternativesResult": {"totalAlternativesCalculated": "ATotalAlternativesCalculated", "alternatives.size()": "AAlternativesCount"},
    "LineSummary": dict({"count": "LCount",
                         "trip.line.uuid": "ROpaque OLineUuid", "trip.line.shortname": "ROpaque OLineShortname",
                         "trip.line.longname": "ROpaque OLineLongname", "trip.line.agency.uuid": "ROpaque OLineAgencyUuid",
                         "trip.line.agency.acronym": "ROpaque OLineAgencyAcronym", "trip.line.agency.name": "ROpaque OLineAgencyName"},
                        **{"trip." + k: "ROpaque " + v for k, v in TRIP_PATHS.items() if not k.startswith("line.")}),
    "RouteParameters": {"getTimeOfTrip()": "QTimeOfTrip"},
    "AccessibilityParameters": {"getTimeOfTrip()": "QTimeOfTrip"},
    "Point": {"longitude": "ROpaque OPointLongitude", "latitude": "ROpaque OPointLatitude"},
}
PARAM_POINTS = {"RouteParameters": {"getOrigin()": "ROpaque OOrigin", "getDestination()": "ROpaque ODestination"},
                "AccessibilityParameters": {"getPlace()": "ROpaque OPlace"}}
WALK_TYPES = {"ACCESS": 0, "EGRESS": 1, "TRANSFER": 2}        # the model's kinds (Journey.SWalk), by NAME as tools/gen_emit.py
REASONS = ["NO_ROUTING_FOUND", "NO_ACCESS_AT_ORIGIN", "NO_ACCESS_AT_DESTINATION", "NO_SERVICE_FROM_ORIGIN",
           "NO_SERVICE_TO_DESTINATION", "NO_ACCESS_AT_ORIGIN_AND_DESTINATION"]     # Base.v R_<name>, by NAME as tools/gen_loops.py

IDENT = r"[A-Za-z_]\w*"


# ------------------------------------------------------------------------------------------------
# statement tree (gen_skel's, plus `switch` and `return`)

def find_colon(s, i):
    """index of the `:` ending a case label that starts at i (skips `::`)"""
    k = i
    while k < len(s):
        if s[k] == ":":
            if s.startswith("::", k):
                k += 2
                continue
            return k
        k += 1
    raise Untranslatable("label without `:`")


def parse_switch_body(s):
    """-> list of ('label', text | None) and statement nodes, in order"""
    out = []
    i = SK.skip_ws(s, 0)
    while i < len(s):
        if SK.keyword_at(s, i, "case"):
            j = find_colon(s, i + 4)
            out.append(("label", flat(s[i + 4:j])))
            i = j + 1
        elif SK.keyword_at(s, i, "default"):
            j = find_colon(s, i + 7)
            if flat(s[i + 7:j]):
                raise Untranslatable("malformed default label")
            out.append(("label", None))
            i = j + 1
        else:
            nodes, i = parse_stmt(s, i)
            out += nodes
        i = SK.skip_ws(s, i)
    return out


def parse_stmt(s, i):
    i = SK.skip_ws(s, i)
    if i >= len(s):
        raise Untranslatable("statement expected")
    if s[i] == "{":
        inner, j = SK.balanced(s, i, "{", "}")
        return parse_list(inner), j
    if SK.keyword_at(s, i, "if"):
        j = SK.skip_ws(s, i + 2)
        if j >= len(s) or s[j] != "(":
            raise Untranslatable("`if` without condition")
        cond, j = SK.balanced(s, j, "(", ")")
        th, j = parse_stmt(s, j)
        k = SK.skip_ws(s, j)
        el = []
        if SK.keyword_at(s, k, "else"):
            el, j = parse_stmt(s, k + 4)
        return [("if", cond, th, el)], j
    if SK.keyword_at(s, i, "for"):
        j = SK.skip_ws(s, i + 3)
        if j >= len(s) or s[j] != "(":
            raise Untranslatable("`for` without header")
        header, j = SK.balanced(s, j, "(", ")")
        body, j = parse_stmt(s, j)
        return [("for", header, body)], j
    if SK.keyword_at(s, i, "switch"):
        j = SK.skip_ws(s, i + 6)
        if j >= len(s) or s[j] != "(":
            raise Untranslatable("`switch` without expression")
        ex, j = SK.balanced(s, j, "(", ")")
        j = SK.skip_ws(s, j)
        if j >= len(s) or s[j] != "{":
            raise Untranslatable("`switch` without block")
        inner, j = SK.balanced(s, j, "{", "}")
        return [("switch", ex, parse_switch_body(inner))], j
    if SK.keyword_at(s, i, "return"):
        j = i
        depth = 0
        while j < len(s):
            ch = s[j]
            if ch in "\"'":
                j = SK.skip_string(s, j)
                continue
            if ch in "([{":
                depth += 1
            elif ch in ")]}":
                depth -= 1
            elif ch == ";" and depth == 0:
                return [("return", s[i + 6:j])], j + 1
            j += 1
        raise Untranslatable("`return` without `;`")
    for kw in ("while", "do", "try", "throw", "goto", "case", "default", "else", "catch"):
        if SK.keyword_at(s, i, kw):
            raise Untranslatable("unsupported statement `%s` in a renderer" % kw)
    return SK.parse_stmt(s, i)      # `;`, break, continue, simple statement


def parse_list(s):
    out = []
    i = SK.skip_ws(s, 0)
    while i < len(s):
        nodes, i = parse_stmt(s, i)
        out += nodes
        i = SK.skip_ws(s, i)
    return out


def find_function(src, name_rx, param_rx=None):
    """the definition `... name(params) {body}`: -> (params text, body text without the outer braces)"""
    for m in re.finditer(r"(?<![\w.>])(" + name_rx + r")\s*\(", src):
        params, j = SK.balanced(src, m.end() - 1, "(", ")")
        k = SK.skip_ws(src, j)
        if k < len(src) and src[k] == "{" and (param_rx is None or re.search(param_rx, params)):
            body, _ = SK.balanced(src, k, "{", "}")
            return params, body
    raise Untranslatable("definition of %s not found" % name_rx)


def split_top(text, sep):
    parts, depth, cur, k = [], 0, "", 0
    while k < len(text):
        ch = text[k]
        if ch == '"':
            j = SK.skip_string(text, k)
            cur += text[k:j]
            k = j
            continue
        if ch in "([{":
            depth += 1
        elif ch in ")]}":
            depth -= 1
        if ch == sep and depth == 0:
            parts.append(cur)
            cur = ""
        else:
            cur += ch
        k += 1
    parts.append(cur)
    return parts


def parse_params(params):
    """`const BoardingStep& step, const bool isForward` -> {name: class}"""
    out = {}
    for p in split_top(params, ","):
        p = p.strip()
        if not p:
            continue
        m = re.match(r"^(?:const\s+)?([\w:]+)\s*(?:const\s*)?[&\*]?\s*(" + IDENT + r")?$", p)
        if not m:
            raise Untranslatable("parameter not understood: " + p)
        if m.group(2):
            out[m.group(2)] = m.group(1).split("::")[-1]
    return out


def strip_parens(t):
    while t.startswith("(") and t.endswith(")"):
        depth = 0
        for k, ch in enumerate(t):
            depth += ch == "("
            depth -= ch == ")"
            if depth == 0 and k < len(t) - 1:
                return t
        t = t[1:-1]
    return t


DECL = re.compile(r"^(?:const\s+)?(?P<ty>[\w:]+(?:<[^=;]*>)?)(?:\s+const)?(?:\s*[&\*]\s*|\s+)(?P<name>" + IDENT + r")\s*"
                  r"(?:=\s*(?P<init>.+)|\{(?P<binit>.*)\}|\((?P<pinit>.*)\))?$", re.S)


# ------------------------------------------------------------------------------------------------
# one renderer function

class Fn:
    """interprets the statement list of a renderer: objects, their (key, selector) pairs in source order, arrays, aliases"""

    def __init__(self, env, roots, query_fn=None, point_fn=None, node_fn=None, route_fn=None, lines_fn=None, forward_names=()):
        self.env = env                    # constants
        self.roots = dict(roots)          # variable -> class
        self.alias = {}                   # variable -> expression text (flat)
        self.objects = {}                 # json variable -> list of [key, sel, guards]
        self.order = []                   # object variables in declaration order
        self.arrays = {}                  # (obj, key) -> list of pushes
        self.query_fn, self.point_fn, self.node_fn, self.route_fn, self.lines_fn = query_fn, point_fn, node_fn, route_fn, lines_fn
        self.forward_names = set(forward_names)     # bool parameters known to carry params.isForwardCalculation()
        self.reason_var = None
        self.reason_rows = None
        self.reason_default = None
        self.strings = {}                 # std::string locals -> current constant text (None = assigned by the switch)
        self.acc = {}                     # accumulator variable -> list of feeds
        self.visitors = set()
        self.result = None                # what the function returns / stores into `response`
        self.frozen = set()               # objects already assigned into another one: a later write would not be seen

    # ---- expressions ----
    def subst(self, t):
        """locals substituted back (string literals are left alone)"""
        for _ in range(6):
            changed = False
            for name, ex in self.alias.items():
                parts = re.split(r'("(?:[^"\\]|\\.)*")', t)
                for k in range(0, len(parts), 2):
                    parts[k] = re.sub(r"(?<![\w.>])" + re.escape(name) + r"(?!\w)", "(" + ex + ")", parts[k])
                new = "".join(parts)
                if new != t:
                    t, changed = new, True
            if not changed:
                return t
        raise Untranslatable("alias chain too deep")

    def path(self, t):
        """`(result).member`, `step.node.point->longitude`, `(*alternative.get()).x` -> (class, path) of a known root"""
        t = t.replace("->", ".")
        t = re.sub(r"\(\*?(" + IDENT + r")(?:\.get\(\))?\)", r"\1", t)       # (x), (*x), (*x.get())
        t = re.sub(r"^\*(" + IDENT + r")", r"\1", t)
        m = re.match(r"^(" + IDENT + r")(?:\.get\(\))?\.(.+)$", t)
        if not m or m.group(1) not in self.roots:
            raise Untranslatable("not a member of a known object: " + t[:70])
        return self.roots[m.group(1)], m.group(2)

    def cond(self, t):
        t = strip_parens(self.subst(t))
        if t.startswith("!") and not t.startswith("!="):
            return ("CNot", self.cond(t[1:]))
        m = re.match(r"^(.+?)(==|!=)walking_step_type::(\w+)$", t)
        if m:
            cls, p = self.path(strip_parens(m.group(1)))
            if (cls, p) != ("WalkingStep", "walkingType") or m.group(3) not in WALK_TYPES:
                raise Untranslatable("comparison not understood: " + t[:70])
            c = ("CWalkTypeIs", WALK_TYPES[m.group(3)])
            return c if m.group(2) == "==" else ("CNot", c)
        if t in self.forward_names:
            return ("CForward",)
        try:
            cls, p = self.path(t)
        except Untranslatable:
            cls = None
        if cls in ("RouteParameters", "AccessibilityParameters") and p == "isForwardCalculation()":
            return ("CForward",)
        raise Untranslatable("condition not understood: " + t[:70])

    def sel(self, t):
        t = strip_parens(self.subst(t))
        if not t:
            raise Untranslatable("empty expression")
        q = split_top(t, "?")
        if len(q) > 1:
            rest = "?".join(q[1:])
            depth, nest, k = 0, 0, 0
            while k < len(rest):
                ch = rest[k]
                if ch == '"':
                    k = SK.skip_string(rest, k)
                    continue
                if ch in "([{":
                    depth += 1
                elif ch in ")]}":
                    depth -= 1
                elif ch == "?" and depth == 0:
                    nest += 1
                elif ch == ":" and depth == 0:
                    if rest.startswith("::", k):
                        k += 2
                        continue
                    if nest == 0:
                        return ("RIf", self.cond(q[0]), self.sel(rest[:k]), self.sel(rest[k + 1:]))
                    nest -= 1
                k += 1
            raise Untranslatable("malformed conditional expression: " + t[:70])
        if re.fullmatch(r'"(?:[^"\\]|\\.)*"', t):
            if "\\" in t:
                raise Untranslatable("escape in a string literal: " + t[:40])
            return ("RConst", t[1:-1])
        if re.fullmatch(r"-?\d+", t):
            return ("RInt", int(t))
        if t in self.strings:
            if self.strings[t] is None:
                return ("RReason",)
            return ("RConst", self.strings[t])
        if t in self.env:
            return ("RConst", self.env[t])
        if t in self.objects:
            self.frozen.add(t)
            return ("RResultObj", t)
        if t == "nlohmann::json::array()":
            return ("REmptyArray",)
        if t.startswith("{") and t.endswith("}"):
            parts = split_top(t[1:-1], ",")
            if len(parts) != 2:
                raise Untranslatable("initializer list with %d elements" % len(parts))
            return ("RPair", self.sel(parts[0]), self.sel(parts[1]))
        # a - b (not `->`)
        depth, k, cut = 0, len(t) - 1, None
        while k > 0:
            ch = t[k]
            if ch in ")]}":
                depth += 1
            elif ch in "([{":
                depth -= 1
            elif ch == "-" and depth == 0 and t[k + 1:k + 2] != ">" and t[k - 1] not in "-+*/(<>=,":
                cut = k
                break
            k -= 1
        if cut is not None:
            return ("RSub", self.sel(t[:cut]), self.sel(t[cut + 1:]))
        m = re.match(r"^boost::uuids::to_string\((.*)\)$", t)
        if m:
            s = self.sel(m.group(1))
            if not (s[0] == "leaf" and s[1].endswith("Uuid")):
                raise Untranslatable("to_string of something that is not a uuid: " + t[:70])
            return s
        m = re.match(r"^(" + IDENT + r")\((.*)\)$", t)
        if m and m.group(1) not in self.roots:
            fn, args = m.group(1), [strip_parens(a) for a in split_top(m.group(2), ",")]
            if fn == self.query_fn and len(args) == 1 and self.roots.get(args[0]) in PARAM_POINTS:
                return ("RQueryObj",)
            if fn == self.point_fn and len(args) == 1:
                a = args[0].replace("->", ".")
                mm = re.match(r"^\*(" + IDENT + r")\.(\w+\(\))$", a)
                if mm and self.roots.get(mm.group(1)) in PARAM_POINTS and mm.group(2) in PARAM_POINTS[self.roots[mm.group(1)]]:
                    return ("leaf", PARAM_POINTS[self.roots[mm.group(1)]][mm.group(2)])
                raise Untranslatable("point not understood: " + t[:70])
            if fn == self.lines_fn and len(args) == 1 and args[0] in self.acc:
                feeds = self.acc[args[0]]
                if feeds == [("each", "AlternativesResult", "alternatives")]:
                    return ("RLinesOfAlternatives",)
                if feeds == [("one", "SingleCalculationResult")]:
                    return ("RLinesOfSingle",)
                raise Untranslatable("the accumulator given to %s is fed in an unknown way: %r" % (fn, feeds))
            raise Untranslatable("call not understood: " + t[:70])
        cls, p = self.path(t)
        if cls in MEMBERS and p in MEMBERS[cls]:
            return ("leaf", MEMBERS[cls][p])
        raise Untranslatable("%s has no known member `%s`" % (cls, p))

    # ---- statements ----
    def write(self, obj, key, s, guards):
        if obj in self.frozen:
            raise Untranslatable("%s is written after it was copied into another object" % obj)
        for g in reversed(guards):
            s = ("RWhen", g, s)
        self.objects[obj].append([key, s])
        if (obj, key) in self.arrays and not guards:
            del self.arrays[(obj, key)]
        if s == ("REmptyArray",):
            self.arrays[(obj, key)] = [len(self.objects[obj]) - 1, []]

    def push(self, obj, key, what):
        if obj in self.frozen:
            raise Untranslatable("%s is written after it was copied into another object" % obj)
        if (obj, key) not in self.arrays:
            raise Untranslatable("push_back into %s[\"%s\"] which is not a fresh array" % (obj, key))
        self.arrays[(obj, key)][1].append(what)

    def push_arg(self, arg, loop):
        """what one push_back appends: ('steps'|'route'|'node'|'obj', ...)"""
        a = strip_parens(self.subst(arg))
        m = re.match(r"^(.+?)(?:\.get\(\))?(?:->|\.)accept\((" + IDENT + r")\)$", a)
        if m and m.group(2) in self.visitors:
            return ("visit", strip_parens(m.group(1)))
        m = re.match(r"^(" + IDENT + r")\((.*)\)$", a)
        if m and m.group(1) == self.route_fn:
            args = [strip_parens(x) for x in split_top(m.group(2), ",")]
            if len(args) == 1:
                x = re.sub(r"^\*(" + IDENT + r")(?:\.get\(\))?$", r"\1", args[0])
                return ("route", x)
        if m and m.group(1) == self.node_fn:
            args = [strip_parens(x) for x in split_top(m.group(2), ",")]
            if len(args) == 2 and self.cond(args[1]) == ("CForward",):
                return ("node", args[0])
        if a in self.objects:
            return ("obj", a)
        raise Untranslatable("push_back of something unknown: " + a[:70])

    def run(self, nodes, guards=(), loop=None):
        for n in nodes:
            kind = n[0]
            if kind == "stmt":
                self.stmt(n[1], list(guards), loop)
            elif kind == "if":
                if loop is not None and loop[0] != "lines":
                    raise Untranslatable("`if` inside a push_back loop")
                c = self.cond(flat(n[1]))
                self.run(n[2], tuple(guards) + (c,), loop)
                if n[3]:
                    self.run(n[3], tuple(guards) + (("CNot", c),), loop)
            elif kind == "for":
                if guards or loop is not None:
                    raise Untranslatable("nested loop in a renderer")
                self.loop(n[1], n[2])
            elif kind == "switch":
                if guards or loop is not None:
                    raise Untranslatable("`switch` inside a block")
                self.switch(n[1], n[2])
            elif kind == "return":
                if guards or loop is not None:
                    raise Untranslatable("`return` inside a block")
                self.result = flat(n[1])
            else:
                raise Untranslatable("`%s` in a renderer" % kind)

    def stmt(self, text, guards, loop):
        t = flat(text)
        if not t or SK.LOGGING.match(t):
            return
        m = re.match(r"^(" + IDENT + r")\[\"([^\"\\]*)\"\]=(?!=)(.+)$", t)
        if m and m.group(1) in self.objects:
            if loop is not None and loop[0] != "lines":
                raise Untranslatable("assignment inside a push_back loop")
            self.write(m.group(1), m.group(2), self.sel(m.group(3)), guards)
            return
        m = re.match(r"^(" + IDENT + r")\[\"([^\"\\]*)\"\]\.push_back\((.+)\)$", t)
        if m and m.group(1) in self.objects:
            if guards:
                raise Untranslatable("conditional push_back")
            what = self.push_arg(m.group(3), loop)
            self.push(m.group(1), m.group(2), (("each",) + tuple(loop) if loop is not None else ("one",)) + what)
            return
        m = re.match(r"^(" + IDENT + r")\.processSingleCalculationResult\((.+)\)$", t)
        if m and m.group(1) in self.acc and not guards:
            a = strip_parens(self.subst(m.group(2)))
            x = re.sub(r"^\*(" + IDENT + r")(?:\.get\(\))?$", r"\1", a)
            if loop is not None and loop[0] == "range" and x == loop[3]:
                self.acc[m.group(1)].append(("each", loop[1], loop[2]))
                return
            if loop is None and self.roots.get(x) == "SingleCalculationResult":
                self.acc[m.group(1)].append(("one", "SingleCalculationResult"))
                return
            raise Untranslatable("accumulator fed with something unknown: " + t[:70])
        if t.startswith("response=") and not guards and loop is None:
            self.result = t[len("response="):]
            return
        m = re.match(r"^(" + IDENT + r")=(?!=)(.+)$", t)
        if m and m.group(1) in self.strings and not guards and loop is None:
            s = self.sel(m.group(2))
            if s[0] != "RConst":
                raise Untranslatable("string local assigned something that is not a constant")
            self.strings[m.group(1)] = s[1]
            return
        d = DECL.match(text.strip())
        if d and not guards:
            ty, name = flat(d.group("ty")), d.group("name")
            init = d.group("init") if d.group("init") is not None else d.group("binit") if d.group("binit") is not None else d.group("pinit")
            init = flat(init) if init is not None else None
            base = ty.split("::")[-1]
            if name in self.roots or name in self.alias or name in self.objects:
                raise Untranslatable("local %s declared twice / shadows" % name)
            if ty == "nlohmann::json" or ty == "json":
                if init:
                    raise Untranslatable("json object declared with an initial value")
                if loop is not None and loop[0] != "lines":
                    raise Untranslatable("object declared inside a push_back loop")
                self.objects[name] = []
                self.order.append(name)
                return
            if base.endswith("Visitor") and (init in (None, "", base + "()")):
                self.visitors.add(name)
                self.visitor_class = base
                return
            if base == "SummaryResultAccumulator" and (init in (None, "", base + "()")):
                self.acc[name] = []
                return
            if ty == "std::string" and init in (None, ""):
                self.strings[name] = ""
                return
            if init:
                if base in MEMBERS and loop is not None and loop[0] == "lines":
                    pass
                self.alias[name] = self.subst(init)
                return
        raise Untranslatable("unrecognised statement: " + t[:90])

    def loop(self, header, body):
        h = flat(header)
        m = re.match(r"^(?:const)?auto(?:const)?&?&?(" + IDENT + r"):(.+)$", h)
        if m:
            var = m.group(1)
            cls, p = self.path(strip_parens(self.subst(m.group(2))))
            if var in self.roots or var in self.alias:
                raise Untranslatable("loop variable shadows " + var)
            elem = {("SingleCalculationResult", "steps"): "RoutingStep", ("AlternativesResult", "alternatives"): "SingleCalculationResult",
                    ("AllNodesResult", "nodes"): "AccessibleNodes"}.get((cls, p))
            if elem is None:
                raise Untranslatable("loop over something unknown: " + h[:70])
            self.roots[var] = elem
            self.run(body, (), ("range", cls, p, var))
            del self.roots[var]
            return
        m = re.match(r"^auto(" + IDENT + r")=(.+)\.begin\(\);\1!=(.+)\.end\(\);(?:\+\+\1|\1\+\+)$", h)
        if m and m.group(2) == m.group(3):
            var = m.group(1)
            coll = strip_parens(self.subst(m.group(2)))
            mm = re.match(r"^(" + IDENT + r")\.getLineSummaries\(\)$", coll)
            if not mm or self.roots.get(mm.group(1)) != "SummaryResultAccumulator":
                raise Untranslatable("iterator loop over something unknown: " + coll[:70])
            # it->second is the LineSummary of the entry
            self.lines_it = var
            self.run_lines(body, var)
            return
        raise Untranslatable("loop header not understood: " + h[:70])

    def run_lines(self, body, it):
        """the body of the loop over the accumulator's map: a fresh object per entry, pushed at the end"""
        sub = Fn(self.env, self.roots)
        sub.alias = dict(self.alias)
        # `it->second` / `(*it).second` name the entry's LineSummary
        sub.roots["__entry"] = "LineSummary"
        pre = []
        for n in body:
            if n[0] == "stmt":
                t = re.sub(r"\(\*" + it + r"\)\.second|" + it + r"->second", "__entry", n[1])
                pre.append(("stmt", t))
            else:
                pre.append(n)
        pushes = []
        rest = []
        for n in pre:
            if n[0] == "stmt":
                m = re.match(r"^(" + IDENT + r")\[\"([^\"\\]*)\"\]\.push_back\((" + IDENT + r")\)$", flat(n[1]))
                if m and m.group(1) in self.objects:
                    pushes.append((m.group(1), m.group(2), m.group(3)))
                    continue
                if pushes:
                    raise Untranslatable("statement after the push_back of the line object")
            rest.append(n)
        sub.run(rest, (), ("lines",))
        if len(pushes) != 1 or len(sub.order) != 1 or pushes[0][2] != sub.order[0]:
            raise Untranslatable("the loop over the line summaries does not build and push exactly one object")
        self.push(pushes[0][0], pushes[0][1], ("each", "lines", "obj", sub.order[0]))
        self.line_entries = sub.finish(sub.order[0])

    def switch(self, ex, items):
        x = strip_parens(self.subst(flat(ex)))
        if self.roots.get(x) != "NoRoutingReason":
            raise Untranslatable("switch over something that is not the NoRoutingReason parameter")
        # execute from every label to the next break
        labels = [(k, it[1]) for k, it in enumerate(items) if it[0] == "label"]
        rows, default, var = [], None, None
        seen = set()
        for k, lab in labels:
            val = None
            for it in items[k + 1:]:
                if it[0] == "label":
                    continue
                if it[0] == "break":
                    break
                if it[0] != "stmt":
                    raise Untranslatable("`%s` inside the reason switch" % it[0])
                m = re.match(r"^(" + IDENT + r")=(?!=)(.+)$", flat(it[1]))
                if not m or m.group(1) not in self.strings:
                    raise Untranslatable("statement inside the reason switch: " + flat(it[1])[:70])
                if var not in (None, m.group(1)):
                    raise Untranslatable("the reason switch assigns two variables")
                var = m.group(1)
                s = self.sel(m.group(2))
                if s[0] != "RConst":
                    raise Untranslatable("reason that is not a string constant")
                val = s[1]
            if val is None:
                val = self.strings.get(var, "") if var else ""
            if lab is None:
                default = val
            else:
                name = lab.split("::")[-1]
                if name not in REASONS or name in seen:
                    raise Untranslatable("unknown or repeated enumerator in the reason switch: " + lab)
                seen.add(name)
                rows.append((name, val))
        if var is None:
            raise Untranslatable("the reason switch assigns nothing")
        if default is None:
            default = self.strings[var]          # no default label: the variable keeps its value
        if self.strings[var] is None:
            raise Untranslatable("two reason switches")
        self.reason_rows, self.reason_default = rows, default
        self.strings[var] = None

    def finish(self, obj):
        """the pairs of one object, arrays resolved"""
        out = [list(e) for e in self.objects[obj]]
        for (o, key), (idx, pushes) in self.arrays.items():
            if o != obj or not pushes:
                continue
            if len(pushes) != 1:
                raise Untranslatable("several push_back statements into %s[\"%s\"]" % (o, key))
            p = pushes[0]
            if p[0] == "each" and p[1] == "range" and p[5:] and (p[2], p[3]) == ("SingleCalculationResult", "steps") and p[5] == "visit" and p[6] == p[4] \
                    and getattr(self, "visitor_class", None) == "StepToV2Visitor":
                s = ("RStepsEach",)
            elif p[0] == "each" and p[1] == "range" and (p[2], p[3]) == ("AlternativesResult", "alternatives") and p[5:] == ("route", p[4]):
                s = ("RRoutesEach",)
            elif p[0] == "each" and p[1] == "range" and (p[2], p[3]) == ("AllNodesResult", "nodes") and p[5:] == ("node", p[4]):
                s = ("RNodesEach",)
            elif p[0] == "one" and p[1] == "route" and self.roots.get(p[2]) == "SingleCalculationResult":
                s = ("RRouteOne",)
            elif p[0] == "each" and p[1] == "lines":
                s = ("RLinesArray",)
            else:
                raise Untranslatable("push_back pattern not understood for %s[\"%s\"]: %r" % (o, key, p))
            out[idx][1] = s
        return [(k, s) for k, s in out]


# ------------------------------------------------------------------------------------------------
# Coq text

def coq_string(s):
    if '"' in s or "\\" in s or any(ord(c) < 32 or ord(c) > 126 for c in s):
        raise Untranslatable("string not representable: %r" % s)
    return '"%s"' % s


def coq_cond(c):
    if c[0] == "CNot":
        return "(CNot %s)" % coq_cond(c[1])
    if c[0] == "CWalkTypeIs":
        return "(CWalkTypeIs %d)" % c[1]
    return c[0]


def coq_sel(s):
    k = s[0]
    if k == "leaf":
        return "(%s)" % s[1] if " " in s[1] else s[1]
    if k == "RConst":
        return "(RConst %s)" % coq_string(s[1])
    if k == "RInt":
        return "(RInt %s)" % (("(%d)" % s[1]) if s[1] < 0 else str(s[1]))
    if k in ("RSub", "RPair"):
        return "(%s %s %s)" % (k, coq_sel(s[1]), coq_sel(s[2]))
    if k == "RIf":
        return "(RIf %s %s %s)" % (coq_cond(s[1]), coq_sel(s[2]), coq_sel(s[3]))
    if k == "RWhen":
        return "(RWhen %s %s)" % (coq_cond(s[1]), coq_sel(s[2]))
    if k == "RResultObj":
        return "RResultObj"
    return k


def coq_pairs(pairs):
    if not pairs:
        return "[]"
    return "[ " + ";\n    ".join("(%s, %s)" % (coq_string(k), coq_sel(s)) for k, s in pairs) + " ]"


def coq_rows(rows):
    if not rows:
        return "[]"
    return "[ " + ";\n    ".join("(R_%s, %s)" % (n, coq_string(v)) for n, v in rows) + " ]"


PAIRS = "list (string * rsel)"


# ------------------------------------------------------------------------------------------------
# the three files

def constants(repo):
    env = {}
    for h in CONST_HEADERS:
        src = GG.strip_c_comments(open(os.path.join(repo, h)).read())
        for m in re.finditer(r"const\s+std::string\s+(\w+)\s*=\s*\"([^\"\\]*)\"\s*;", src):
            env[m.group(1)] = m.group(2)
    return env


def simple_object(env, src, name_rx, param_rx=None, **kw):
    """a function that fills ONE object and returns it / stores it into `response`"""
    params, body = find_function(src, name_rx, param_rx)
    f = Fn(env, parse_params(params), **kw)
    f.run(parse_list(body))
    if len(f.order) != 1 or f.result != f.order[0]:
        raise Untranslatable("%s does not build and return exactly one object" % name_rx)
    return f.finish(f.order[0])


def point_fn(env, src, name_rx):
    params, body = find_function(src, name_rx)
    roots = parse_params(params)
    nodes = parse_list(body)
    if len(nodes) != 1 or nodes[0][0] != "return":
        raise Untranslatable("%s is not a single return" % name_rx)
    f = Fn(env, roots)
    return f.sel(flat(nodes[0][1]))


def top_level(env, src, name_rx, param_rx, **kw):
    """json (status, query, result | reason) + the local result object; -> (top pairs, result pairs | None, Fn)"""
    params, body = find_function(src, name_rx, param_rx)
    f = Fn(env, parse_params(params), **kw)
    f.run(parse_list(body))
    if not f.order or f.result != f.order[0] or len(f.order) > 2:
        raise Untranslatable("%s does not build one answer object (with at most one nested object)" % name_rx)
    top = f.finish(f.order[0])
    res = None
    if len(f.order) == 2:
        res = f.finish(f.order[1])
        refs = [s for _, s in top if s[0] == "RResultObj"]
        if len(refs) != 1 or refs[0][1] != f.order[1]:
            raise Untranslatable("the nested object of %s is not assigned exactly once" % name_rx)
    elif any(s[0] == "RResultObj" for _, s in top):
        raise Untranslatable("nested object without pairs")
    return top, res, f


def translate_all(repo):
    """-> list of (group, [(name, type, comment, body)]) ; a group falls back as a whole"""
    env = constants(repo)
    srcs = {k: GG.strip_c_comments(open(os.path.join(repo, p)).read()) for k, p in
            (("route", SRC_ROUTE), ("access", SRC_ACCESS), ("summary", SRC_SUMMARY))}
    groups = []

    def group(name, fn):
        try:
            groups.append((name, fn(), None))
        except (Untranslatable, GG.Untranslatable, ValueError, OSError, KeyError, IndexError) as e:
            groups.append((name, None, "%s: %s" % (name, e)))

    R, A, S = srcs["route"], srcs["access"], srcs["summary"]

    group("walking_step", lambda: [("gen_render_walk", PAIRS, "StepToV2Visitor::visitWalkingStep (result_to_v2.cpp)",
                                    coq_pairs(simple_object(env, R, r"StepToV2Visitor::visitWalkingStep")))])
    group("boarding_step", lambda: [("gen_render_board", PAIRS, "StepToV2Visitor::visitBoardingStep",
                                     coq_pairs(simple_object(env, R, r"StepToV2Visitor::visitBoardingStep")))])
    group("unboarding_step", lambda: [("gen_render_unboard", PAIRS, "StepToV2Visitor::visitUnboardingStep",
                                       coq_pairs(simple_object(env, R, r"StepToV2Visitor::visitUnboardingStep")))])
    group("route_object", lambda: [("gen_render_route", PAIRS, "getSingleResultJsonString: one element of \"routes\"",
                                    coq_pairs(simple_object(env, R, r"getSingleResultJsonString")))])
    group("route_query", lambda: [
        ("gen_render_route_query", PAIRS, "parametersToRouteQueryResponse",
         coq_pairs(simple_object(env, R, r"parametersToRouteQueryResponse", point_fn="pointToRouteJson"))),
        ("gen_render_route_point", "rsel", "pointToRouteJson", coq_sel(point_fn(env, R, r"pointToRouteJson")))])

    def noroute(src, cls_rx, qfn, prefix, what):
        top, res, f = top_level(env, src, cls_rx + r"::noRoutingFoundResponse", None, query_fn=qfn)
        if res is not None or f.reason_rows is None:
            raise Untranslatable("no-routing answer of an unexpected shape")
        return [(prefix + "_top", PAIRS, what, coq_pairs(top)),
                (prefix + "_reasons", "list (nat * string)", what + ": the switch over NoRoutingReason, rows in source order", coq_rows(f.reason_rows)),
                (prefix + "_reason_default", "string", what + ": default / no matching case", "(%s)" % coq_string(f.reason_default))]
    group("route_noroute", lambda: noroute(R, r"ResultToV2Response", "parametersToRouteQueryResponse", "gen_render_noroute",
                                           "ResultToV2Response::noRoutingFoundResponse"))

    def with_result(src, name_rx, param_rx, prefix, what, **kw):
        top, res, f = top_level(env, src, name_rx, param_rx, **kw)
        if res is None:
            raise Untranslatable("answer without a result object")
        return [(prefix + "_top", PAIRS, what, coq_pairs(top)), (prefix + "_result", PAIRS, what + ": the object under \"result\"", coq_pairs(res))]
    group("route_alternatives", lambda: with_result(R, r"ResultToV2Response::resultToJsonString", r"AlternativesResult", "gen_render_alt",
                                                    "ResultToV2Response::resultToJsonString(AlternativesResult&, ...)",
                                                    query_fn="parametersToRouteQueryResponse", route_fn="getSingleResultJsonString"))
    group("route_single", lambda: with_result(R, r"ResultToV2Response::resultToJsonString", r"SingleCalculationResult", "gen_render_single",
                                              "ResultToV2Response::resultToJsonString(SingleCalculationResult&, ...)",
                                              query_fn="parametersToRouteQueryResponse", route_fn="getSingleResultJsonString"))

    # ---- accessibility ----
    def access_node():
        params, body = find_function(A, r"nodeToJson")
        roots = parse_params(params)
        fwd = [n for n, c in roots.items() if c == "bool"]
        f = Fn(env, roots, forward_names=fwd)
        f.run(parse_list(body))
        if len(f.order) != 1 or f.result != f.order[0]:
            raise Untranslatable("nodeToJson does not build and return exactly one object")
        return [("gen_render_access_node", PAIRS, "nodeToJson(node, isForward): one element of \"nodes\"", coq_pairs(f.finish(f.order[0])))]
    group("access_node", access_node)
    group("access_query", lambda: [
        ("gen_render_access_query", PAIRS, "parametersToAccessibilityQueryResponse",
         coq_pairs(simple_object(env, A, r"parametersToAccessibilityQueryResponse", point_fn="pointToAccessibilityJson"))),
        ("gen_render_access_point", "rsel", "pointToAccessibilityJson", coq_sel(point_fn(env, A, r"pointToAccessibilityJson")))])
    group("access_noroute", lambda: noroute(A, r"ResultToV2AccessibilityResponse", "parametersToAccessibilityQueryResponse",
                                            "gen_render_access_noroute", "ResultToV2AccessibilityResponse::noRoutingFoundResponse"))
    group("access_top", lambda: with_result(A, r"ResultToV2AccessibilityResponse::resultToJsonString", None, "gen_render_access",
                                            "ResultToV2AccessibilityResponse::resultToJsonString",
                                            query_fn="parametersToAccessibilityQueryResponse", node_fn="nodeToJson"))

    # ---- summary ----
    def summary_line():
        params, body = find_function(S, r"lineSummariesToJson")
        f = Fn(env, parse_params(params))
        f.run(parse_list(body))
        if len(f.order) != 1 or not hasattr(f, "line_entries"):
            raise Untranslatable("lineSummariesToJson of an unexpected shape")
        holder = f.order[0]
        entries = f.finish(holder)
        if len(entries) != 1 or entries[0][1] != ("RLinesArray",) or f.result != '%s["%s"]' % (holder, entries[0][0]):
            raise Untranslatable("lineSummariesToJson does not return the array it fills")
        return [("gen_render_summary_line", PAIRS, "lineSummariesToJson: one element of \"lines\" (one per entry of the accumulator's map)",
                 coq_pairs(f.line_entries))]
    group("summary_line", summary_line)
    group("summary_query", lambda: [
        ("gen_render_summary_query", PAIRS, "parametersToQueryResponse (result_to_v2_summary.cpp)",
         coq_pairs(simple_object(env, S, r"parametersToQueryResponse", point_fn="pointToJson"))),
        ("gen_render_summary_point", "rsel", "pointToJson", coq_sel(point_fn(env, S, r"pointToJson")))])
    skw = dict(query_fn="parametersToQueryResponse", lines_fn="lineSummariesToJson")
    group("summary_noroute", lambda: with_result(S, r"ResultToV2SummaryResponse::noRoutingFoundResponse", None, "gen_render_summary_noroute",
                                                 "ResultToV2SummaryResponse::noRoutingFoundResponse", **skw))
    group("summary_alternatives", lambda: with_result(S, r"ResultToV2SummaryResponse::resultToJsonString", r"AlternativesResult",
                                                      "gen_render_summary_alt", "ResultToV2SummaryResponse::resultToJsonString(AlternativesResult&, ...)", **skw))
    group("summary_single", lambda: with_result(S, r"ResultToV2SummaryResponse::resultToJsonString", r"SingleCalculationResult",
                                                "gen_render_summary_single", "ResultToV2SummaryResponse::resultToJsonString(SingleCalculationResult&, ...)", **skw))
    return groups


# the committed tables (what the translator reads in the source the proofs were made for; `--print-hand` prints them)
HAND = {
    'walking_step': [
        ('gen_render_walk', 'list (string * rsel)', 'StepToV2Visitor::visitWalkingStep (result_to_v2.cpp)', """[ ("action", (RConst "walking"));
    ("type", (RIf (CWalkTypeIs 0) (RConst "access") (RIf (CWalkTypeIs 1) (RConst "egress") (RConst "transfer"))));
    ("travelTime", STravelTime);
    ("distance", SDistanceMeters);
    ("departureTime", SStepDepartureTime);
    ("arrivalTime", SStepArrivalTime);
    ("readyToBoardAt", (RWhen (CNot (CWalkTypeIs 1)) SReadyToBoardAt)) ]"""),
    ],
    'boarding_step': [
        ('gen_render_board', 'list (string * rsel)', 'StepToV2Visitor::visitBoardingStep', """[ ("action", (RConst "boarding"));
    ("agencyAcronym", (ROpaque OTripAgencyAcronym));
    ("agencyName", (ROpaque OTripAgencyName));
    ("agencyUuid", (ROpaque OTripAgencyUuid));
    ("lineShortname", (ROpaque OTripLineShortname));
    ("lineLongname", (ROpaque OTripLineLongname));
    ("lineUuid", (ROpaque OTripLineUuid));
    ("pathUuid", (ROpaque OTripPathUuid));
    ("modeName", (ROpaque OTripModeName));
    ("mode", (ROpaque OTripModeShortname));
    ("tripUuid", (ROpaque OTripUuid));
    ("legSequenceInTrip", SLegSequenceInTrip);
    ("stopSequenceInTrip", SStopSequenceInTrip);
    ("nodeName", (ROpaque ONodeName));
    ("nodeCode", (ROpaque ONodeCode));
    ("nodeUuid", (ROpaque ONodeUuid));
    ("nodeCoordinates", (RPair (ROpaque ONodeLongitude) (ROpaque ONodeLatitude)));
    ("departureTime", SStepDepartureTime);
    ("waitingTime", SWaitingTime) ]"""),
    ],
    'unboarding_step': [
        ('gen_render_unboard', 'list (string * rsel)', 'StepToV2Visitor::visitUnboardingStep', """[ ("action", (RConst "unboarding"));
    ("agencyAcronym", (ROpaque OTripAgencyAcronym));
    ("agencyName", (ROpaque OTripAgencyName));
    ("agencyUuid", (ROpaque OTripAgencyUuid));
    ("lineShortname", (ROpaque OTripLineShortname));
    ("lineLongname", (ROpaque OTripLineLongname));
    ("lineUuid", (ROpaque OTripLineUuid));
    ("pathUuid", (ROpaque OTripPathUuid));
    ("modeName", (ROpaque OTripModeName));
    ("mode", (ROpaque OTripModeShortname));
    ("tripUuid", (ROpaque OTripUuid));
    ("legSequenceInTrip", SLegSequenceInTrip);
    ("stopSequenceInTrip", SStopSequenceInTrip);
    ("nodeName", (ROpaque ONodeName));
    ("nodeCode", (ROpaque ONodeCode));
    ("nodeUuid", (ROpaque ONodeUuid));
    ("nodeCoordinates", (RPair (ROpaque ONodeLongitude) (ROpaque ONodeLatitude)));
    ("arrivalTime", SStepArrivalTime);
    ("inVehicleTime", SInVehicleTime);
    ("inVehicleDistance", SInVehicleDistanceMeters) ]"""),
    ],
    'route_object': [
        ('gen_render_route', 'list (string * rsel)', 'getSingleResultJsonString: one element of "routes"', """[ ("departureTime", RDepartureTime);
    ("arrivalTime", RArrivalTime);
    ("totalTravelTime", RTotalTravelTime);
    ("totalDistance", RTotalDistance);
    ("totalInVehicleTime", RTotalInVehicleTime);
    ("totalInVehicleDistance", RTotalInVehicleDistance);
    ("totalNonTransitTravelTime", RTotalNonTransitTravelTime);
    ("totalNonTransitDistance", RTotalNonTransitDistance);
    ("numberOfBoardings", RNumberOfBoardings);
    ("numberOfTransfers", RNumberOfTransfers);
    ("transferWalkingTime", RTransferWalkingTime);
    ("transferWalkingDistance", RTransferWalkingDistance);
    ("accessTravelTime", RAccessTravelTime);
    ("accessDistance", RAccessDistance);
    ("egressTravelTime", REgressTravelTime);
    ("egressDistance", REgressDistance);
    ("transferWaitingTime", RTransferWaitingTime);
    ("firstWaitingTime", RFirstWaitingTime);
    ("totalWaitingTime", RTotalWaitingTime);
    ("steps", RStepsEach) ]"""),
    ],
    'route_query': [
        ('gen_render_route_query', 'list (string * rsel)', 'parametersToRouteQueryResponse', """[ ("origin", (ROpaque OOrigin));
    ("destination", (ROpaque ODestination));
    ("timeOfTrip", QTimeOfTrip);
    ("timeType", (RIf CForward (RInt 0) (RInt 1))) ]"""),
        ('gen_render_route_point', 'rsel', 'pointToRouteJson', """(RPair (ROpaque OPointLongitude) (ROpaque OPointLatitude))"""),
    ],
    'route_noroute': [
        ('gen_render_noroute_top', 'list (string * rsel)', 'ResultToV2Response::noRoutingFoundResponse', """[ ("status", (RConst "no_routing_found"));
    ("query", RQueryObj);
    ("reason", RReason) ]"""),
        ('gen_render_noroute_reasons', 'list (nat * string)', 'ResultToV2Response::noRoutingFoundResponse: the switch over NoRoutingReason, rows in source order', """[ (R_NO_ROUTING_FOUND, "NO_ROUTING_FOUND");
    (R_NO_ACCESS_AT_ORIGIN, "NO_ACCESS_AT_ORIGIN");
    (R_NO_ACCESS_AT_DESTINATION, "NO_ACCESS_AT_DESTINATION");
    (R_NO_SERVICE_FROM_ORIGIN, "NO_SERVICE_FROM_ORIGIN");
    (R_NO_SERVICE_TO_DESTINATION, "NO_SERVICE_TO_DESTINATION");
    (R_NO_ACCESS_AT_ORIGIN_AND_DESTINATION, "NO_ACCESS_AT_ORIGIN_AND_DESTINATION") ]"""),
        ('gen_render_noroute_reason_default', 'string', 'ResultToV2Response::noRoutingFoundResponse: default / no matching case', """("NO_ROUTING_FOUND")"""),
    ],
    'route_alternatives': [
        ('gen_render_alt_top', 'list (string * rsel)', 'ResultToV2Response::resultToJsonString(AlternativesResult&, ...)', """[ ("status", (RConst "success"));
    ("query", RQueryObj);
    ("result", RResultObj) ]"""),
        ('gen_render_alt_result', 'list (string * rsel)', 'ResultToV2Response::resultToJsonString(AlternativesResult&, ...): the object under "result"', """[ ("routes", RRoutesEach);
    ("totalRoutesCalculated", ATotalAlternativesCalculated) ]"""),
    ],
    'route_single': [
        ('gen_render_single_top', 'list (string * rsel)', 'ResultToV2Response::resultToJsonString(SingleCalculationResult&, ...)', """[ ("status", (RConst "success"));
    ("query", RQueryObj);
    ("result", RResultObj) ]"""),
        ('gen_render_single_result', 'list (string * rsel)', 'ResultToV2Response::resultToJsonString(SingleCalculationResult&, ...): the object under "result"', """[ ("totalRoutesCalculated", (RInt 1));
    ("routes", RRouteOne) ]"""),
    ],
    'access_node': [
        ('gen_render_access_node', 'list (string * rsel)', 'nodeToJson(node, isForward): one element of "nodes"', """[ ("nodeName", (ROpaque ONodeName));
    ("nodeCode", (ROpaque ONodeCode));
    ("nodeUuid", (ROpaque ONodeUuid));
    ("nodeTime", (RIf CForward NArrivalTime (RSub NArrivalTime NTotalTravelTime)));
    ("nodeCoordinates", (RPair (ROpaque ONodeLongitude) (ROpaque ONodeLatitude)));
    ("totalTravelTime", NTotalTravelTime);
    ("numberOfTransfers", NNumberOfTransfers) ]"""),
    ],
    'access_query': [
        ('gen_render_access_query', 'list (string * rsel)', 'parametersToAccessibilityQueryResponse', """[ ("place", (ROpaque OPlace));
    ("timeOfTrip", QTimeOfTrip);
    ("timeType", (RIf CForward (RInt 0) (RInt 1))) ]"""),
        ('gen_render_access_point', 'rsel', 'pointToAccessibilityJson', """(RPair (ROpaque OPointLongitude) (ROpaque OPointLatitude))"""),
    ],
    'access_noroute': [
        ('gen_render_access_noroute_top', 'list (string * rsel)', 'ResultToV2AccessibilityResponse::noRoutingFoundResponse', """[ ("status", (RConst "no_routing_found"));
    ("query", RQueryObj);
    ("reason", RReason) ]"""),
        ('gen_render_access_noroute_reasons', 'list (nat * string)', 'ResultToV2AccessibilityResponse::noRoutingFoundResponse: the switch over NoRoutingReason, rows in source order', """[ (R_NO_ROUTING_FOUND, "NO_ROUTING_FOUND");
    (R_NO_ACCESS_AT_ORIGIN, "NO_ACCESS_AT_PLACE");
    (R_NO_ACCESS_AT_DESTINATION, "NO_ACCESS_AT_PLACE");
    (R_NO_SERVICE_FROM_ORIGIN, "NO_SERVICE_AT_PLACE");
    (R_NO_SERVICE_TO_DESTINATION, "NO_SERVICE_AT_PLACE") ]"""),
        ('gen_render_access_noroute_reason_default', 'string', 'ResultToV2AccessibilityResponse::noRoutingFoundResponse: default / no matching case', """("NO_ROUTING_FOUND")"""),
    ],
    'access_top': [
        ('gen_render_access_top', 'list (string * rsel)', 'ResultToV2AccessibilityResponse::resultToJsonString', """[ ("status", (RConst "success"));
    ("query", RQueryObj);
    ("result", RResultObj) ]"""),
        ('gen_render_access_result', 'list (string * rsel)', 'ResultToV2AccessibilityResponse::resultToJsonString: the object under "result"', """[ ("totalNodeCount", ATotalNodeCount);
    ("nodes", RNodesEach) ]"""),
    ],
    'summary_line': [
        ('gen_render_summary_line', 'list (string * rsel)', 'lineSummariesToJson: one element of "lines" (one per entry of the accumulator\'s map)', """[ ("lineUuid", (ROpaque OLineUuid));
    ("lineShortname", (ROpaque OLineShortname));
    ("lineLongname", (ROpaque OLineLongname));
    ("agencyUuid", (ROpaque OLineAgencyUuid));
    ("agencyAcronym", (ROpaque OLineAgencyAcronym));
    ("agencyName", (ROpaque OLineAgencyName));
    ("alternativeCount", LCount) ]"""),
    ],
    'summary_query': [
        ('gen_render_summary_query', 'list (string * rsel)', 'parametersToQueryResponse (result_to_v2_summary.cpp)', """[ ("origin", (ROpaque OOrigin));
    ("destination", (ROpaque ODestination));
    ("timeOfTrip", QTimeOfTrip);
    ("timeType", (RIf CForward (RInt 0) (RInt 1))) ]"""),
        ('gen_render_summary_point', 'rsel', 'pointToJson', """(RPair (ROpaque OPointLongitude) (ROpaque OPointLatitude))"""),
    ],
    'summary_noroute': [
        ('gen_render_summary_noroute_top', 'list (string * rsel)', 'ResultToV2SummaryResponse::noRoutingFoundResponse', """[ ("status", (RConst "success"));
    ("query", RQueryObj);
    ("result", RResultObj) ]"""),
        ('gen_render_summary_noroute_result', 'list (string * rsel)', 'ResultToV2SummaryResponse::noRoutingFoundResponse: the object under "result"', """[ ("nbRoutes", (RInt 0));
    ("lines", REmptyArray) ]"""),
    ],
    'summary_alternatives': [
        ('gen_render_summary_alt_top', 'list (string * rsel)', 'ResultToV2SummaryResponse::resultToJsonString(AlternativesResult&, ...)', """[ ("status", (RConst "success"));
    ("query", RQueryObj);
    ("result", RResultObj) ]"""),
        ('gen_render_summary_alt_result', 'list (string * rsel)', 'ResultToV2SummaryResponse::resultToJsonString(AlternativesResult&, ...): the object under "result"', """[ ("nbRoutes", AAlternativesCount);
    ("lines", RLinesOfAlternatives) ]"""),
    ],
    'summary_single': [
        ('gen_render_summary_single_top', 'list (string * rsel)', 'ResultToV2SummaryResponse::resultToJsonString(SingleCalculationResult&, ...)', """[ ("status", (RConst "success"));
    ("query", RQueryObj);
    ("result", RResultObj) ]"""),
        ('gen_render_summary_single_result', 'list (string * rsel)', 'ResultToV2SummaryResponse::resultToJsonString(SingleCalculationResult&, ...): the object under "result"', """[ ("nbRoutes", (RInt 1));
    ("lines", RLinesOfSingle) ]"""),
    ],
}


def regenerate():
    repo = os.environ.get("TRV_REPO", "/repo")
    report = dict(functions={}, fallback=[])
    try:
        groups = translate_all(repo)
    except (Untranslatable, GG.Untranslatable, ValueError, OSError) as e:      # headers unreadable
        if HAND is None:
            raise RuntimeError("render: %s, and no committed tables to fall back to" % e)
        groups = [(g, None, "%s: %s" % (g, e)) for g in HAND]
    defs = []
    for name, ds, err in groups:
        if ds is None:
            if HAND is None or name not in HAND:
                raise RuntimeError("render: %s, and no committed table to fall back to" % err)
            report["fallback"].append(err)
            report["functions"][name] = "fallback"
            ds = HAND[name]
        else:
            report["functions"][name] = "source"
        defs += [tuple(d) for d in ds]
    lines = [
        "(* GENERATED by tools/gen_render.py from /repo's result_to_v2.cpp, result_to_v2_accessibility.cpp and",
        "   result_to_v2_summary.cpp - do not edit.",
        "   %s *)" % ", ".join("%s: %s" % kv for kv in report["functions"].items()),
        "From Coq Require Import Strings.String.",
        "From Coq Require Import List ZArith.",
        "From TrV Require Import Base.",
        "Require Import TrV.RenderJson.",
        "Import ListNotations.",
        "Local Open Scope string_scope.",
        "Local Open Scope list_scope.",
        ""]
    for name, ty, what, body in defs:
        lines += ["(* %s *)" % what, "Definition %s : %s :=\n  %s." % (name, ty, body), ""]
    text = "\n".join(lines)
    os.makedirs(os.path.dirname(OUT), exist_ok=True)
    old = open(OUT).read() if os.path.exists(OUT) else None
    if old != text:
        with open(OUT, "w") as fh:
            fh.write(text)
    report["changed"] = old != text
    report["from_source"] = sum(1 for v in report["functions"].values() if v == "source")
    report["total"] = len(report["functions"])
    report["policy"] = "source" if report["from_source"] == report["total"] else "fallback"
    report["reason"] = "; ".join(report["fallback"])
    return report


if __name__ == "__main__":
    if len(sys.argv) > 1 and sys.argv[1] == "--print-hand":
        groups = translate_all(os.environ.get("TRV_REPO", "/repo"))
        bad = [err for _, ds, err in groups if ds is None]
        if bad:
            sys.exit("cannot print the committed tables: " + "; ".join(bad))
        print("HAND = {")
        for name, ds, _ in groups:
            print("    %r: [" % name)
            for d in ds:
                print("        (%r, %r, %r, \"\"\"%s\"\"\")," % d)
            print("    ],")
        print("}")
    else:
        print(json.dumps(regenerate(), indent=1))
