#!/usr/bin/env python3
"""L3 harness: drive the REAL trRouting HTTP server binary (built from TRV_REPO's working tree).

Pieces (all standard library, plus the `capnp` command-line tool for the cache files):
  build_server(san)         build the server binary through tools/build.py's content-hashed object cache
  write_cache(ds, dir)      gen.Dataset -> complete Cap'n Proto (packed) cache directory
  OsrmStub                  threaded stand-in for the OSRM walking router (tables + scripted faults)
  Server                    process wrapper: start, wait for the port, raw-socket GET, stop
  route_qs/summary_qs/access_qs   query strings for /v2/route, /v2/summary, /v2/accessibility
  canon_route/canon_access/canon_summary   canonical one-line texts (same format as harness/l2.cpp prints)
  selftest()                exercises everything against the real binary

Things to know when predicting the server's answers:
  * the server's OSRM client retries ONCE, silently, when the connection fails before a response header arrived:
    queue "refuse"/"drop" twice to make the failure visible to the calculation;
  * the geofilter enumerates candidate stops in id order and drops rows slower than max_access/egress_travel_time:
    effective_rows(rows, max) is the list the calculator really gets;
  * the straight-line pre-filter lets stop n through iff (0.787 n)^2 + 11^2 (22^2 for the destination) <= (max_time * 1.389)^2
    metres, i.e. about the first 100 stops for 60 s, 528 for 300 s, all of 1500 for 1200 s;
  * footpath times/distances are Int16 in the node files, trip times Int32.

Conventions shared with harness/l2.cpp:
  uuid of object kind K with integer id N = "%08d-0000-4000-8000-%012d" % (K, N)
  K: node 1, line 2, path 3, trip 4, scenario 5, agency 6, service 7
  stop n sits at latitude 45.0, longitude -73.0 + n*1e-5; origin point (lon -73.0, lat 45.0001),
  destination point (lon -73.0, lat 45.0002), accessibility place = origin point.

Optional stop clusters (used by check_c20.py; everything else keeps the single cluster above, byte for byte):
  a dataset may carry `ds.lon_off = {stop id: offset in micro-degrees of longitude}` (set_clusters): stop n then sits at
  longitude -73.0 + n*1e-5 + lon_off[n]*1e-6; a query may carry q["origin_off"] / q["dest_off"] (micro-degrees): its
  origin / destination / place point is moved east by that much.  With offsets that are multiples of 0.5 degree (39 km)
  the straight-line pre-filter of the server only lets the stops of the point's own cluster through (candidates()),
  so different requests have DIFFERENT candidate stop sets.  OsrmStub.set_layout(ds) tells the stub how to map the
  longitudes it is asked about back to stop ids.
"""
import json, os, re, socket, struct, subprocess, sys, threading, time

sys.path.insert(0, os.path.dirname(os.path.abspath(__file__)))
import build  # noqa: E402  (object cache, REPO, VERIF, WORK)

VERIF = build.VERIF
WORK = build.WORK
LOGS = os.path.join(WORK, "l3logs")
MAX_INT = 2147483647

K_NODE, K_LINE, K_PATH, K_TRIP, K_SCEN, K_AGENCY, K_SERVICE = 1, 2, 3, 4, 5, 6, 7

ORIGIN_LAT, DEST_LAT, POINT_LON = 45.0001, 45.0002, -73.0
ORIGIN = "-73.0,45.0001"       # "lon,lat" (route_parameters.cpp: Point(stod(v[1]), stod(v[0])) = Point(lat, lon))
DESTINATION = "-73.0,45.0002"
UNREACHABLE = 100000           # duration and distance served for stops that are not in the table


CLUSTER_STEP = 500000          # micro-degrees of longitude between two stop clusters (0.5 degree, about 39 km at latitude 45)


def lon_off(ds, n):
    """longitude offset (micro-degrees) of stop n of dataset ds; 0 without clusters"""
    m = getattr(ds, "lon_off", None)
    return m.get(n, 0) if m else 0


def node_lon_e6(ds, n):
    """longitude of stop n as written to the cache files (Int32, degrees * 1e6)"""
    return -73000000 + 10 * n + lon_off(ds, n)


def set_clusters(ds, nclusters, key=None):
    """Spread the stops of ds over `nclusters` clusters CLUSTER_STEP apart: stop n goes to cluster key(n) (default n % nclusters).
    Returns ds (modified in place: ds.lon_off)."""
    key = key or (lambda n: n % nclusters)
    ds.lon_off = {n: CLUSTER_STEP * key(n) for n in ds.nodes}
    return ds


WALK_SPEED = 5 / 3.6            # m/s: the speed the server multiplies a walking maximum with to get the radius of its straight-line pre-filter
M_PER_UDEG_LON = 0.0788469      # metres per micro-degree of longitude at latitude 45 (geofilter.cpp's series: 78 846.9 m / degree)
M_PER_UDEG_LAT = 0.1111319      # metres per micro-degree of latitude at latitude 45 (111 131.9 m / degree)


def bird_distance_m(ds, n, point_off=0, point_lat=ORIGIN_LAT):
    """straight-line distance (m) between stop n (latitude 45.0) and a request point, as the server's pre-filter measures it"""
    dx = (10 * n + lon_off(ds, n) - point_off) * M_PER_UDEG_LON
    dy = (point_lat - 45.0) * 1e6 * M_PER_UDEG_LAT
    return (dx * dx + dy * dy) ** 0.5


def radius_candidates(ds, max_time, point_off=0, point_lat=ORIGIN_LAT, margin=0.04):
    """(stops inside the pre-filter radius of a walking maximum, stops too close to the radius to call): the server asks the
    router about the first ones only.  Stops within `margin` of the radius are reported separately -- a layout that has
    any is not used (float rounding in the server decides those)."""
    if max_time >= 2000000:
        return sorted(ds.nodes), []
    r = max_time * WALK_SPEED
    inside, unclear = [], []
    for n in sorted(ds.nodes):
        d = bird_distance_m(ds, n, point_off, point_lat)
        if abs(d - r) <= margin * r:
            unclear.append(n)
        elif d < r:
            inside.append(n)
    return inside, unclear


def set_near_radius(ds, max_time=60, inner=0.84, outer=1.10):
    """Place the stops of ds just INSIDE (even ids: `inner` x radius east of the points) and just OUTSIDE (odd ids: `outer` x
    radius) the pre-filter radius of the walking maximum `max_time`: a radius computed from another speed, or with swapped or
    dropped factors, asks the router about other stops than the server should."""
    r = max_time * WALK_SPEED
    ds.lon_off = {}
    for n in ds.nodes:
        target = (inner if n % 2 == 0 else outer) * r
        ds.lon_off[n] = int(round(target / M_PER_UDEG_LON)) - 10 * n + n      # + n: one micro-degree (8 cm) apart, so that coordinates stay distinct
    return ds


def candidates(ds, point_off=0):
    """the stops the server's straight-line pre-filter lets through for a point with longitude offset `point_off`, in the
    order they are asked (uuid = id order): the stops of the point's cluster (all stops without clusters).  Holds for
    walking limits up to 20 000 s (27.8 km) and at most a few thousand stops per cluster."""
    return [n for n in sorted(ds.nodes) if lon_off(ds, n) == point_off]


def point_text(off, lat_text):
    """"lon,lat" of the origin / destination point moved east by `off` micro-degrees"""
    return "-73.0," + lat_text if not off else "%.6f,%s" % (POINT_LON + off / 1e6, lat_text)


def uuid_of(kind, n):
    return "%08d-0000-4000-8000-%012d" % (kind, n)


def id_of_uuid(u):
    """integer id = the last 12 (decimal) digits"""
    return int(u[24:])


def mode_name(m):
    """dataset mode id -> shortname of src/modes_initialization.cpp"""
    return {0: "transferable", 1: "bus", 2: "rail", 3: "tram", 4: "tramTrain"}.get(m, "metro")


# ---------------------------------------------------------------------------------------------------
# build
# ---------------------------------------------------------------------------------------------------
# connection_scan_algorithm/src/Makefile.am (libcsa_la_SOURCES) and src/Makefile.am (trRouting_SOURCES).
# households/places fetchers are not built by the autotools build either (TODO #167 there); the
# generated include/capnp/*.capnp.c++ files are not compiled (only the inline accessors of the headers are used).
SERVER_CSA_SRCS = ["alternatives_routing.cpp", "calculator.cpp", "forward_calculation.cpp", "forward_journey.cpp",
                   "initializations.cpp", "od_trips_routing.cpp", "optimize_journey.cpp",
                   "parameters/legacyV1_parameters.cpp", "parameters/common_parameters.cpp",
                   "parameters/route_parameters.cpp", "parameters/accessibility_parameters.cpp",
                   "program_options.cpp", "resets.cpp", "reverse_calculation.cpp", "reverse_journey.cpp",
                   "result_to_v2.cpp", "result_to_v2_summary.cpp", "result_to_v2_accessibility.cpp",
                   "transit_routing_http_server.cpp"]
SERVER_SRC_SRCS = ["agencies_cache_fetcher.cpp", "cache_fetcher.cpp", "calculation_time.cpp",
                   "data_sources_cache_fetcher.cpp", "lines_cache_fetcher.cpp", "modes_initialization.cpp",
                   "nodes_cache_fetcher.cpp", "od_trips_cache_fetcher.cpp", "geofilter.cpp", "euclideangeofilter.cpp",
                   "osrmgeofilter.cpp", "paths_cache_fetcher.cpp", "persons_cache_fetcher.cpp",
                   "scenarios_cache_fetcher.cpp", "services_cache_fetcher.cpp",
                   "trips_and_connections_cache_fetcher.cpp", "connection_set.cpp", "connection_cache.cpp",
                   "transit_data.cpp"]
SERVER_LIBS = ("-lspdlog", "-lfmt", "-lpthread", "-lboost_regex", "-lboost_system", "-lboost_program_options",
               "-lboost_date_time", "-lcapnp", "-lkj")


def build_server(san=False):
    """Real trRouting binary from TRV_REPO's current sources.  Returns (path, None) or (None, error).
    No -DNDEBUG (asserts and capnp bounds checks stay active, as in the repo's own build);
    -DTRROUTING_VERIF comes from build.BASE_FLAGS, harness/verif_point_noop.cpp supplies the hook."""
    extra = ["-O1"]
    if san:
        extra += ["-fsanitize=address,undefined", "-fno-sanitize-recover=undefined", "-fno-omit-frame-pointer"]
    srcs = ["connection_scan_algorithm/src/" + f for f in SERVER_CSA_SRCS] + ["src/" + f for f in SERVER_SRC_SRCS]
    try:
        return build.build_binary("trRouting", ["verif_point_noop.cpp"], repo_srcs=srcs, extra_flags=tuple(extra),
                                  libs=SERVER_LIBS, opt_tag="-san" if san else "")
    except Exception as e:   # missing source file, g++ not found, ...
        return None, "build_server: %s: %s" % (type(e).__name__, e)




# ---------------------------------------------------------------------------------------------------
# cache directory
# ---------------------------------------------------------------------------------------------------
# Layout read by the server (src/*_cache_fetcher.cpp), every file a single *packed* Cap'n Proto message:
#   agencies.capnpbin     agencyCollection.capnp:AgencyCollection    uuid, acronym, name (internalId, simulationUuid may be empty)
#   services.capnpbin     serviceCollection.capnp:ServiceCollection  uuid, name, week days; empty start/end dates are accepted
#   dataSources.capnpbin  dataSourceCollection.capnp:DataSourceCollection   empty list => persons / odTrips loaders do nothing
#   nodes.capnpbin        nodeCollection.capnp:NodeCollection        uuid, id, code, name, latitude/longitude (Int32, degrees * 1e6)
#   nodes/node_<uuid>.capnpbin   node.capnp:Node   transferableNodesUuids / ...TravelTimes / ...Distances (Int16!): the
#                         FORWARD footpath rows of the stop, taken verbatim and in file order (real files list the stop
#                         itself first with 0/0; the loader does not add it).  Reverse lists are derived by the loader:
#                         stops are visited in uuid order; visiting stop t pushes (t, time, dist) on the reverse list of
#                         every target of t's rows (t's own self row included) and then appends one more (t, 0, 0).
#                         The "sort by travel time" that follows is a no-op (it copies by index i, not sortedIdx[i]).
#   lines.capnpbin        lineCollection.capnp:LineCollection        uuid, mode (shortname string), agencyUuid, shortname, longname, allowSameLineTransfers
#   paths.capnpbin        pathCollection.capnp:PathCollection        uuid, lineUuid, direction, nodesUuids, data = JSON text whose
#                         segments[i].distanceMeters (i < number of stops of the path; absent/null entries are skipped) give the distances
#   scenarios.capnpbin    scenarioCollection.capnp:ScenarioCollection   uuid, name, servicesUuids, only*/except* lists (modes by shortname);
#                         unknown uuids / shortnames are silently dropped
#   lines/line_<uuid>.capnpbin   line.capnp:Line   schedules[].serviceUuid, schedules[].periods[].trips[]: uuid, pathUuid,
#                         nodeArrivalTimesSeconds, nodeDepartureTimesSeconds, nodesCanBoard, nodesCanUnboard (== 1 means allowed)
# All files are opened O_RDWR.  Missing collection files (ENOENT) are tolerated by TransitData::loadAllData for nodes,
# dataSources, agencies, services, lines, paths, scenarios (the data status then becomes NO_<collection>); an unreadable
# file gives DATA_READ_ERROR.
CAPNP_DIR = os.path.join(build.REPO, "include", "capnp")


def _q(s):
    """Cap'n Proto text-format string literal (C-like escapes; JSON's escaping of ASCII text is compatible)"""
    return json.dumps(s)


def _lst(items):
    return "[" + ", ".join(items) + "]"


def _ints(xs):
    # a negative literal needs a space before it ("= -1"); ", -1" inside a list is fine
    return "[" + ", ".join("%d" % x for x in xs) + "]"


def _capnp_encode(schema, typ, text, segment_words=None):
    # segment_words: write every message in SEVERAL segments of about that many words (real-size files are multi-segment; a
    # truncated multi-segment message is read lazily, so the decoder can throw long after the reader was constructed)
    cmd = ["capnp", "encode", "--packed"] + (["--segment-size=%d" % segment_words] if segment_words else []) + [os.path.join(CAPNP_DIR, schema), typ]
    r = subprocess.run(cmd, input=text.encode(), stdout=subprocess.PIPE, stderr=subprocess.PIPE, timeout=120)
    if r.returncode != 0:
        raise RuntimeError("capnp encode %s %s failed: %s" % (schema, typ, r.stderr.decode(errors="replace")[-2000:]))
    return r.stdout


def split_packed(buf, count):
    """`capnp encode` writes the messages of a multi-message input one after the other, each one packed on its own.
    Find the boundaries: walk the packed stream, unpack just enough of every message to read its segment table
    (word 0.. : uint32 segmentCount-1, uint32 size[segmentCount], padding) and count words until the message is complete."""
    out = []
    pos = 0
    n = len(buf)
    for _ in range(count):
        start = pos
        header = bytearray()
        need = None          # total number of words of this message, once known
        words = 0
        while need is None or words < need:
            if pos >= n:
                raise RuntimeError("split_packed: truncated stream")
            tag = buf[pos]
            pos += 1
            if tag == 0x00:                  # 1 + N zero words
                k = buf[pos] + 1
                pos += 1
                if need is None:
                    header += bytes(8 * k)
                words += k
            elif tag == 0xFF:                # one literal word, then N unpacked words
                w = buf[pos:pos + 8]
                pos += 8
                k = buf[pos]
                pos += 1
                if need is None:
                    header += w + buf[pos:pos + 8 * k]
                pos += 8 * k
                words += 1 + k
            else:
                if need is None:
                    w = bytearray(8)
                    for b in range(8):
                        if (tag >> b) & 1:
                            w[b] = buf[pos]
                            pos += 1
                    header += w
                else:
                    pos += bin(tag).count("1")
                words += 1
            if need is None and len(header) >= 8:
                segs = struct.unpack_from("<I", header, 0)[0] + 1
                hwords = (4 + 4 * segs + 7) // 8
                if len(header) >= 8 * hwords:
                    sizes = struct.unpack_from("<%dI" % segs, header, 4)
                    need = hwords + sum(sizes)
        if words != need:
            raise RuntimeError("split_packed: a packed run crosses a message boundary")
        out.append(bytes(buf[start:pos]))
    if pos != n:
        raise RuntimeError("split_packed: %d trailing bytes" % (n - pos))
    return out


def _check_range(what, v, bits):
    lim = 1 << (bits - 1)
    if not (-lim <= v < lim):
        raise ValueError("%s = %d does not fit the Int%d field of the cache schema" % (what, v, bits))


def cache_texts(ds):
    """The Cap'n Proto text of every file of the cache directory of `ds`:
    returns [(relative file name, schema file, type, text)] (collection files) and two batches
    (node files, line files) as [(relative file name, text)]."""
    U = uuid_of
    pmap = {p[0]: p for p in ds.paths}
    # agencies / services: every id used by a line / trip / scenario, plus 0 (same rule as harness/l2.cpp)
    agencies = sorted(set([l[1] for l in ds.lines] + [a for (_, ls) in ds.scens for k in (3, 7) for a in ls[k]] + [0]))
    services = sorted(set([t[2] for t in ds.trips] + [s for (_, ls) in ds.scens for s in ls[0]] + [0]))
    coll = []
    coll.append(("agencies.capnpbin", "agencyCollection.capnp", "AgencyCollection",
                 "(agencies = %s)" % _lst("(uuid = %s, acronym = %s, name = %s, isEnabled = 1)"
                                          % (_q(U(K_AGENCY, a)), _q("a%d" % a), _q("agency %d" % a)) for a in agencies)))
    coll.append(("services.capnpbin", "serviceCollection.capnp", "ServiceCollection",
                 "(services = %s)" % _lst("(uuid = %s, name = %s, monday = 1, tuesday = 1, wednesday = 1, thursday = 1, "
                                          "friday = 1, saturday = 1, sunday = 1, isEnabled = 1)"
                                          % (_q(U(K_SERVICE, s)), _q("s%d" % s)) for s in services)))
    coll.append(("dataSources.capnpbin", "dataSourceCollection.capnp", "DataSourceCollection", "(dataSources = [])"))

    def node_fields(n):
        return "uuid = %s, id = %d, code = %s, name = %s, latitude = 45000000, longitude = %d, isEnabled = 1" % (
            _q(U(K_NODE, n)), n, _q("%d" % n), _q("n%d" % n), node_lon_e6(ds, n))
    coll.append(("nodes.capnpbin", "nodeCollection.capnp", "NodeCollection",
                 "(nodes = %s)" % _lst("(%s)" % node_fields(n) for n in ds.nodes)))
    coll.append(("lines.capnpbin", "lineCollection.capnp", "LineCollection",
                 "(lines = %s)" % _lst("(uuid = %s, mode = %s, agencyUuid = %s, shortname = %s, longname = %s, "
                                       "isEnabled = 1, allowSameLineTransfers = 0)"
                                       % (_q(U(K_LINE, l)), _q(mode_name(m)), _q(U(K_AGENCY, a)), _q("L%d" % l), _q("line %d" % l))
                                       for (l, a, m) in ds.lines)))
    paths = []
    for (pid, line, nodes, dists) in ds.paths:
        if len(dists) > len(nodes):
            raise ValueError("path %d: the loader reads at most one distance per stop (%d > %d)" % (pid, len(dists), len(nodes)))
        data = json.dumps({"segments": [{"distanceMeters": d} for d in dists]}, separators=(",", ":"))
        paths.append("(uuid = %s, id = %d, direction = \"outbound\", lineUuid = %s, isEnabled = 1, data = %s, nodesUuids = %s)"
                     % (_q(U(K_PATH, pid)), pid, _q(U(K_LINE, line)), _q(data), _lst(_q(U(K_NODE, n)) for n in nodes)))
    coll.append(("paths.capnpbin", "pathCollection.capnp", "PathCollection", "(paths = %s)" % _lst(paths)))
    scens = []
    for (sid, ls) in ds.scens:
        ul = lambda kind, xs: _lst(_q(U(kind, x)) for x in xs)
        ml = lambda xs: _lst(_q(mode_name(x)) for x in xs)
        scens.append("(uuid = %s, name = %s, isEnabled = 1, servicesUuids = %s, onlyLinesUuids = %s, onlyModesShortnames = %s, "
                     "onlyAgenciesUuids = %s, onlyNodesUuids = %s, exceptLinesUuids = %s, exceptModesShortnames = %s, "
                     "exceptAgenciesUuids = %s, exceptNodesUuids = %s)"
                     % (_q(U(K_SCEN, sid)), _q("scen%d" % sid), ul(K_SERVICE, ls[0]), ul(K_LINE, ls[1]), ml(ls[2]),
                        ul(K_AGENCY, ls[3]), ul(K_NODE, ls[4]), ul(K_LINE, ls[5]), ml(ls[6]), ul(K_AGENCY, ls[7]), ul(K_NODE, ls[8])))
    coll.append(("scenarios.capnpbin", "scenarioCollection.capnp", "ScenarioCollection", "(scenarios = %s)" % _lst(scens)))

    # per-stop files: forward footpath rows verbatim (gen.Dataset.fp already lists the stop itself first)
    node_files = []
    for n in ds.nodes:
        rows = ds.fp.get(n, [])
        for (m, w, dist) in rows:
            _check_range("footpath time %d->%d" % (n, m), w, 16)
            _check_range("footpath distance %d->%d" % (n, m), dist, 16)
        node_files.append(("nodes/node_%s.capnpbin" % U(K_NODE, n),
                           "(%s, transferableNodesUuids = %s, transferableNodesTravelTimes = %s, transferableNodesDistances = %s)"
                           % (node_fields(n), _lst(_q(U(K_NODE, r[0])) for r in rows), _ints(r[1] for r in rows), _ints(r[2] for r in rows))))

    # per-line files: the trips of the line in dataset order; a schedule belongs to ONE service, so consecutive trips
    # of the same service share a schedule (several schedules may name the same service: the loader does not mind).
    # (Order is immaterial anyway: TransitData sorts connections by (time, trip uuid, sequence), a total order.)
    by_line = {l[0]: [] for l in ds.lines}
    for t in ds.trips:
        if t[1] not in pmap:
            raise ValueError("trip %d refers to the unknown path %d" % (t[0], t[1]))
        line = pmap[t[1]][1]
        if line not in by_line:
            raise ValueError("trip %d: path %d belongs to the unknown line %d" % (t[0], t[1], line))
        by_line[line].append(t)
    line_files = []
    for (l, a, m) in ds.lines:
        scheds = []
        run, run_service = [], None

        def flush():
            if run:
                scheds.append("(uuid = %s, serviceUuid = %s, periodsGroupShortname = \"default\", periods = [(periodShortname = \"all\", "
                              "startAtSeconds = 0, endAtSeconds = 115200, trips = %s)])"
                              % (_q(U(K_SERVICE, run_service)), _q(U(K_SERVICE, run_service)), _lst(run)))
        for (tid, path, service, times) in by_line[l]:
            if service != run_service:
                flush()
                run, run_service = [], service
            for (arr, dep, cb, cu) in times:
                _check_range("trip %d time" % tid, arr, 32)
                _check_range("trip %d time" % tid, dep, 32)
                _check_range("trip %d flag" % tid, cb, 8)
                _check_range("trip %d flag" % tid, cu, 8)
            run.append("(uuid = %s, pathUuid = %s, departureTimeSeconds = %d, arrivalTimeSeconds = %d, nodeArrivalTimesSeconds = %s, "
                       "nodeDepartureTimesSeconds = %s, nodesCanBoard = %s, nodesCanUnboard = %s, totalCapacity = 50, seatedCapacity = 20)"
                       % (_q(U(K_TRIP, tid)), _q(U(K_PATH, path)), times[0][1] if times else 0, times[-1][0] if times else 0,
                          _ints(x[0] for x in times), _ints(x[1] for x in times), _ints(x[2] for x in times), _ints(x[3] for x in times)))
        flush()
        line_files.append(("lines/line_%s.capnpbin" % U(K_LINE, l),
                           "(uuid = %s, mode = %s, agencyUuid = %s, shortname = %s, longname = %s, isEnabled = 1, allowSameLineTransfers = 0, schedules = %s)"
                           % (_q(U(K_LINE, l)), _q(mode_name(m)), _q(U(K_AGENCY, a)), _q("L%d" % l), _q("line %d" % l), _lst(scheds))))
    return coll, node_files, line_files


def write_cache(ds, dirpath, omit=(), segment_words=None):
    """Write the complete cache directory of the gen.Dataset `ds` (data status READY when ds has lines, paths,
    scenarios, trips...).  `omit`: relative file names to leave out (e.g. "scenarios.capnpbin", or a per-line file)
    for data-status experiments.  One `capnp encode` process per schema, run concurrently; the per-stop and
    per-line files go through one process each and the output stream is split at the message boundaries."""
    from concurrent.futures import ThreadPoolExecutor
    coll, node_files, line_files = cache_texts(ds)
    os.makedirs(os.path.join(dirpath, "nodes"), exist_ok=True)
    os.makedirs(os.path.join(dirpath, "lines"), exist_ok=True)
    # remove what an earlier dataset may have left behind
    for sub in ("", "nodes", "lines"):
        d = os.path.join(dirpath, sub)
        for f in os.listdir(d):
            if f.endswith(".capnpbin"):
                os.unlink(os.path.join(d, f))
    jobs = [(schema, typ, text, [name]) for (name, schema, typ, text) in coll]
    if node_files:
        jobs.append(("node.capnp", "Node", "\n".join(t for (_, t) in node_files), [n for (n, _) in node_files]))
    if line_files:
        jobs.append(("line.capnp", "Line", "\n".join(t for (_, t) in line_files), [n for (n, _) in line_files]))

    def run(job):
        schema, typ, text, names = job
        data = _capnp_encode(schema, typ, text, segment_words)
        return list(zip(names, [data] if len(names) == 1 else split_packed(data, len(names))))
    with ThreadPoolExecutor(max_workers=len(jobs)) as ex:
        results = list(ex.map(run, jobs))
    for files in results:
        for (name, data) in files:
            if name in omit:
                continue
            with open(os.path.join(dirpath, name), "wb") as f:
                f.write(data)


def expected_reverse_footpaths(ds):
    """The reverse footpath lists the real loader derives from the node files written by write_cache (see the layout
    comment): {node: [(from node, time, dist)]}."""
    rev = {n: [] for n in ds.nodes}
    for t in sorted(ds.nodes):                      # uuid order == id order
        for (m, w, dist) in ds.fp.get(t, []):
            if m in rev:
                rev[m].append((t, w, dist))
        rev[t].append((t, 0, 0))
    return rev


# ---------------------------------------------------------------------------------------------------
# live-object registry: nothing started here may outlive the interpreter
# ---------------------------------------------------------------------------------------------------
import atexit  # noqa: E402
_live = set()
_live_lock = threading.Lock()


def _register(o):
    with _live_lock:
        _live.add(o)


def _unregister(o):
    with _live_lock:
        _live.discard(o)


@atexit.register
def _cleanup_all():
    with _live_lock:
        objs = list(_live)
    for o in objs:
        try:
            o.stop() if isinstance(o, Server) else o.close()
        except Exception:
            pass


# ---------------------------------------------------------------------------------------------------
# OSRM stub
# ---------------------------------------------------------------------------------------------------
def _hard_close(sock, reset=False):
    """really drop a connection: without shutdown() the peer (trRouting's OSRM client has no timeout) waits forever"""
    try:
        if reset:
            sock.setsockopt(socket.SOL_SOCKET, socket.SO_LINGER, struct.pack("ii", 1, 0))   # close() sends RST
        else:
            sock.shutdown(socket.SHUT_RDWR)
    except OSError:
        pass
    try:
        sock.close()
    except OSError:
        pass


class OsrmStub:
    """Stand-in for OSRM's table service:  GET /table/v1/walking/<lon,lat;lon,lat;...>?annotations=duration,distance&sources=0
    -> {"code":"Ok","durations":[[0,d1,...]],"distances":[[0,m1,...]]} (one value per requested coordinate, the point first).
    The point's latitude selects the table (45.0001 origin, 45.0002 destination); the other coordinates are mapped back
    to stop ids through their longitude (-73.0 + n*1e-5).  (The calculator never asks with &destinations=0; the stub would
    answer such a request with the same single-row layout, which is what osrmgeofilter.cpp reads anyway.)

    Faults (set_faults): consumed one per incoming connection, then healthy.
      None         healthy answer
      "refuse"     accept, then reset the connection at once (nothing read)
      "drop"       read the request, shut the connection down without any reply
      "truncate"   headers (with the full Content-Length) + half of the body, then shutdown
      "status500"  HTTP 500
      "empty"      200 with an empty body
      "nonjson"    200 with a body that is not JSON
      "nodurations" 200 {"code":"Ok"}
      "nulls"      rows of nulls
      "nulldur_scalar_dist" 200 {"code":"Ok","durations":[null],"distances":5}
      "fewer"      answers only for the first half of the requested stops
      extras: "more" (one more column than asked, all small values), "hang" (read the request, reply nothing and keep the
      connection open until close() or `hang_seconds`), ("delay", seconds) healthy answer after a pause."""

    def __init__(self, hang_seconds=60.0):
        self._lock = threading.Lock()
        self._origin = {}
        self._dest = {}
        self._faults = []
        self._lonmap = None          # {longitude * 1e6: stop id} when the dataset has stop clusters (set_layout)
        self.requests_seen = []      # (kind of first coordinate: "origin"|"dest"|"other", [node ids asked])
        self.faults_applied = []     # fault used for each incoming connection, in order
        self.hang_seconds = hang_seconds
        self._closed = threading.Event()
        self._conns = set()
        self._threads = []
        self._lsock = socket.socket(socket.AF_INET, socket.SOCK_STREAM)
        self._lsock.setsockopt(socket.SOL_SOCKET, socket.SO_REUSEADDR, 1)
        self._lsock.bind(("127.0.0.1", 0))
        self._lsock.listen(128)
        self._lsock.settimeout(0.2)
        self.port = self._lsock.getsockname()[1]
        self._acceptor = threading.Thread(target=self._accept_loop, name="osrm-stub-accept", daemon=True)
        _register(self)
        self._acceptor.start()

    # -- configuration ------------------------------------------------------------------------------
    def set_tables(self, origin_rows, dest_rows):
        """rows: [(node id, seconds, metres)].  A stop listed twice keeps its LAST row."""
        with self._lock:
            self._origin = {r[0]: (r[1], r[2]) for r in origin_rows}
            self._dest = {r[0]: (r[1], r[2]) for r in dest_rows}

    def set_faults(self, faults):
        with self._lock:
            self._faults = list(faults)

    def set_layout(self, ds):
        """dataset with stop clusters (ds.lon_off): map the longitudes asked about back to stop ids through the dataset's
        own coordinates; set_layout(None) returns to the single-cluster formula."""
        with self._lock:
            self._lonmap = {node_lon_e6(ds, n): n for n in ds.nodes} if ds is not None and getattr(ds, "lon_off", None) else None

    def pending_faults(self):
        with self._lock:
            return list(self._faults)

    # -- context manager ----------------------------------------------------------------------------
    def __enter__(self):
        return self

    def __exit__(self, *a):
        self.close()

    def close(self):
        if self._closed.is_set():
            return
        self._closed.set()
        try:
            self._lsock.close()
        except OSError:
            pass
        with self._lock:
            conns = list(self._conns)
        for c in conns:
            _hard_close(c)
        self._acceptor.join(timeout=2)
        for t in list(self._threads):
            t.join(timeout=2)
        _unregister(self)

    # -- serving ------------------------------------------------------------------------------------
    def _accept_loop(self):
        while not self._closed.is_set():
            try:
                conn, _ = self._lsock.accept()
            except socket.timeout:
                continue
            except OSError:
                break
            with self._lock:
                fault = self._faults.pop(0) if self._faults else None
                self.faults_applied.append(fault)
                self._conns.add(conn)
            t = threading.Thread(target=self._serve, args=(conn, fault), name="osrm-stub-conn", daemon=True)
            self._threads = [x for x in self._threads if x.is_alive()] + [t]
            t.start()

    def _read_request(self, conn):
        conn.settimeout(10)
        data = b""
        while b"\r\n\r\n" not in data:
            chunk = conn.recv(65536)
            if not chunk:
                return None
            data += chunk
            if len(data) > (8 << 20):
                return None
        return data

    @staticmethod
    def parse_request(data, lonmap=None):
        """-> (kind, [node ids]) or None.  lonmap: {longitude * 1e6: stop id} of a clustered dataset (a longitude that is
        not in it gives the id -1, which no table knows: served as unreachable)"""
        line = data.split(b"\r\n", 1)[0].decode("latin-1")
        m = re.match(r"GET /table/v1/[a-z]+/([^? ]*)(\?\S*)? HTTP", line)
        if not m:
            return None
        coords = []
        for c in m.group(1).split(";"):
            try:
                lon, lat = c.split(",")
                coords.append((float(lon), float(lat)))
            except ValueError:
                return None
        if not coords:
            return None
        lat0 = coords[0][1]
        kind = "origin" if abs(lat0 - ORIGIN_LAT) < 5e-6 else ("dest" if abs(lat0 - DEST_LAT) < 5e-6 else "other")
        if lonmap is not None:
            return kind, [lonmap.get(int(round(lon * 1e6)), -1) for (lon, _) in coords[1:]]
        return kind, [int(round((lon - POINT_LON) * 1e5)) for (lon, _) in coords[1:]]

    def _serve(self, conn, fault):
        try:
            if fault == "refuse":
                _hard_close(conn, reset=True)
                return
            data = self._read_request(conn)
            if data is None:
                return
            with self._lock:
                lonmap = self._lonmap
            parsed = self.parse_request(data, lonmap)
            if parsed is None:
                self._send(conn, "400 Bad Request", b'{"code":"InvalidUrl"}')
                return
            kind, ids = parsed
            with self._lock:
                self.requests_seen.append((kind, ids))
                table = dict(self._dest if kind == "dest" else self._origin)
            if isinstance(fault, tuple) and fault[0] == "delay":
                if self._closed.wait(fault[1]):
                    return
                fault = None
            if fault == "drop":
                return
            if fault == "hang":
                self._closed.wait(self.hang_seconds)
                return
            durs = [0] + [table.get(n, (UNREACHABLE, UNREACHABLE))[0] for n in ids]
            dists = [0] + [table.get(n, (UNREACHABLE, UNREACHABLE))[1] for n in ids]
            if fault == "nulls":
                durs, dists = [None] * len(durs), [None] * len(dists)
            elif fault == "fewer":
                k = 1 + len(ids) // 2
                durs, dists = durs[:k], dists[:k]
            elif fault == "more":
                durs, dists = durs + [1], dists + [1]
            elif fault == "emptyrows":           # both rows present but EMPTY (not even the point itself)
                durs, dists = [], []
            elif fault == "emptydist":
                dists = []
            elif fault == "fewer_dist":          # the two rows of one reply have different lengths
                dists = dists[:1 + len(ids) // 2]
            elif fault == "fewer_dur":
                durs = durs[:1 + len(ids) // 2]
            # the layout a real OSRM table service gives: with sources=0 one ROW (point -> every stop); with destinations=0
            # (what the `reversed` branch of osrmgeofilter.cpp asks for, never taken by the server today) one COLUMN; with
            # neither the full square matrix (only its first row is meaningful here: the rest is served as unreachable).
            # A server that drops or swaps the query parameter therefore sees what it would see in production.
            first = data.split(b"\r\n", 1)[0]
            if b"destinations=0" in first and b"sources=0" not in first:
                body = json.dumps({"code": "Ok", "durations": [[x] for x in durs], "distances": [[x] for x in dists]}).encode()
            elif b"sources=0" not in first and fault is None:
                n1 = len(durs)
                sq = lambda row: [row] + [[UNREACHABLE] * n1 for _ in range(n1 - 1)]
                body = json.dumps({"code": "Ok", "durations": sq(durs), "distances": sq(dists)}).encode()
            else:
                body = json.dumps({"code": "Ok", "durations": [durs], "distances": [dists]}).encode()
            # fractional seconds / metres: the server rounds UP (ceil); an integer value t is served as t - 0.8 when asked to
            if getattr(self, "fraction", False) and fault is None and body.startswith(b'{"code": "Ok", "durations": [[0'):
                fr = lambda xs: [x if (not isinstance(x, int) or x < 1 or x >= UNREACHABLE) else round(x - 0.8, 1) for x in xs]
                body = json.dumps({"code": "Ok", "durations": [fr(durs)], "distances": [fr(dists)]}).encode()
            if fault == "status500":
                self._send(conn, "500 Internal Server Error", b'{"code":"InternalError"}')
            elif fault == "empty":
                self._send(conn, "200 OK", b"")
            elif fault == "nonjson":
                self._send(conn, "200 OK", b"<html>this is not json</html>")
            elif fault == "nodurations":
                self._send(conn, "200 OK", b'{"code":"Ok"}')
            elif fault == "nodistances":
                self._send(conn, "200 OK", json.dumps({"code": "Ok", "durations": [durs]}).encode())
            elif fault == "nulldur_scalar_dist":
                # entry 0 of durations is null and distances is not an array: the client's `&&` chain stops at
                # `["durations"][0] != nullptr` and must not evaluate `["distances"][0]` (which would throw): empty list
                self._send(conn, "200 OK", b'{"code":"Ok","durations":[null],"distances":5}')
            elif fault == "truncate":
                self._send(conn, "200 OK", body, cut=len(body) // 2)
            elif fault in ("streamcut_str", "streamcut_key"):
                # a reply STREAMED without Content-Length (Connection: close) whose stream ends inside a string literal / inside
                # an object key -- with the waypoint objects a real table service sends (hint strings, street names with quotes
                # and backslashes): the client sees a complete HTTP reply whose body is not JSON, and the text of the parser's
                # complaint quotes the router's bytes
                way = {"hint": "w4sKgP___38AAAAAbQAAAAAAAAAKAAAA\\\"q1\"", "distance": 4.2, "name": "rue \"de l'\u00c9glise\" \\ n\u00b0 5", "location": [-73.0, 45.0]}
                rich = json.dumps({"code": "Ok", "sources": [way], "destinations": [way] * 2, "durations": [durs], "distances": [dists]}).encode()
                at = rich.index(b"w4sK") + 20 if fault == "streamcut_str" else rich.index(b'"destinations"') + 5
                self._send(conn, "200 OK", rich, cut=at, no_length=True)
            else:
                self._send(conn, "200 OK", body)
        except OSError:
            pass
        finally:
            _hard_close(conn)
            with self._lock:
                self._conns.discard(conn)

    @staticmethod
    def _send(conn, status, body, cut=None, no_length=False):
        head = ("HTTP/1.1 %s\r\nContent-Type: application/json; charset=UTF-8\r\nContent-Length: %d\r\nConnection: close\r\n\r\n"
                % (status, len(body))).encode()
        if no_length:
            head = ("HTTP/1.1 %s\r\nContent-Type: application/json; charset=UTF-8\r\nConnection: close\r\n\r\n" % status).encode()
        conn.sendall(head + (body if cut is None else body[:cut]))


def effective_rows(rows, max_time, cand=None):
    """The footpath list the server's OsrmGeoFilter hands to the calculator when the stub serves `rows`:
    candidate stops are enumerated in uuid (= id) order, rows slower than the maximum walking time are dropped
    (a stop listed twice keeps its last row).  Use it to feed the same table to harness/l2.cpp or to the model.
    cand: the candidate stops of the point (candidates(ds, off)) for a dataset with stop clusters."""
    last = {r[0]: r for r in rows}
    return [last[n] for n in sorted(last) if last[n][1] <= max_time and (cand is None or n in cand)]


# ---------------------------------------------------------------------------------------------------
# server process
# ---------------------------------------------------------------------------------------------------
def free_port():
    s = socket.socket(socket.AF_INET, socket.SOCK_STREAM)
    s.bind(("127.0.0.1", 0))
    p = s.getsockname()[1]
    s.close()
    return p


_log_seq = [0]


class Server:
    """One trRouting process.  Raises RuntimeError (with the log tail) when the port does not open."""

    def __init__(self, binary, cache_dir, osrm_port, threads=1, cache_all=False, extra_env=None, start_timeout=30.0,
                 extra_args=()):
        os.makedirs(LOGS, exist_ok=True)
        self.proc = None
        self.port = None
        self.pid = None
        self._logfh = None
        last_err = None
        for attempt in range(3):           # the port picked by free_port() can be taken by someone else meanwhile
            self.port = free_port()
            _log_seq[0] += 1
            self.log_path = os.path.join(LOGS, "server-%d-%d-%d.log" % (os.getpid(), _log_seq[0], self.port))
            self._logfh = open(self.log_path, "wb")
            cmd = [binary, "--port=%d" % self.port, "--cachePath=%s" % cache_dir, "--osrmWalkingPort=%d" % osrm_port,
                   "--osrmWalkingHost=localhost", "--threads=%d" % threads]
            if cache_all:
                cmd.append("--cacheAllConnectionSets=true")
            cmd += list(extra_args)
            env = dict(os.environ)
            env.update(extra_env or {})
            self.cmd = cmd
            try:
                self.proc = subprocess.Popen(cmd, stdin=subprocess.DEVNULL, stdout=self._logfh, stderr=subprocess.STDOUT, env=env,
                                             cwd=LOGS)
            except OSError:
                self._logfh.close()
                raise
            self.pid = self.proc.pid
            _register(self)
            try:
                self._wait_port(max(start_timeout, 60))
                # the port may have been opened by SOMEONE ELSE's listener (another test server taking the port between
                # free_port() and our bind): our process then dies on `bind: Address already in use` a moment later.
                # That is a collision of the harness, not a behaviour of trRouting: take another port.
                time.sleep(0.2)
                if self.proc.poll() is not None and "Address already in use" in self.log_tail():
                    raise RuntimeError("port collision: Address already in use")
                return
            except RuntimeError as e:
                last_err = e
                self.stop()
                if "Address already in use" not in str(e):
                    break
        raise last_err

    def _wait_port(self, timeout):
        deadline = time.time() + timeout
        while time.time() < deadline:
            if self.proc.poll() is not None:
                raise RuntimeError("server exited with status %s during start-up; log %s:\n%s"
                                   % (self.proc.returncode, self.log_path, self.log_tail()))
            try:
                s = socket.create_connection(("127.0.0.1", self.port), timeout=0.5)
                _hard_close(s)
                return
            except OSError:
                time.sleep(0.02)
        raise RuntimeError("server port %d did not open within %.0f s; log %s:\n%s" % (self.port, timeout, self.log_path, self.log_tail()))

    def log_tail(self, n=3000):
        try:
            if self._logfh and not self._logfh.closed:
                self._logfh.flush()
            with open(self.log_path, "rb") as f:
                return f.read()[-n:].decode(errors="replace")
        except OSError:
            return ""

    def crash_report(self):
        """first line of the log that looks like a sanitizer / assertion / terminate message, else the last line"""
        lines = self.log_tail(200000).strip().split("\n")
        for l in lines:
            if re.search(r"runtime error|AddressSanitizer|Assertion|terminate called|what\(\)|Fatal|kj/", l):
                return l.strip()[:400]
        return (lines or [""])[-1].strip()[:400]

    def __enter__(self):
        return self

    def __exit__(self, *a):
        self.stop()

    def get(self, path_and_query, timeout=20):
        """Raw HTTP/1.1 GET with Connection: close.  -> (status code, headers, body); (None, {}, b"") when no (complete
        header of a) response arrives before the timeout or the connection is reset.  A body cut short is returned as is."""
        if timeout >= 15:
            timeout = max(timeout, 45)       # ordinary limits: a loaded machine must not turn a slow answer into "no reply"
        deadline = time.time() + timeout
        s = None
        try:
            s = socket.create_connection(("127.0.0.1", self.port), timeout=max(0.05, min(5, timeout)))
            s.sendall(("GET %s HTTP/1.1\r\nHost: localhost:%d\r\nConnection: close\r\n\r\n" % (path_and_query, self.port)).encode())
            data = b""
            head_end = -1
            need = None
            while True:
                left = deadline - time.time()
                if left <= 0:
                    break
                s.settimeout(left)
                try:
                    chunk = s.recv(1 << 16)
                except socket.timeout:
                    break
                if not chunk:
                    break
                data += chunk
                if head_end < 0:
                    head_end = data.find(b"\r\n\r\n")
                    if head_end >= 0:
                        m = re.search(rb"(?i)\r\ncontent-length:\s*(\d+)", data[:head_end + 2])
                        need = int(m.group(1)) if m else None
                if head_end >= 0 and need is not None and len(data) >= head_end + 4 + need:
                    break
            if head_end < 0:
                return None, {}, b""
            lines = data[:head_end].decode("latin-1").split("\r\n")
            m = re.match(r"HTTP/\d\.\d\s+(\d+)", lines[0])
            if not m:
                return None, {}, b""
            headers = {}
            for l in lines[1:]:
                if ":" in l:
                    k, v = l.split(":", 1)
                    headers[k.strip()] = v.strip()
            body = data[head_end + 4:]
            if need is not None:
                body = body[:need]
            return int(m.group(1)), headers, body
        except OSError:
            return None, {}, b""
        finally:
            if s is not None:
                _hard_close(s)

    def alive(self):
        return self.proc is not None and self.proc.poll() is None

    def exit_status(self):
        return None if self.proc is None else self.proc.poll()

    def stop(self):
        """terminate and reap; idempotent"""
        p = self.proc
        if p is not None and p.poll() is None:
            try:
                p.terminate()
                try:
                    p.wait(timeout=5)
                except subprocess.TimeoutExpired:
                    p.kill()
                    p.wait(timeout=10)
            except OSError:
                pass
        if self._logfh is not None and not self._logfh.closed:
            self._logfh.close()
        _unregister(self)


# ---------------------------------------------------------------------------------------------------
# query strings
# ---------------------------------------------------------------------------------------------------
def _no_limit(v):
    """2147483647 (= no limit) is sent as 0: the server maps every value <= 0 to MAX_INT"""
    return 0 if v == MAX_INT else v


def _common_qs(q):
    return ("scenario_id=%s&time_of_trip=%d&time_type=%d&min_waiting_time=%d&max_travel_time=%d&max_access_travel_time=%d"
            "&max_egress_travel_time=%d&max_transfer_travel_time=%d&max_first_waiting_time=%d"
            % (uuid_of(K_SCEN, q["scen"]), q["time"], 0 if q["fwd"] else 1, q["minw"], _no_limit(q["maxtt"]), _no_limit(q["maxacc"]),
               _no_limit(q["maxegr"]), _no_limit(q["maxtr"]), 0 if q["maxfw"] == -1 else _no_limit(q["maxfw"])))


def origin_of(q):
    return point_text(q.get("origin_off", 0), "45.0001")


def destination_of(q):
    return point_text(q.get("dest_off", 0), "45.0002")


def route_qs(q, alt=False):
    return "/v2/route?origin=%s&destination=%s&%s&alternatives=%s" % (origin_of(q), destination_of(q), _common_qs(q), "true" if alt else "false")


def summary_qs(q, alt=False):
    return "/v2/summary?origin=%s&destination=%s&%s&alternatives=%s" % (origin_of(q), destination_of(q), _common_qs(q), "true" if alt else "false")


def access_qs(q):
    return "/v2/accessibility?place=%s&%s" % (origin_of(q), _common_qs(q))


# ---------------------------------------------------------------------------------------------------
# canonical texts
# ---------------------------------------------------------------------------------------------------
ROUTE_REASONS = {"NO_ROUTING_FOUND": 0, "NO_ACCESS_AT_ORIGIN": 1, "NO_ACCESS_AT_DESTINATION": 2, "NO_SERVICE_FROM_ORIGIN": 3,
                 "NO_SERVICE_TO_DESTINATION": 4, "NO_ACCESS_AT_ORIGIN_AND_DESTINATION": 5}
ROUTE_TOTALS = ["departureTime", "arrivalTime", "totalTravelTime", "totalDistance", "totalInVehicleTime", "totalInVehicleDistance",
                "totalNonTransitTravelTime", "totalNonTransitDistance", "numberOfBoardings", "numberOfTransfers", "transferWalkingTime",
                "transferWalkingDistance", "accessTravelTime", "accessDistance", "egressTravelTime", "egressDistance",
                "transferWaitingTime", "firstWaitingTime", "totalWaitingTime"]


class _Bad(Exception):
    pass


def _num(v):
    if isinstance(v, bool) or not isinstance(v, (int, float)):
        raise _Bad()
    if isinstance(v, float):
        return "%d" % v if v == int(v) else repr(v)
    return "%d" % v


def _uid(v):
    if not isinstance(v, str) or not re.match(r"^[0-9a-f]{8}-[0-9a-f]{4}-[0-9a-f]{4}-[0-9a-f]{4}-\d{12}$", v):
        raise _Bad()
    return "%d" % id_of_uuid(v)


def _parse(body):
    try:
        j = json.loads(body.decode("utf-8") if isinstance(body, (bytes, bytearray)) else body)
    except (ValueError, UnicodeDecodeError):
        raise _Bad()
    if not isinstance(j, dict) or not isinstance(j.get("status"), str):
        raise _Bad()
    return j


def _errors(kind, j):
    """query_error / data_error answers (transit_routing_http_server.cpp), else None"""
    if j["status"] == "query_error":
        return "%s queryerror %s" % (kind, j.get("errorCode", "?"))
    if j["status"] == "data_error":
        return "%s dataerror %s" % (kind, j.get("errorCode", "?"))
    return None


def _canon_single(r):
    o = ["route ok " + " ".join(_num(r[k]) for k in ROUTE_TOTALS)]
    for s in r["steps"]:
        a = s["action"]
        if a == "walking":
            k = {"access": 0, "egress": 1, "transfer": 2}[s["type"]]
            o.append("W %d %s %s %s %s %s" % (k, _num(s["travelTime"]), _num(s["distance"]), _num(s["departureTime"]), _num(s["arrivalTime"]),
                                              _num(s["readyToBoardAt"]) if "readyToBoardAt" in s else "-1"))
        elif a == "boarding":
            o.append("B %s %s %s %s %s %s" % (_uid(s["tripUuid"]), _num(s["legSequenceInTrip"]), _num(s["stopSequenceInTrip"]),
                                              _uid(s["nodeUuid"]), _num(s["departureTime"]), _num(s["waitingTime"])))
        elif a == "unboarding":
            o.append("U %s %s %s %s %s %s %s" % (_uid(s["tripUuid"]), _num(s["legSequenceInTrip"]), _num(s["stopSequenceInTrip"]),
                                                 _uid(s["nodeUuid"]), _num(s["arrivalTime"]), _num(s["inVehicleTime"]), _num(s["inVehicleDistance"])))
        else:
            raise _Bad()
    return " | ".join(o)


def canon_route(body, alt=False):
    """canonical line of a /v2/route answer (same text as harness/l2.cpp prints, without its trailing " | opt ...")"""
    try:
        j = _parse(body)
        e = _errors("route", j)
        if e:
            return e
        kind = "alt" if alt else "route"
        if j["status"] == "no_routing_found":
            return "%s noroute %d" % (kind, ROUTE_REASONS[j["reason"]])
        if j["status"] != "success":
            raise _Bad()
        routes = j["result"]["routes"]
        if alt:
            return " || ".join(["alt ok %s %d" % (_num(j["result"]["totalRoutesCalculated"]), len(routes))] + [_canon_single(r) for r in routes])
        if len(routes) != 1:
            raise _Bad()
        return _canon_single(routes[0])
    except (_Bad, KeyError, TypeError, IndexError, AttributeError):
        return "route unparsable"


def canon_access(body):
    try:
        j = _parse(body)
        e = _errors("access", j)
        if e:
            return e
        if j["status"] == "no_routing_found":
            if j["reason"] not in ("NO_ACCESS_AT_PLACE", "NO_SERVICE_AT_PLACE", "NO_ROUTING_FOUND"):
                raise _Bad()
            return "access noroute %s" % j["reason"]
        if j["status"] != "success":
            raise _Bad()
        nodes = j["result"]["nodes"]
        return " | ".join(["access ok %d %s" % (len(nodes), _num(j["result"]["totalNodeCount"]))] +
                          ["%s %s %s %s" % (_uid(n["nodeUuid"]), _num(n["nodeTime"]), _num(n["totalTravelTime"]), _num(n["numberOfTransfers"]))
                           for n in nodes])
    except (_Bad, KeyError, TypeError, IndexError, AttributeError):
        return "access unparsable"


def canon_summary(body):
    try:
        j = _parse(body)
        e = _errors("summary", j)
        if e:
            return e
        lines = j["result"]["lines"]
        return " | ".join(["summary %s %s" % (j["status"], _num(j["result"]["nbRoutes"]))] +
                          ["%s %s" % (_uid(l["lineUuid"]), _num(l["alternativeCount"])) for l in lines])
    except (_Bad, KeyError, TypeError, IndexError, AttributeError):
        return "summary unparsable"


# ---------------------------------------------------------------------------------------------------
# self-test
# ---------------------------------------------------------------------------------------------------
def _stray_processes(marker):
    """pids of processes (other than this one) whose command line mentions `marker`"""
    out = []
    for d in os.listdir("/proc"):
        if not d.isdigit() or int(d) == os.getpid():
            continue
        try:
            with open("/proc/%s/cmdline" % d, "rb") as f:
                cmd = f.read()
        except OSError:
            continue
        if marker.encode() in cmd:
            out.append(int(d))
    return out


def _gen_queries(gen, rng, ds, prof, n):
    """n (q, access rows, egress rows) triples, steered towards feasible journeys the way gen.gen_case does"""
    out = []
    for _ in range(n):
        acc, egr = gen.gen_tables(rng, ds, prof)
        fwd = rng.chance(0.5)
        q = gen.gen_params(rng, ds, prof, fwd)
        if rng.chance(0.7):
            pl = gen.plan_journey(rng, ds, q["minw"])
            if pl:
                start, t0, dest, t1 = pl
                aw, ew = rng.choice([0, 0, 60, 120]), rng.choice([0, 0, 60, 120])
                acc = [(start, aw, rng.randint(0, 800))] + [r for r in acc if r[0] != start][:rng.randint(0, 2)]
                egr = [(dest, ew, rng.randint(0, 800))] + [r for r in egr if r[0] != dest][:rng.randint(0, 2)]
                q["time"] = max(0, t0 - aw - rng.choice([0, 0, 60, 300])) if fwd else min(115199, t1 + ew + rng.choice([0, 0, 60, 300]))
                q["maxtt"] = MAX_INT
                q["scen"] = 1
        out.append((q, acc, egr))
    return out


def _l2_lines(gen, ds, ops, workdir):
    """Run harness/l2.cpp (the same Calculator fed through an in-memory fetcher) on the same dataset and operations.
    ops: [("route", q, alt, acc, egr) | ("access", q, rows)].  Returns the canonical lines or None when l2 is unavailable."""
    import copy
    l2, err = build.build_l2()
    if not l2:
        print("  (l2 harness unavailable: %s)" % (err or "")[:200])
        return None
    d2 = copy.copy(ds)
    d2.rfp = expected_reverse_footpaths(ds)        # what the real loader derives from the node files
    text = [d2.text()]
    for op in ops:
        if op[0] == "route":
            _, q, alt, acc, egr = op
            text.append("route %s %d %s %s" % (gen.q_text(q), 1 if alt else 0, gen.rows_text(effective_rows(acc, q["maxacc"])),
                                               gen.rows_text(effective_rows(egr, q["maxegr"]))))
        else:
            _, q, rows = op
            text.append("access %s %s" % (gen.q_text(q), gen.rows_text(effective_rows(rows, q["maxacc"] if q["fwd"] else q["maxegr"]))))
    path = os.path.join(workdir, "l2.case")
    with open(path, "w") as f:
        f.write("\n".join(text) + "\n")
    try:
        r = subprocess.run([l2, path], stdout=subprocess.PIPE, stderr=subprocess.PIPE, timeout=120, text=True)
    except subprocess.TimeoutExpired:
        print("  (l2 harness timed out)")
        return None
    lines = r.stdout.strip("\n").split("\n")
    if len(lines) != len(ops):
        print("  (l2 harness printed %d lines for %d operations; stderr: %s)" % (len(lines), len(ops), r.stderr[-300:]))
        return None
    out = []
    for op, l in zip(ops, lines):
        l = re.sub(r" \| opt( \d+)*$", "", l)
        m = re.match(r"access noroute (\d+)$", l)
        if m:   # result_to_v2_accessibility.cpp: 1,2 -> NO_ACCESS_AT_PLACE; 3,4 -> NO_SERVICE_AT_PLACE; others -> NO_ROUTING_FOUND
            l = "access noroute " + {1: "NO_ACCESS_AT_PLACE", 2: "NO_ACCESS_AT_PLACE", 3: "NO_SERVICE_AT_PLACE",
                                     4: "NO_SERVICE_AT_PLACE"}.get(int(m.group(1)), "NO_ROUTING_FOUND")
        if op[0] == "access" and not op[1]["fwd"] and l.startswith("access ok"):
            # l2 prints arrivalTime, the JSON renders arrivalTime - totalTravelTime for arrival-time queries
            parts = l.split(" | ")
            for i in range(1, len(parts)):
                f = parts[i].split()
                f[1] = str(int(f[1]) - int(f[2]))
                parts[i] = " ".join(f)
            l = " | ".join(parts)
        out.append(l)
    return out


FAULTS = ["refuse", "drop", "truncate", "status500", "empty", "nonjson", "nodurations", "nodistances", "nulls", "fewer", "fewer_dist", "fewer_dur", "emptyrows", "emptydist"]


def selftest(san=False, seeds=(1, 2, 3), keep=False):
    """Exercise everything against the real binary; prints what it observes; returns 0 when the last line is SELFTEST OK."""
    try:
        return _selftest(san, seeds, keep)
    except Exception:
        import traceback
        traceback.print_exc()
        _cleanup_all()
        print("SELFTEST FAILED")
        return 1


def _selftest(san, seeds, keep):
    import shutil, tempfile
    import gen
    ok = True
    t0 = time.time()
    binary, err = build_server(san=san)
    print("build_server(san=%s): %s  (%.1f s)" % (san, binary or "FAILED", time.time() - t0))
    if not binary:
        print(err)
        print("SELFTEST FAILED")
        return 1
    extra_env = {"ASAN_OPTIONS": "detect_leaks=0:abort_on_error=1", "UBSAN_OPTIONS": "print_stacktrace=1"} if san else None
    work = tempfile.mkdtemp(prefix="trv-l3-selftest-", dir="/var/tmp")
    pids = []
    prof = gen.PROFILES["opt"]
    fault_case = None          # (cache dir, q, acc, egr, expected line) of a query known to succeed
    try:
        for seed in seeds:
            print("=" * 100)
            ds = gen.gen_dataset(gen.Rng(seed), prof)
            cache = os.path.join(work, "cache%d" % seed)
            t = time.time()
            write_cache(ds, cache)
            nfiles = sum(len(fs) for _, _, fs in os.walk(cache))
            print("dataset seed %d: %d stops, %d lines, %d paths, %d trips, %d scenarios; cache %s written in %.3f s (%d files)"
                  % (seed, len(ds.nodes), len(ds.lines), len(ds.paths), len(ds.trips), len(ds.scens), cache, time.time() - t, nfiles))
            rng = gen.Rng(1000 + seed)
            queries = _gen_queries(gen, rng, ds, prof, 10)
            with OsrmStub() as stub:
                t = time.time()
                with Server(binary, cache, stub.port, threads=2, extra_env=extra_env) as srv:
                    pids.append(srv.pid)
                    print("server pid %d port %d up in %.2f s, log %s; stub port %d" % (srv.pid, srv.port, time.time() - t, srv.log_path, stub.port))
                    ops, got = [], []
                    successes = 0

                    def ask(label, path, canon):
                        t = time.time()
                        st, hd, body = srv.get(path)
                        line = canon(body) if st is not None else "(no response)"
                        print("  [%s] %s %.1f ms  %s" % (label, st, (time.time() - t) * 1000, line))
                        return st, body, line
                    # ~10 route queries
                    for i, (q, acc, egr) in enumerate(queries):
                        stub.set_tables(acc, egr)
                        st, body, line = ask("route %d" % i, route_qs(q), canon_route)
                        ops.append(("route", q, False, acc, egr))
                        got.append(line)
                        if st == 200 and line.startswith("route ok"):
                            successes += 1
                            if fault_case is None:
                                fault_case = (cache, q, acc, egr, line)
                    # 3 with alternatives (prefer queries that had a route)
                    good = [i for i, l in enumerate(got) if l.startswith("route ok")]
                    pick = (good + [i for i in range(len(queries)) if i not in good])[:3]
                    for i in pick:
                        q, acc, egr = queries[i]
                        stub.set_tables(acc, egr)
                        st, body, line = ask("alt %d" % i, route_qs(q, alt=True), lambda b: canon_route(b, alt=True))
                        ops.append(("route", q, True, acc, egr))
                        got.append(line)
                    # 4 accessibility maps, both time types (place is the origin-like point: the stub serves its origin table)
                    for k, i in enumerate((pick + pick)[:4]):
                        q, acc, egr = queries[i]
                        q = dict(q, fwd=1 if k % 2 == 0 else 0)
                        rows = acc if q["fwd"] else egr
                        stub.set_tables(rows, rows)
                        st, body, line = ask("access %d fwd=%d" % (i, q["fwd"]), access_qs(q), canon_access)
                        ops.append(("access", q, rows))
                        got.append(line)
                    # 3 summaries (the last one with alternatives)
                    for k, i in enumerate(pick):
                        q, acc, egr = queries[i]
                        stub.set_tables(acc, egr)
                        ask("summary %d alt=%s" % (i, k == 2), summary_qs(q, alt=(k == 2)), canon_summary)
                    # cross-check with the L2 harness (same Calculator, in-memory data)
                    l2 = _l2_lines(gen, ds, ops, work)
                    if l2 is not None:
                        bad = [(i, a, b) for i, (a, b) in enumerate(zip(got, l2)) if a != b]
                        print("  L2 agreement: %d/%d operations identical" % (len(ops) - len(bad), len(ops)))
                        for (i, a, b) in bad:
                            ok = False
                            print("  L2 MISMATCH op %d %s\n     l3: %s\n     l2: %s" % (i, ops[i][0], a, b))
                    # cache refresh, then the first successful query again
                    t = time.time()
                    st, hd, body = srv.get("/updateCache?names=all", timeout=60)
                    print("  [updateCache] %s %.1f ms  %s" % (st, (time.time() - t) * 1000, body.decode(errors="replace")))
                    if good:
                        q, acc, egr = queries[good[0]]
                        stub.set_tables(acc, egr)
                        st, body, line = ask("route %d after updateCache" % good[0], route_qs(q), canon_route)
                        if line != got[good[0]]:
                            print("  NOTE: the answer differs from the one before /updateCache (was: %s)" % got[good[0]][:80])
                            print("        server log tail: %s" % srv.log_tail(300).strip().split("\n")[-1])
                    print("  server alive: %s; OSRM requests seen by the stub: %d" % (srv.alive(), len(stub.requests_seen)))
                    if not srv.alive():
                        ok = False
                print("  server exit status after stop(): %s" % srv.exit_status())
            if successes == 0:
                print("  NO successful route query for this dataset")
                ok = False

        # ---- stub faults -------------------------------------------------------------------------
        print("=" * 100)
        if fault_case is None:
            print("no successful query available for the fault demonstration")
            ok = False
        else:
            cache, q, acc, egr, expected = fault_case
            cache2 = os.path.join(work, "cache-faults")
            shutil.copytree(cache, cache2)
            with OsrmStub(hang_seconds=5) as stub:
                with Server(binary, cache2, stub.port, threads=2, extra_env=extra_env) as srv:
                    pids.append(srv.pid)
                    stub.set_tables(acc, egr)
                    print("fault demonstration: server pid %d; healthy answer: %s" % (srv.pid, expected[:60] + "..."))
                    # The OSRM client of the server (SimpleWeb) silently retries ONCE when sending the request or reading the
                    # response header fails: a single "refuse"/"drop" is invisible to the calculation, two in a row are not.
                    demos = [("origin request", [f]) for f in FAULTS] + [("origin request", ["refuse", "refuse"]), ("origin request", ["drop", "drop"])] + \
                            [("destination request", [None, f]) for f in FAULTS] + \
                            [("destination request", [None, "refuse", "refuse"]), ("destination request", [None, "drop", "drop"])]
                    for where, faults in demos:
                        stub.set_faults(faults)
                        n0 = len(stub.faults_applied)
                        t = time.time()
                        st, hd, body = srv.get(route_qs(q), timeout=20)
                        line = canon_route(body) if st is not None else "(no response)"
                        print("  fault %-13s on the %-19s -> %s %5.1f ms  %-60s stub connections=%d alive=%s"
                              % ("+".join(x for x in faults if x), where, st, (time.time() - t) * 1000, line[:60],
                                 len(stub.faults_applied) - n0, srv.alive()))
                        if stub.pending_faults():
                            print("     (faults not consumed: %s)" % stub.pending_faults())
                        if not srv.alive():
                            ok = False
                            print("     SERVER DIED, exit status %s; log tail:\n%s" % (srv.exit_status(), srv.log_tail(1500)))
                            break
                    if srv.alive():
                        stub.set_faults([])
                        st, hd, body = srv.get(route_qs(q))
                        line = canon_route(body) if st is not None else "(no response)"
                        print("  healthy again -> %s %s" % (st, "same answer as before" if line == expected else line))
                        if line != expected:
                            ok = False
                        # extra: a hanging router.  The OSRM client of the server has no timeout: the request stays unanswered
                        # until the stub gives up (hang_seconds = 5 here); the other worker thread keeps serving.
                        stub.set_faults(["hang"])
                        t = time.time()
                        st, hd, body = srv.get(route_qs(q), timeout=2)
                        t1 = time.time()
                        st2, _, body2 = srv.get(route_qs(q), timeout=15)
                        print("  extra fault hang: first request within 2 s -> %s; a second request (other worker thread) -> %s %s in %.1f ms"
                              % (st, st2, canon_route(body2)[:30] if st2 else "", (time.time() - t1) * 1000))
                print("  server exit status after stop(): %s" % srv.exit_status())
            # extra (own server, not part of the verdict): the router answers with one column more than asked.
            # osrmgeofilter.cpp indexes its vector of candidate stops with the column number without a bound check.
            with OsrmStub() as stub:
                with Server(binary, cache2, stub.port, threads=1, extra_env=extra_env) as srv:
                    pids.append(srv.pid)
                    stub.set_tables(acc, egr)
                    stub.set_faults(["more"])
                    st, hd, body = srv.get(route_qs(q), timeout=10)
                    try:
                        srv.proc.wait(timeout=3)
                    except subprocess.TimeoutExpired:
                        pass
                    print("  extra fault more (one surplus column) -> %s %s   alive=%s exit status=%s"
                          % (st, canon_route(body)[:60] if st else "(no response)", srv.alive(), srv.exit_status()))
                    if not srv.alive():
                        print("     log: %s" % srv.crash_report())
    finally:
        _cleanup_all()
        if not keep:
            shutil.rmtree(work, ignore_errors=True)
    # ---- nothing left behind ---------------------------------------------------------------------
    time.sleep(0.1)
    left = [p for p in pids if os.path.exists("/proc/%d" % p)] + _stray_processes(work)
    print("stray processes: %s" % (left or "none"))
    if left:
        ok = False
    print("total time %.1f s" % (time.time() - t0))
    print("SELFTEST OK" if ok else "SELFTEST FAILED")
    return 0 if ok else 1


if __name__ == "__main__":
    args = sys.argv[1:]
    if args and args[0] == "selftest":
        seeds = (1, 2, 3)
        for a in args[1:]:
            if a.startswith("--seeds="):
                seeds = tuple(int(x) for x in a.split("=", 1)[1].split(","))
        sys.exit(selftest(san="--san" in args, seeds=seeds, keep="--keep" in args))
    elif args and args[0] == "build":
        t = time.time()
        print(build_server(san="--san" in args or "san" in args), "%.1f s" % (time.time() - t))
    else:
        print("usage: l3.py selftest [--san] [--seeds=1,2,3] [--keep] | build [--san]")
        sys.exit(2)
