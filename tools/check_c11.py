#!/usr/bin/env python3
"""C11: restricting a scenario is equivalent to deleting the excluded trips.
Proof: conn-set equality theorem.  Tie: metamorphic pairs on the implementation alone: (d, s) vs
(delete_excluded d s, all_inclusive s) produced by the extracted Coq transformation."""
import os, sys, time, json, shutil, subprocess
import build, checklib as cl, run, gen
from check_c12 import parse_case, cl_open


def objective(line):
    """status, reason, arrival/departure times, accessibility map"""
    t = line.split()
    if line.startswith("route ok"):
        return ("ok", t[2], t[3])
    if line.startswith("alt ok"):
        return ("ok",) + tuple((r.split()[2], r.split()[3]) for r in line.split("||")[1:2])
    if line.startswith("access ok"):
        return ("ok",) + tuple(tuple(x.split()[:3]) for x in line.split("|")[1:])
    return tuple(t[1:3])


def main(pid, tier, seed, replay_path=None):
    t0 = time.time()
    po = cl.proof_obligations(pid)
    l2, e1 = build.build_l2()
    dr, e2 = build.build_driver()
    if e1 or e2:
        path = cl.write_nofail_replay(pid, "harness/model build", e1 or e2)
        print("VIOLATION property=%s replay=%s no-failing-input-found" % (pid, path))
        return 1
    d = os.path.join(build.WORK, "scratch", "c11-%d-%s" % (seed, tier))
    shutil.rmtree(d, ignore_errors=True)
    shutil.rmtree(d + ".out", ignore_errors=True)
    n = 120 if tier == "quick" else 2000
    base = [replay_path] if replay_path else gen.gen_batch(d, seed + 900, n, 14, profiles=("opt", "wide", "grid", "loops"))
    os.makedirs(d, exist_ok=True)
    pairs = []
    emptied = 0
    for ci, c in enumerate(base):
        ds, ops = parse_case(c)
        for sc in (2, 3):
            sops = [o for o in ops if o.split()[0] in ("route", "access") and o.split()[1] == str(sc) and not (o.split()[0] == "route" and o.split()[10] == "1")]
            if not sops:
                continue
            out = subprocess.run([dr, "delete", c, str(sc)], stdout=subprocess.PIPE, text=True).stdout
            if "remaining 0 " in out:
                emptied += 1    # a scenario that excludes EVERY trip is a scenario definition too: the copy has no trip left
            p1 = os.path.join(d, "q%04d_%d_a.case" % (ci, sc))
            p2 = os.path.join(d, "q%04d_%d_b.case" % (ci, sc))
            with open(p1, "w") as f:
                f.write("\n".join(ds + sops) + "\n")
            with open(p2, "w") as f:
                f.write(out + "\n".join(sops) + "\n")
            removed = out.split("\n")[0]
            pairs.append((p1, p2, removed))
    recs = run.run_batch([p for pr in pairs for p in pr[:2]], l2, dr, d + ".out")
    by = {}
    for r in recs:
        by.setdefault(r["case"], []).append(r)
    evals, fails, diffs, nontriv = 0, [], [], set()
    for (p1, p2, removed) in pairs:
        some_removed = not removed.startswith("# remaining %s of %s " % (removed.split()[2], removed.split()[2])) if len(removed.split()) > 4 else True
        rm = removed.split()
        some_removed = rm[2] != rm[4]
        for a, b in zip(by.get(p1, []), by.get(p2, [])):
            evals += 1
            for r in (a, b):
                if r["impl"].strip() != r["model"].strip():
                    diffs.append(r)
            if objective(a["impl"]) != objective(b["impl"]):
                fails.append((a, b))
            if some_removed and a["impl"].split()[1] == "ok":
                nontriv.add(a["op"] + os.path.basename(p1))
    rc, viol = 0, []
    if fails:
        a, b = fails[0]
        path = cl.write_replay(pid, a, "answer under the restricting scenario differs from the answer on the dataset with the excluded trips deleted",
                               extra="deleted copy: %s ; its answer: %s" % (b["case"], b["impl"][:400]))
        print("VIOLATION property=%s replay=%s" % (pid, path))
        print("  op: %s\n  restricted: %s\n  deleted   : %s" % (a["op"], a["impl"][:300], b["impl"][:300]))
        viol.append(path); rc = 1
    elif not po["ok"]:
        path = cl.write_nofail_replay(pid, "proof obligations of Properties_%s.v (%d of %d)" % (pid, po["discharged"], po["obligations"]), po["log"])
        print("VIOLATION property=%s replay=%s no-failing-input-found" % (pid, path))
        viol.append(path); rc = 1
    elif diffs:
        r = diffs[0]
        path = cl.write_replay(pid, r, "correspondence broken; no restricted/deleted pair disagreed in %d evaluations" % evals)
        print("VIOLATION property=%s replay=%s no-failing-input-found" % (pid, path))
        viol.append(path); rc = 1
    samples = [dict(restricted=os.path.basename(p1), deleted=os.path.basename(p2), note=rm) for (p1, p2, rm) in pairs[:3]]
    cov = dict(obligations=max(1, po["obligations"]), discharged=po["discharged"], checker_cmd=po["checker_cmd"], trusted_base=cl.TRUSTED_BASE,
               theorems=po["theorems"], print_assumptions=po["assumptions"], open_statements=cl_open(pid),
               evaluations=evals, distinct_nontrivial=len(nontriv),
               rule="every route/accessibility operation under scenarios 2 (service subset) and 3 (random only/except lists) is run on the implementation on the original dataset and on the copy produced by the extracted Coq functions delete_excluded/all_inclusive; objective fields compared; non-trivial = at least one trip removed and a successful answer",
               samples=samples or [dict(note="none")], pairs=len(pairs), pairs_where_nothing_remains=emptied,
               pair_disagreements=len(fails), correspondence_disagreements=len(diffs), exhaustive=False)
    cl.write_evidence(pid, tier, seed, "proof", cov, ["structural half (connection-set equality) proved; equality of whole answers is exercised on the implementation, see open_statements"],
                      time.time() - t0, len(viol))
    print("%s %s: obligations %d/%d, %d pair evaluations (%d non-trivial), %d violations, %.1fs" % (pid, tier, po["discharged"], po["obligations"], evals, len(nontriv), len(fails), time.time() - t0))
    return rc
