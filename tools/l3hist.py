#!/usr/bin/env python3
"""C13 at L3: request histories on the REAL trRouting binary over HTTP, in BOTH walking modes.

The in-process part of C13 (check_hist.py) runs histories on one TransitData with table geofilters; what exists only in the
real process is not reached by it: the HTTP handlers (request counters, parameter objects), the walking filters (the straight
line pre-filter in front of the router, the whole Euclidean filter of --useEuclideanDistance=true, the router client) and the
per-thread Calculator kept between requests.  This phase decides C13 on them by a metamorphic rule that needs no model:

    one cache directory, one request set R (route, alternatives, summary, accessibility; scenarios 1-4; both time types;
    invalid and failing requests in between; for the Euclidean mode the SAME point with a sweep of walking limits around the
    distances at which stops enter the walking radius),
    server A answers R in the order given, server B in the reverse order, server C in a shuffled order with every third
    request repeated; a few requests are also sent to a server started for that request alone.
    Every request must get the same answer ("<status> <canonical text>") from A, B, C and the fresh servers.

A difference is an answer that depends on what was served before: the replay file holds the dataset, the mode, the three
orders and the differing answers; the fresh server's answer (started for the replay) tells which history is the wrong one.

run(binary, seed, tier) -> dict(evaluations, histories, fails=[(why, replay_dict)], ...)"""
import hashlib, json, os, shutil, sys, time
from concurrent.futures import ThreadPoolExecutor

sys.path.insert(0, os.path.dirname(os.path.abspath(__file__)))
import build, gen, l3, l3refresh  # noqa: E402


def euclid_requests(rng, ds, prof):
    """Requests for the Euclidean mode: the stub is not asked, walking times come from coordinates.  history_spec() spreads
    the stops about 2 m apart east of the point (stop n at longitude -73 + n*25e-6), the origin lies 11.1 m and the
    destination 22.2 m north of stop 0: at the server's 5 km/h the stops are 8-15 s from the origin and 16-20 s from the
    destination, so EVERY integer limit in 6..22 s cuts the stop set at a different stop and has stops just outside its radius."""
    qs = l3._gen_queries(gen, rng, ds, prof, 3)
    out = []
    limits = list(range(6, 23))
    for i, (q, acc, egr) in enumerate(qs):
        q = dict(q)
        q["scen"] = (1, 4, 2)[i]
        for lim in (limits if i == 0 else rng.sample(limits, 8)):
            q2 = dict(q)
            q2["maxacc"], q2["maxegr"] = rng.choice([(lim, lim), (lim, 1200), (1200, lim), (lim, 22)])
            kind = rng.choice(["route", "route", "access", "summary", "alt"])
            out.append(mk(kind, q2, [], []))
    return out


def mk(kind, q, acc, egr):
    q = dict(q)
    if kind == "access":
        rows = acc if q["fwd"] else egr
        return dict(kind="access", path=l3.access_qs(q), acc=rows, egr=rows, q=q)
    if kind == "summary":
        return dict(kind="summary", path=l3.summary_qs(q, False), acc=acc, egr=egr, q=q)
    return dict(kind=kind, path=l3.route_qs(q, kind == "alt"), acc=acc, egr=egr, q=q)


def osrm_requests(rng, ds, prof):
    qs = l3._gen_queries(gen, rng, ds, prof, 6)
    out = []
    for i, (q, acc, egr) in enumerate(qs):
        q = dict(q)
        q["scen"] = (1, 2, 3, 4, 1, 3)[i]
        for kind in rng.sample(["route", "alt", "summary", "access"], 3):
            out.append(mk(kind, q, acc, egr))
    return out


INVALID = [dict(kind="route", path="/v2/route?origin=abc&destination=-73.0,45.0002&scenario_id=%s&time_of_trip=30000" % l3.uuid_of(l3.K_SCEN, 1), acc=[], egr=[]),
           dict(kind="route", path="/v2/route?origin=-73.0,45.0001&destination=-73.0,45.0002&scenario_id=%s&time_of_trip=30000" % l3.uuid_of(l3.K_SCEN, 99), acc=[], egr=[]),
           dict(kind="access", path="/v2/accessibility?place=-73.0&scenario_id=%s&time_of_trip=30000" % l3.uuid_of(l3.K_SCEN, 1), acc=[], egr=[]),
           dict(kind="summary", path="/v2/summary?origin=-73.0,45.0001&destination=-73.0,45.0002&scenario_id=%s&time_of_trip=-5" % l3.uuid_of(l3.K_SCEN, 1), acc=[], egr=[])]


def history_spec(seed, tier, index):
    rng = gen.Rng((seed * 6151 + 13) * 1000 + index)
    euclid = index % 2 == 0
    prof_name = ("opt", "wide", "mixedwait", "grid")[(index // 2) % 4]
    prof = dict(gen.PROFILES[prof_name], pempty=0.0)
    ds = gen.gen_dataset(rng.fork(), prof)
    if euclid:
        ds.lon_off = {n: 15 * n for n in ds.nodes}        # stops about 2 m apart (see euclid_requests)
    clustered = (not euclid) and (index // 2) % 2 == 0 and len(ds.nodes) >= 4
    if clustered:
        # two stop clusters 39 km apart: the stops the server asks the router about DIFFER from one request to the next
        # (whatever a lookup leaves behind in the filter -- candidates, rows -- belongs to other stops than the next one's)
        l3.set_clusters(ds, 2)
    reqs = (euclid_requests if euclid else osrm_requests)(rng.fork(), ds, prof)
    if clustered:
        for r in reqs:
            q = r.get("q")
            if q is None:
                continue
            acc, egr = r["acc"], r["egr"]
            q["origin_off"] = l3.lon_off(ds, acc[0][0]) if acc else 0
            q["dest_off"] = l3.lon_off(ds, egr[0][0]) if egr else l3.CLUSTER_STEP
            if r["kind"] == "access":
                r["path"] = l3.access_qs(q)
            elif r["kind"] == "summary":
                r["path"] = l3.summary_qs(q, False)
            else:
                r["path"] = l3.route_qs(q, r["kind"] == "alt")
    cache_all = (index // 2) % 2 == 1
    if cache_all and not euclid:
        # a server that keeps ALL connection sets: a dozen scenarios, each asked, then the first ones asked again (a bounded or
        # otherwise lossy cache shows when a scenario comes back after many others)
        lines = [l[0] for l in ds.lines] or [1]
        for k, sid in enumerate(range(5, 13)):
            lists = [[1, 2], [], [], [], [], [], [], [], []]
            lists[1 if (k // max(1, len(lines))) % 2 == 0 else 5] = [lines[k % len(lines)]]
            ds.scens.append((sid, lists))
        routes = [r for r in reqs if r.get("q") and r["kind"] in ("route", "access")]
        if routes:
            base = routes[0]
            extras = [mk(base["kind"], dict(base["q"], scen=sid), base["acc"], base["egr"]) for sid in range(5, 13)]
            again = [dict(r) for r in routes[:6]]
            reqs = reqs + extras + again
    # invalid / failing requests in between
    for k, bad in enumerate(INVALID):
        reqs.insert((k * 5 + 2) % (len(reqs) + 1), dict(bad))
    if not euclid:
        # requests whose exchange with the walking router FAILS (deterministic faults: a 500, a body that is not JSON, an empty
        # body, null entries; at the only / the first / the second lookup): "failed requests" of the property's statement.
        # Whatever the filter keeps from such an exchange must not reach the next request.
        r3 = rng.fork()
        healthy = [r for r in reqs if r.get("acc") or r.get("egr")]
        for k in range(4 if healthy else 0):
            src = dict(r3.choice(healthy))
            f = r3.choice(["status500", "nonjson", "empty", "nulls"])
            src["faults"] = [f] if (src["kind"] == "access" or r3.chance(0.5)) else [None, f]
            reqs.insert(r3.randint(0, len(reqs)), src)
    r2 = rng.fork()
    order_a = list(range(len(reqs)))
    order_b = order_a[::-1]
    order_c = r2.sample(order_a, len(order_a))
    order_c = [x for i, j in enumerate(order_c) for x in ((j, j) if i % 3 == 0 else (j,))]
    fresh = r2.sample(order_a, 2 if tier == "quick" else 4)
    return dict(index=index, euclid=euclid, clustered=clustered, cache_all=(index // 2) % 2 == 1, profile=prof_name, ds=ds, requests=reqs,
                orders=dict(A=order_a, B=order_b, C=order_c), fresh=fresh)


def run_history(binary, spec, workdir):
    t0 = time.time()
    ds, reqs = spec["ds"], spec["requests"]
    cache = os.path.join(workdir, "cache")
    shutil.rmtree(workdir, ignore_errors=True)
    os.makedirs(cache)
    base = dict(level="L3 request histories on the real binary (C13)", seed=spec.get("seed"), tier=spec.get("tier"), history=spec["index"],
                mode="euclidean" if spec["euclid"] else "router stub", cache_all=spec["cache_all"], dataset=ds.text(),
                requests=[r["path"] + ("   [router exchanges of this request: %s]" % r["faults"] if r.get("faults") else "") for r in reqs],
                orders=spec["orders"], binary=binary)
    fails, evals, answers = [], 0, {}
    stub = l3.OsrmStub()
    if spec.get("clustered"):
        stub.set_layout(ds)
    extra = ("--useEuclideanDistance=true",) if spec["euclid"] else ()

    def fail(why, **kw):
        fails.append((why, dict(base, why=why, **kw)))

    # a Euclidean-mode server is given a port on which NOTHING listens: if the mode switch were ignored, every lookup would
    # fail (and the requirement below that some Euclidean request succeeds would not be met)
    router_port = l3.free_port() if spec["euclid"] else stub.port

    def serve(order, name):
        srv = l3.Server(binary, cache, router_port, threads=1, cache_all=spec["cache_all"], extra_args=extra)
        try:
            out = []
            for i in order:
                out.append((i, l3refresh.ask(srv, stub, reqs[i])))
                if not srv.alive():
                    fail("server died in history %s at request %s" % (name, reqs[i]["path"]), exit_status=srv.exit_status(), log=srv.crash_report())
                    break
            return out
        finally:
            srv.stop()
    try:
        l3.write_cache(ds, cache)
        for name in ("A", "B", "C"):
            for pos, (i, a) in enumerate(serve(spec["orders"][name], name)):
                evals += 1
                answers.setdefault(i, []).append((name, pos, a))
        for i in spec["fresh"]:
            for (_, a) in serve([i], "fresh"):
                evals += 1
                answers.setdefault(i, []).append(("fresh", 0, a))
        for i, lst in sorted(answers.items()):
            distinct = sorted(set(a for (_, _, a) in lst))
            if len(distinct) > 1:
                fail("the answer to a request depends on the requests served before it",
                     request_number=i, request=reqs[i]["path"], answers=[dict(history=n, position=p, answer=a[:600]) for (n, p, a) in lst])
    except Exception as e:
        import traceback
        fail("history could not be run: %s: %s" % (type(e).__name__, str(e)[:600]), traceback=traceback.format_exc()[-1500:])
    finally:
        stub.close()
        if not fails:
            shutil.rmtree(workdir, ignore_errors=True)
    ok = sum(1 for lst in answers.values() if " ok " in lst[0][2] or "summary success" in lst[0][2])
    return dict(fails=fails, evaluations=evals, requests=len(reqs), successful=ok, wall=time.time() - t0,
                distinct_answers=len(set(lst[0][2] for lst in answers.values())))


def run(binary, seed, tier, only=None, workers=None):
    t0 = time.time()
    n = 16 if tier == "quick" else 96
    root = os.path.join(build.WORK, "scratch", "c13-l3-%d-%s" % (seed, tier))
    if only is None:
        shutil.rmtree(root, ignore_errors=True)
    os.makedirs(root, exist_ok=True)
    specs = []
    for i in (range(n) if only is None else [only]):
        s = history_spec(seed, tier, i)
        s["seed"], s["tier"] = seed, tier
        specs.append(s)
    with ThreadPoolExecutor(max_workers=workers or (4 if tier == "quick" else 8)) as ex:
        results = list(ex.map(lambda s: run_history(binary, s, os.path.join(root, "h%03d" % s["index"])), specs))
    fails = [f for r in results for f in r["fails"]]
    eu_ok = sum(r["successful"] for s, r in zip(specs, results) if s["euclid"])
    if only is None and specs and not fails and any(s["euclid"] for s in specs) and eu_ok == 0:
        # every history agreeing on "no stop in reach" would agree for the wrong reason: the Euclidean filter must find stops
        fails.append(("in the Euclidean walking mode no request of any history was answered with a route or a map: the filter offers no stop "
                      "although stops lie 8-20 s from the points", dict(level="L3 request histories on the real binary (C13)", seed=seed, tier=tier,
                                                                          history=specs[0]["index"], why="no successful Euclidean answer", mode="euclidean")))
    if only is None and not fails:
        shutil.rmtree(root, ignore_errors=True)
    return dict(evaluations=sum(r["evaluations"] for r in results), histories=len(specs), fails=fails, euclidean_successful_requests=eu_ok,
                euclidean_histories=sum(1 for s in specs if s["euclid"]), router_histories=sum(1 for s in specs if not s["euclid"]),
                requests=sum(r["requests"] for r in results), successful_requests=sum(r["successful"] for r in results),
                distinct_answers=sum(r["distinct_answers"] for r in results), wall_s=round(time.time() - t0, 1))


# ---------------------------------------------------------------------------------------------------
# C14 at L3: the multi-threaded REAL server under concurrent HTTP clients
# ---------------------------------------------------------------------------------------------------
def run_concurrent(binary, seed, tier, only=None):
    """--threads=4 --useEuclideanDistance=true (no router stub: every answer is a function of the request alone), both cache
    modes: the baseline answers come from a one-thread server asked sequentially; then 8 client threads send the same request
    set, each in its own shuffled order, several rounds, to a 4-thread server; every response must equal the baseline.  The
    handlers, the parameter factories, the geo filter and the worker threads' calculators exist only in the real process."""
    import threading
    t0 = time.time()
    n = 4 if tier == "quick" else 24
    root = os.path.join(build.WORK, "scratch", "c14-l3-%d-%s" % (seed, tier))
    shutil.rmtree(root, ignore_errors=True)
    os.makedirs(root, exist_ok=True)
    fails, evals, rounds_total = [], 0, 0
    for index in (range(n) if only is None else [only]):
        spec = history_spec(seed + 77, tier, index * 2)          # even index: Euclidean layout and requests
        ds, reqs = spec["ds"], spec["requests"]
        cache = os.path.join(root, "h%03d" % index, "cache")
        os.makedirs(cache)
        l3.write_cache(ds, cache)
        cache_all = index % 2 == 1
        stub = l3.OsrmStub()
        extra = ("--useEuclideanDistance=true",)
        base = dict(level="L3 concurrent clients on the real multi-threaded binary (C14)", seed=seed, tier=tier, history=index, cache_all=cache_all,
                    dataset=ds.text(), requests=[r["path"] for r in reqs], binary=binary)
        one = multi = None
        try:
            one = l3.Server(binary, cache, stub.port, threads=1, cache_all=cache_all, extra_args=extra)
            want = [l3refresh.ask(one, stub, r) for r in reqs]
            one.stop(); one = None
            multi = l3.Server(binary, cache, stub.port, threads=4, cache_all=cache_all, extra_args=extra)
            lock = threading.Lock()
            bad = []

            def client(k):
                rng = gen.Rng(seed * 1000003 + index * 131 + k)
                for _ in range(2 if tier == "quick" else 4):
                    for i in rng.sample(list(range(len(reqs))), len(reqs)):
                        a = l3refresh.ask(multi, stub, reqs[i])
                        if a != want[i]:
                            with lock:
                                bad.append((i, a))
            ths = [threading.Thread(target=client, args=(k,)) for k in range(8)]
            for t in ths:
                t.start()
            for t in ths:
                t.join()
            rounds_total += 1
            evals += 8 * (2 if tier == "quick" else 4) * len(reqs)
            if not multi.alive():
                fails.append(("the multi-threaded server died under concurrent requests", dict(base, why="server died", exit_status=multi.exit_status(), log=multi.crash_report())))
            for (i, a) in bad[:20]:
                fails.append(("a request answered concurrently gets another response than on an idle server",
                              dict(base, why="concurrent response differs", request_number=i, request=reqs[i]["path"],
                                   answers=[dict(history="idle", position=0, answer=want[i][:600]), dict(history="concurrent", position=0, answer=a[:600])])))
        except Exception as e:
            import traceback
            fails.append(("concurrent history could not be run: %s" % str(e)[:300], dict(base, why="harness", traceback=traceback.format_exc()[-1500:])))
        finally:
            for sv in (one, multi):
                if sv is not None:
                    sv.stop()
            stub.close()
    if not fails:
        shutil.rmtree(root, ignore_errors=True)
    return dict(evaluations=evals, histories=rounds_total, fails=fails, wall_s=round(time.time() - t0, 1))


def write_replay(pid, why, rd):
    import checklib as cl
    os.makedirs(os.path.join(cl.REPLAYS, pid), exist_ok=True)
    body = json.dumps(rd, indent=1, sort_keys=True, default=str)
    path = os.path.join(cl.REPLAYS, pid, "%s-l3hist-%s.json" % (pid, hashlib.sha256(body.encode()).hexdigest()[:12]))
    with open(path, "w") as f:
        f.write(body + "\n")
    return path


def replay(binary, path):
    with open(path) as f:
        rd = json.load(f)
    if "concurrent" in rd.get("level", ""):
        return run_concurrent(binary, int(rd["seed"]), rd["tier"], only=int(rd["history"]))
    return run(binary, int(rd["seed"]), rd["tier"], only=int(rd["history"]))


def describe(why, rd):
    o = ["  %s" % why, "  history %s, walking mode: %s, cache mode %s" % (rd.get("history"), rd.get("mode"), "all" if rd.get("cache_all") else "one")]
    if "request" in rd:
        o.append("  request: %s" % rd["request"])
        for a in rd["answers"]:
            o.append("    history %-5s position %3d: %s" % (a["history"], a["position"], a["answer"][:220]))
    for k in ("log", "traceback"):
        if k in rd:
            o.append("  %s: %s" % (k, str(rd[k])[:600]))
    return "\n".join(o)


if __name__ == "__main__":
    tier = sys.argv[1] if len(sys.argv) > 1 else "quick"
    seed = int(sys.argv[2]) if len(sys.argv) > 2 else 1
    binary, err = l3.build_server()
    if not binary:
        print(err)
        sys.exit(2)
    res = run(binary, seed, tier, only=int(sys.argv[3]) if len(sys.argv) > 3 else None)
    for (why, rd) in res["fails"][:6]:
        print(describe(why, rd))
    print({k: v for k, v in res.items() if k != "fails"}, "fails:", len(res["fails"]))
    sys.exit(1 if res["fails"] else 0)
