#!/usr/bin/env python3
"""Checks for C01-C10: proof obligations + L2 correspondence + oracle search (see checklib.py)."""
import os, sys, time, json
import build, checklib as cl, run, props_l2

OPEN_STATEMENTS = {}   # filled from coq/Properties/open_statements.json when present


def load_open():
    p = os.path.join(build.COQ, "Properties", "open_statements.json")
    if os.path.exists(p):
        with open(p) as f:
            return json.load(f)
    return {}


def replay(pid, path):
    l2, e1 = build.build_l2()
    dr, e2 = build.build_driver()
    if e1 or e2:
        print(e1 or e2)
        return 2
    if "REAL server over HTTP" in open(path).read(4000):
        # the record came from the real-server phase: replay it there (the in-process harness has no geofilter)
        import l3, l3batch
        binary, e3 = l3.build_server()
        if e3:
            print(e3)
            return 2
        recs = l3batch.replay_case(path, dr, binary, os.path.join(build.WORK, "scratch", "replay-l3-%s" % pid))
    else:
        recs = run.run_batch([path], l2, dr, os.path.join(build.WORK, "scratch", "replay.out"))
    known = cl.load_known()
    res = props_l2.evaluate(pid, recs, known)
    for r in recs:
        print("op    :", r["op"])
        print("impl  :", r["impl"])
        print("model :", r["model"])
        print("oracle:", r["verdict"])
    for why, r in res["fails"]:
        print("VIOLATION property=%s replay=%s" % (pid, path))
        print("  ", why)
        return 1
    if res["diffs"]:
        print("model and implementation disagree on this case (projection of %s)" % pid)
        return 1
    print("no violation on this case")
    return 0


def main(pid, tier, seed, replay_path=None):
    t0 = time.time()
    if replay_path:
        return replay(pid, replay_path)
    known = cl.load_known()
    out_lines = []
    violations = []

    # 1. proof obligations
    po = cl.proof_obligations(pid)
    # 2. build both sides from /repo's working tree
    l2, e1 = build.build_l2()
    dr, e2 = build.build_driver()
    if e1:
        # the implementation no longer builds with the harness: nothing can be shown
        path = cl.write_nofail_replay(pid, "L2 harness build against /repo", e1)
        print("VIOLATION property=%s replay=%s no-failing-input-found" % (pid, path))
        cl.write_evidence(pid, tier, seed, "proof", dict(obligations=max(1, po["obligations"]), discharged=po["discharged"],
                          checker_cmd=po["checker_cmd"], trusted_base=cl.TRUSTED_BASE, evaluations=0,
                          explanation="harness build failed"), [], time.time() - t0, 1)
        return 1
    if e2:
        path = cl.write_nofail_replay(pid, "Coq model build / extraction", e2)
        print("VIOLATION property=%s replay=%s no-failing-input-found" % (pid, path))
        return 1

    recs = cl.routes_batch(seed, tier, l2, dr)
    # every property of C01-C10 is also judged on answers of the REAL server over HTTP (generated cache directories read by the
    # real loaders, requests through the parameter factory, the geofilter in front of a router stub, the JSON renderer): a
    # change in that glue breaks these properties as surely as one in the scans, and the in-process harness does not see it
    more, e3 = cl.l3_routes_batch(seed, tier, dr)
    if e3:
        path = cl.write_nofail_replay(pid, "server build against /repo", e3)
        print("VIOLATION property=%s replay=%s no-failing-input-found" % (pid, path))
        return 1
    l3_ops = len(more)
    recs = recs + more
    res = props_l2.evaluate(pid, recs, known)
    widened = 0
    # a broken obligation or correspondence: widen the search for a failing input before giving up
    if (res["diffs"] or not po["ok"]) and not res["fails"]:
        for extra in range(1, 4 if tier == "quick" else 9):
            more = cl.routes_batch(seed + 1000 * extra, tier, l2, dr)
            if any(r.get("l3") for r in res["diffs"]):
                # the disagreement is on answers of the real server: widen the search there too
                m3, _e = cl.l3_routes_batch(seed + 1000 * extra, tier, dr)
                more = more + (m3 or [])
            r2 = props_l2.evaluate(pid, more, known)
            widened += len(r2["applicable"])
            if r2["fails"]:
                res["fails"] = r2["fails"]
                break

    # report
    reported_known = set()
    for k, r in res["known_hits"]:
        if k["id"] not in reported_known:
            reported_known.add(k["id"])
            print("KNOWN-FINDING: property=%s %s" % (pid, k["what"]))
    rc = 0
    if res["fails"]:
        why, r = res["fails"][0]
        path = cl.write_replay(pid, r, why, extra="answer of the REAL server over HTTP on the cache directory written from this dataset (tools/l3batch.py)" if r.get("l3") else None)
        print("VIOLATION property=%s replay=%s" % (pid, path))
        print("  %s\n  op   : %s\n  impl : %s\n  oracle: %s" % (why, r["op"], r["impl"], r["verdict"]))
        violations.append(path)
        rc = 1
    elif not po["ok"]:
        detail = "theorems: %s\nforbidden tokens: %s\ngenerated fragments: %s\n\n%s" % (po["theorems"], po.get("forbidden"), po.get("gen"), po["log"])
        path = cl.write_nofail_replay(pid, "proof obligations of coq/Properties/Properties_%s.v (%d of %d discharged)" % (pid, po["discharged"], po["obligations"]), detail)
        print("VIOLATION property=%s replay=%s no-failing-input-found" % (pid, path))
        violations.append(path)
        rc = 1
    elif res["diffs"]:
        r = res["diffs"][0]
        path = cl.write_replay(pid, r, "correspondence broken: model and implementation disagree on the observables of %s; no input violating the property was found in %d + %d cases" % (pid, len(res["applicable"]), widened))
        print("VIOLATION property=%s replay=%s no-failing-input-found" % (pid, path))
        print("  correspondence model/implementation no longer checks (%d of %d operations differ)\n  op   : %s\n  impl : %s\n  model: %s" %
              (len(res["diffs"]), len(res["applicable"]), r["op"], r["impl"], r["model"]))
        violations.append(path)
        rc = 1

    samples = []
    for r in res["applicable"]:
        if props_l2.PROPS[pid].nontrivial(r):
            samples.append(dict(case=os.path.basename(r["case"]), op=r["op"], implementation=r["impl"][:600], oracle=r["verdict"][:300]))
        if len(samples) >= 3:
            break
    if not samples and res["applicable"]:
        r = res["applicable"][0]
        samples.append(dict(case=os.path.basename(r["case"]), op=r["op"], implementation=r["impl"][:600], oracle=r["verdict"][:300]))
    opens = load_open().get(pid, [])
    cov = dict(obligations=max(1, po["obligations"]), discharged=po["discharged"], checker_cmd=po["checker_cmd"],
               trusted_base=cl.TRUSTED_BASE, theorems=po["theorems"], print_assumptions=po["assumptions"],
               open_statements=opens, generated_fragments=po.get("gen"),
               evaluations=len(res["applicable"]), in_domain=res["indom"], distinct_nontrivial=len(res["nontrivial"]),
               rule="structured random networks (profiles opt/loops/wide/tiny/grid/grid300/rewrites, seed-derived) + corpus; every operation runs through the real Calculator (L2 harness), the extracted model and the extracted oracle; non-trivial = " + res["rule"],
               samples=samples, status_distribution=res["dist"], rewrites_fired=res["rewrites"],
               correspondence_disagreements=len(res["diffs"]), oracle_violations=len(res["fails"]),
               known_findings_reobserved=sorted(reported_known), widened_search_cases=widened, exhaustive=False)
    if l3_ops:
        cov["real_server_operations"] = l3_ops
        cov["rule"] += "; plus %d operations answered by the real server over HTTP on generated cache directories (real loaders incl. asymmetric footpath tables, parameter factory, geofilter with walking maxima incl. no limit, 50000/60000 s and values equal to a row, JSON renderer)" % l3_ops
    cl.write_evidence(pid, tier, seed, "proof", cov,
                      ["the walking router is a table (TableGeoFilter); datasets enter through an in-memory DataFetcher that builds connections like the cache loader (tied separately by C16)",
                       "the tie is differential: its strength is bounded by the generators whose measured distribution is listed"],
                      time.time() - t0, len(violations))
    print("%s %s: obligations %d/%d, %d operations (%d non-trivial), %d disagreements, %d violations, %.1fs" %
          (pid, tier, po["discharged"], po["obligations"], len(res["applicable"]), len(res["nontrivial"]), len(res["diffs"]), len(res["fails"]), time.time() - t0))
    return rc
