#!/usr/bin/env python3
"""C12: shifting timetable and request by one offset shifts the answer by that offset.
Proof part: index theorems (coq/Properties/Properties_C12.v).  Tie: L1 correspondence of the hour index
(tables and both lookups for hours -2..40) + metamorphic pairs run on the implementation alone."""
import os, sys, time, json, hashlib, shutil
import build, checklib as cl, run, gen


def parse_case(path):
    ds, ops = [], []
    seen = False
    with open(path) as f:
        for line in f:
            s = line.split("#")[0].strip()
            if not s:
                continue
            if not seen:
                ds.append(s)
                if s == "end":
                    seen = True
            else:
                ops.append(s)
    return ds, ops


def shift_dataset(ds, delta):
    out = []
    for l in ds:
        t = l.split()
        if t[0] == "trip":
            n = int(t[4])
            vals = t[5:]
            for i in range(n):
                vals[4 * i] = str(int(vals[4 * i]) + delta)
                vals[4 * i + 1] = str(int(vals[4 * i + 1]) + delta)
            out.append(" ".join(t[:5] + vals))
        else:
            out.append(l)
    return out


def trip_times(ds):
    ts = []
    for l in ds:
        t = l.split()
        if t[0] == "trip":
            n = int(t[4])
            for i in range(n):
                ts.append(int(t[5 + 4 * i]))
                ts.append(int(t[6 + 4 * i]))
    return ts


def shift_op(op, delta):
    t = op.split()
    if t[0] in ("route", "access"):
        t[2] = str(int(t[2]) + delta)
    return " ".join(t)


def unshift_line(line, delta):
    """subtract delta from every clock value of a canonical answer line"""
    if line.startswith("route ok") or line.startswith("alt ok"):
        parts = line.split("||") if line.startswith("alt ok") else [line]
        outp = []
        for pi, part in enumerate(parts):
            if line.startswith("alt ok") and pi == 0:
                outp.append(part.strip())
                continue
            segs = [x.strip() for x in part.split("|")]
            res = []
            for si, sg in enumerate(segs):
                w = sg.split()
                if not w:
                    continue
                if si == 0 and w[0] == "route":
                    w[2] = str(int(w[2]) - delta)
                    w[3] = str(int(w[3]) - delta)
                elif w[0] == "W":
                    w[4] = str(int(w[4]) - delta)
                    w[5] = str(int(w[5]) - delta)
                    if w[6] != "-1":
                        w[6] = str(int(w[6]) - delta)
                elif w[0] == "B":
                    w[5] = str(int(w[5]) - delta)
                elif w[0] == "U":
                    w[5] = str(int(w[5]) - delta)
                res.append(" ".join(w))
            outp.append(" | ".join(res))
        return " || ".join(outp)
    if line.startswith("access ok"):
        segs = [x.strip() for x in line.split("|")]
        res = [segs[0]]
        for sg in segs[1:]:
            w = sg.split()
            w[1] = str(int(w[1]) - delta)
            res.append(" ".join(w))
        return " | ".join(res)
    return line.strip()


def main(pid, tier, seed, replay_path=None):
    t0 = time.time()
    po = cl.proof_obligations(pid)
    l2, e1 = build.build_l2()
    dr, e2 = build.build_driver()
    if e1 or e2:
        path = cl.write_nofail_replay(pid, "harness/model build", e1 or e2)
        print("VIOLATION property=%s replay=%s no-failing-input-found" % (pid, path))
        return 1
    rng = gen.Rng(seed * 7919 + 12)
    d = os.path.join(build.WORK, "scratch", "c12-%d-%s" % (seed, tier))
    shutil.rmtree(d, ignore_errors=True)
    shutil.rmtree(d + ".out", ignore_errors=True)
    if replay_path:
        base_cases = [replay_path]
    else:
        n = 90 if tier == "quick" else 1500
        base_cases = gen.gen_batch(d, seed + 500, n, 10, profiles=("opt", "grid", "tiny", "loops", "wide", "grid300", "fwlim"))
    pairs = []
    os.makedirs(d, exist_ok=True)
    skipped = 0
    plan_state = dict(skipped=0)

    def plan(base_cases, tag, choices=None):
      out = []
      for ci, c in enumerate(base_cases):
          ds, ops = parse_case(c)
          ops = [o for o in ops if o.split()[0] in ("route", "access")]
          tt = trip_times(ds)
          if not tt or not ops:
              continue
          lo, hi = min(tt), max(tt)
          # margins: minimum waiting (<= 900) + access/egress rows (<= 600) + transfer walks do not matter for range
          margin = 2000
          for k in range(3):
              choice = rng.choice(choices) if choices else rng.randint(0, 9)
              t_req = int(ops[0].split()[2])
              fwd_times = sorted(set(int(o.split()[2]) for o in ops if o.split()[9] == "1" and int(o.split()[2]) <= lo))
              if choice >= 8 and fwd_times:
                  # a departure request at EXACTLY 0:00:00 (0 is a clock value like any other, not "no time given"); every
                  # vehicle leaves at or after the request, so all clock values stay in [0, 32 h) without the lower margin
                  delta = -rng.choice(fwd_times)
              elif choice >= 8:
                  delta = -(lo - margin)
              elif choice == 0:
                  delta = 3600 * rng.randint(-30, 30)
              elif choice == 1:
                  delta = (3600 - t_req % 3600) + rng.randint(-2, 2)           # request across the next hour boundary
              elif choice == 2:
                  delta = -(t_req % 3600) + rng.randint(-2, 2)                  # request to the previous hour boundary
              elif choice == 3:
                  delta = 86400 - t_req + rng.randint(-60, 60)                  # across 24:00
              elif choice == 4:
                  delta = -(lo - margin)                                        # next to 0:00
              elif choice == 5:
                  delta = 115199 - margin - hi                                  # next to 32:00
              elif choice == 6:
                  delta = rng.randint(-20000, 20000)
              else:
                  delta = (3600 - lo % 3600) + rng.randint(-1, 1)               # first vehicle across an hour boundary
              if delta == 0:
                  continue
              ok = (lo + delta - margin >= 0 and hi + delta + margin < 115200 and lo - margin >= 0 and hi + margin < 115200)
              ops_ok = [o for o in ops if 0 <= int(o.split()[2]) < 115200 and 0 <= int(o.split()[2]) + delta < 115200]
              if choice >= 8 and fwd_times:
                  ok = (lo + delta >= 0 and hi + delta + margin < 115200 and hi + margin < 115200)
                  ops_ok = [o for o in ops if o.split()[9] == "1" and int(o.split()[2]) + delta == 0]
              if not ok or not ops_ok:
                  plan_state["skipped"] += 1
                  continue
              p1 = os.path.join(d, "%s%04d_%d_a.case" % (tag, ci, k))
              p2 = os.path.join(d, "%s%04d_%d_b.case" % (tag, ci, k))
              with open(p1, "w") as f:
                  f.write("\n".join(ds + ops_ok) + "\n")
              with open(p2, "w") as f:
                  f.write("\n".join(shift_dataset(ds, delta) + [shift_op(o, delta) for o in ops_ok]) + "\n")
              out.append((p1, p2, delta))
      return out

    pairs = plan(base_cases, "p")
    skipped = plan_state["skipped"]
    def evaluate(pairs, outdir):
        allcases = [p for pr in pairs for p in pr[:2]]
        recs = run.run_batch(allcases, l2, dr, outdir)
        by = {}
        for r in recs:
            by.setdefault(r["case"], []).append(r)
        evals, fails, nontriv, diffs = 0, [], set(), []
        crossing = 0
        for (p1, p2, delta) in pairs:
            for a, b in zip(by.get(p1, []), by.get(p2, [])):
                evals += 1
                for r in (a, b):
                    if r["impl"].strip() != r["model"].strip():
                        diffs.append(r)
                ua = a["impl"].split(" | opt")[0].strip()
                ub = unshift_line(b["impl"].split(" | opt")[0].strip(), delta)
                if ua != ub:
                    fails.append((a, b, delta, ua, ub))
                if a["impl"].split()[1] == "ok":
                    nontriv.add(a["op"] + str(delta))
                    t_req = int(a["op"].split()[2])
                    if t_req // 3600 != (t_req + delta) // 3600:
                        crossing += 1
        return by, evals, fails, nontriv, diffs, crossing

    by, evals, fails, nontriv, diffs, crossing = evaluate(pairs, d + ".out")
    widened = 0
    if (diffs or not po["ok"]) and not fails and not replay_path:
        # a broken obligation or correspondence: widen the search for a failing pair -- more datasets, first-waiting limits on
        # most requests, offsets taken from the boundary kinds only (hour marks, 24:00, next to 0:00 / 32:00, exactly 0:00:00)
        for extra in range(1, 4 if tier == "quick" else 9):
            dw = "%s-w%d" % (d, extra)
            shutil.rmtree(dw, ignore_errors=True)
            more_cases = gen.gen_batch(dw, seed + 500 + 1000 * extra, 120 if tier == "quick" else 400, 10,
                                       profiles=("fwlim", "grid", "fwlim", "opt", "fwlim", "loops", "tiny"))
            more = plan(more_cases, "w%d_" % extra, choices=[8, 9, 8, 9, 1, 2, 3, 4, 5, 7])
            by2, ev2, fails2, nt2, diffs2, cr2 = evaluate(more, dw + ".out")
            widened += ev2
            if fails2:
                fails = fails2
                break
    # L1 index correspondence from the shared routes batch
    batch = cl.routes_batch(seed, tier, l2, dr)
    idx = [r for r in batch if r["op"].startswith("index")]
    idx_diff = [r for r in idx if r["impl"].strip() != r["model"].strip()]
    idx_oob = [r for r in idx if "oob" in r["impl"]]
    rc = 0
    viol = []
    if fails:
        a, b, delta, ua, ub = fails[0]
        path = cl.write_replay(pid, a, "shifting data and request by %d changes the answer" % delta,
                               extra="shifted run: %s | shifted answer minus offset: %s" % (b["case"], ub))
        print("VIOLATION property=%s replay=%s" % (pid, path))
        print("  offset %d\n  op      : %s\n  original: %s\n  shifted-offset: %s" % (delta, a["op"], ua, ub))
        viol.append(path)
        rc = 1
    elif idx_oob:
        r = idx_oob[0]
        path = cl.write_replay(pid, r, "an hour-index lookup reads outside its table")
        print("VIOLATION property=%s replay=%s" % (pid, path))
        viol.append(path)
        rc = 1
    elif not po["ok"]:
        extra = ""
        if idx_diff:
            r = idx_diff[0]
            extra = "\n\nthe hour tables of the implementation also differ from the model's on %d of %d datasets; first: %s\n  impl : %s\n  model: %s" % (
                len(idx_diff), len(idx), r["case"], r["impl"][:600], r["model"][:600])
        path = cl.write_nofail_replay(pid, "proof obligations of Properties_%s.v (%d of %d)" % (pid, po["discharged"], po["obligations"]), po["log"] + extra)
        print("VIOLATION property=%s replay=%s no-failing-input-found" % (pid, path))
        if idx_diff:
            print("  (hour tables differ from the model's on %d of %d datasets; no shifted pair disagreed)" % (len(idx_diff), len(idx)))
        viol.append(path)
        rc = 1
    elif idx_diff or diffs:
        r = (idx_diff or diffs)[0]
        path = cl.write_replay(pid, r, "correspondence broken (hour index / scan); no shifted pair disagreed in %d pairs" % evals)
        print("VIOLATION property=%s replay=%s no-failing-input-found" % (pid, path))
        print("  impl : %s\n  model: %s" % (r["impl"][:300], r["model"][:300]))
        viol.append(path)
        rc = 1
    samples = [dict(offset=dl, original=os.path.basename(p1), shifted=os.path.basename(p2)) for (p1, p2, dl) in pairs[:3]]
    if pairs and by.get(pairs[0][0]):
        samples.append(dict(op=by[pairs[0][0]][0]["op"], answer=by[pairs[0][0]][0]["impl"][:300]))
    cov = dict(obligations=max(1, po["obligations"]), discharged=po["discharged"], checker_cmd=po["checker_cmd"], trusted_base=cl.TRUSTED_BASE,
               theorems=po["theorems"], print_assumptions=po["assumptions"], open_statements=cl_open(pid),
               evaluations=evals, distinct_nontrivial=len(nontriv),
               rule="pairs (dataset, request) / (dataset+offset, request+offset) run on the implementation; offsets move the request or the first vehicle across hour boundaries, across 24:00, next to 0:00 and 32:00, a departure request at exactly 0:00:00; pairs whose clock values (with a 2000 s margin for waiting and walks) leave [0,32h) are skipped; non-trivial = successful answer",
               samples=samples or [dict(note="no pair generated")], pairs=len(pairs), skipped_out_of_range=skipped, request_changes_hour=crossing,
               index_tables_compared=len(idx), index_disagreements=len(idx_diff), shifted_pair_disagreements=len(fails),
               correspondence_disagreements=len(diffs), widened_search_pairs=widened, exhaustive=False)
    cl.write_evidence(pid, tier, seed, "proof", cov, ["index half proved; whole-pipeline shift relation is exercised on the implementation (metamorphic), see open_statements"],
                      time.time() - t0, len(viol))
    print("%s %s: obligations %d/%d, %d shifted evaluations (%d successes), %d index tables (%d differ from the model), %d violations, %.1fs" %
          (pid, tier, po["discharged"], po["obligations"], evals, len(nontriv), len(idx), len(idx_diff), len(fails), time.time() - t0))
    return rc


def cl_open(pid):
    p = os.path.join(build.COQ, "Properties", "open_statements.json")
    if os.path.exists(p):
        return json.load(open(p)).get(pid, [])
    return []
