#!/usr/bin/env python3
"""store a confirmed seeded change under /verif/seeded/<name>/ : patch.diff, demonstration, meta.json
usage: seedstore.py <name> <mutant id (dir /tmp/mutout-<id>)> <property> <needs_to_manifest> <caught_by>
The confirmation and the check results are taken from /var/tmp/mutrun-<id>.log (written by tools/mutrun.sh)."""
import sys, os, json, shutil

name, mid, prop, needs, caught = sys.argv[1:6]
src = "/tmp/mutout-" + mid
dst = os.path.join("/verif/seeded", name)
os.makedirs(dst, exist_ok=True)
SKIP_DIRS = ("pristine", "build", "__pycache__")
for root, dirs, files in os.walk(src):
    dirs[:] = [x for x in dirs if x not in SKIP_DIRS]
    rel = os.path.relpath(root, src)
    for f in files:
        p = os.path.join(root, f)
        if os.path.getsize(p) < 300000 and not f.endswith((".o", ".log", ".pyc", ".capnpbin")):
            os.makedirs(os.path.join(dst, rel), exist_ok=True)
            shutil.copy(p, os.path.join(dst, rel, f))
log = open("/var/tmp/mutrun-%s.log" % mid).read() if os.path.exists("/var/tmp/mutrun-%s.log" % mid) else ""
meta = dict(property=prop, needs_to_manifest=needs, caught_by=caught,
            confirmed="tools/mutrun.sh in the sub-agent's scratch worktree of /repo: `make check` PASS for gtest and csa_test with the "
                      "change; run_demo.sh exits 0 on the unchanged /repo and 1 on the changed worktree; then the named checks were run "
                      "against the changed worktree (TRV_REPO)",
            what_was_run=log,
            origin="written by an independent sub-agent that was given only the property record and a scratch worktree of /repo")
json.dump(meta, open(os.path.join(dst, "meta.json"), "w"), indent=1)
print("stored", dst, sorted(os.listdir(dst)))
