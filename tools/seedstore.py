#!/usr/bin/env python3
"""store a confirmed seeded change under /verif/seeded/<name>/ : patch.diff, demonstration, meta.json"""
import sys, os, json, shutil
name, src, prop, needs, caught = sys.argv[1:6]
ran = sys.argv[6] if len(sys.argv) > 6 else ""
dst = os.path.join("/verif/seeded", name)
os.makedirs(dst, exist_ok=True)
for f in os.listdir(src):
    p = os.path.join(src, f)
    if os.path.isfile(p) and os.path.getsize(p) < 400000 and not f.endswith((".o", ".log")) or f in ("NOTES.md",):
        shutil.copy(p, dst)
meta = dict(property=prop, needs_to_manifest=needs, caught_by=caught,
            confirmed="tools/seedcheck.sh: patch applied to a scratch copy of /repo: `make check` PASS for gtest and csa_test; run_demo.sh exits 0 on the pristine copy and non-zero on the patched copy",
            checks_run=ran, origin="written by an independent sub-agent that was given only the property text and a scratch worktree")
json.dump(meta, open(os.path.join(dst, "meta.json"), "w"), indent=1)
print("stored", dst, sorted(os.listdir(dst)))
