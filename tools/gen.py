#!/usr/bin/env python3
"""Structured random generator of case files (dataset + operations).  Every random choice derives from
one splitmix64 state seeded by VERIF_SEED, so a batch is reproducible."""
import os, sys

MAX_INT = 2147483647
MASK = (1 << 64) - 1


class Rng:
    def __init__(self, seed):
        self.s = (seed * 0x9E3779B97F4A7C15 + 0x1234567) & MASK

    def next(self):
        self.s = (self.s + 0x9E3779B97F4A7C15) & MASK
        z = self.s
        z = ((z ^ (z >> 30)) * 0xBF58476D1CE4E5B9) & MASK
        z = ((z ^ (z >> 27)) * 0x94D049BB133111EB) & MASK
        return z ^ (z >> 31)

    def randint(self, a, b):
        return a + self.next() % (b - a + 1)

    def chance(self, p):
        return (self.next() % 10000) < int(p * 10000)

    def choice(self, l):
        return l[self.next() % len(l)]

    def sample(self, l, k):
        l = list(l)
        out = []
        for _ in range(min(k, len(l))):
            i = self.next() % len(l)
            out.append(l.pop(i))
        return out

    def fork(self):
        return Rng(self.next())


class Dataset:
    def __init__(self):
        self.nodes = []
        self.fp = {}     # node -> [(node,time,dist)]
        self.rfp = {}
        self.lines = []  # (id, agency, mode)
        self.paths = []  # (id, line, [nodes], [dists])
        self.trips = []  # (id, path, service, [(arr,dep,cb,cu)])
        self.scens = []  # (id, [9 lists])

    def text(self):
        o = ["dataset", "nodes %d %s" % (len(self.nodes), " ".join(map(str, self.nodes)))]
        for n in self.nodes:
            rows = self.fp.get(n, [])
            o.append("fp %d %d %s" % (n, len(rows), " ".join("%d %d %d" % r for r in rows)))
        for n in self.nodes:
            rows = self.rfp.get(n, [])
            o.append("rfp %d %d %s" % (n, len(rows), " ".join("%d %d %d" % r for r in rows)))
        for l in self.lines:
            o.append("line %d %d %d" % l)
        for (pid, line, nodes, dists) in self.paths:
            o.append("path %d %d %d %s %d %s" % (pid, line, len(nodes), " ".join(map(str, nodes)), len(dists), " ".join(map(str, dists))))
        for (tid, path, service, times) in self.trips:
            o.append("trip %d %d %d %d %s" % (tid, path, service, len(times), " ".join("%d %d %d %d" % t for t in times)))
        for (sid, lists) in self.scens:
            o.append("scen %d %s" % (sid, " ".join("%d %s" % (len(l), " ".join(map(str, l))) for l in lists)))
        o.append("end")
        return "\n".join(o) + "\n"

    def conns(self):
        """(trip, seq, from, to, dep, arr, cb, cu) for all trips"""
        out = []
        pmap = {p[0]: p for p in self.paths}
        for (tid, path, service, times) in self.trips:
            nodes = pmap[path][2]
            for i in range(min(len(nodes), len(times)) - 1):
                out.append((tid, i + 1, nodes[i], nodes[i + 1], times[i][1], times[i + 1][0], times[i][2], times[i + 1][3]))
        return out


def gen_dataset(rng, prof):
    """prof: dict of knobs: pos_hops (bool), transferable (bool), loops (float), forbid (float), nmax, base_hour,
    grid (snap every time, walk and waiting value to a multiple of it so that guards meet their equality points)"""
    d = Dataset()
    if prof.get("family") == "pair":
        return gen_pair_dataset(rng, prof)
    if prof.get("grid"):
        return gen_dataset_grid(rng, prof)
    n = rng.randint(prof.get("nmin", 3), prof.get("nmax", 9))
    d.nodes = list(range(1, n + 1))
    fp = {x: [(x, 0, 0)] for x in d.nodes}
    pfp = prof.get("pfp", 0.15)
    for a in d.nodes:
        for b in d.nodes:
            if a < b and rng.chance(pfp):
                # (one footpath in ten is LONGER than the default transfer maximum of 1200 s: usable only by a request that raises the
                # maximum or sets none -- a loader or table that drops such rows is then visible)
                w = rng.choice([0, 30, 60, 120, 180, 300, 600, rng.randint(1, 900), rng.randint(1, 900), rng.randint(1201, 2400)])
                dist = rng.randint(0, 1200)
                fp[a].append((b, w, dist))
                if rng.chance(prof.get("pback", 0.8)):
                    w2 = w if rng.chance(1.0 - prof.get("asym", 0.3)) else rng.randint(1, 900)
                    fp[b].append((a, w2, dist))
    d.fp = fp
    rfp = {}
    dup_self = rng.chance(0.5)
    for x in d.nodes:
        rows = []
        for m in d.nodes:
            for (t, w, dist) in fp[m]:
                if t == x:
                    rows.append((m, w, dist))
        # real cache files list the stop itself first; the loader appends one more self row
        rows.sort(key=lambda r: (0 if r[0] == x else 1))
        if dup_self:
            rows.append((x, 0, 0))
        rfp[x] = rows
    d.rfp = rfp
    nl = rng.randint(prof.get("lmin", 1), prof.get("lmax", 5))
    for l in range(1, nl + 1):
        mode = 0 if (prof.get("transferable", False) and rng.chance(prof.get("ptransferable", 0.15))) else rng.choice([1, 1, 2, 2, 3, 4])
        d.lines.append((l, rng.randint(1, 2), mode))
    base = prof.get("base", rng.choice([0, 0, 1, 5, 8, 9, 12, 17, 22, 23, 24, 27, 30, 30])) * 3600 + rng.randint(0, 3599)
    hubs = rng.sample(d.nodes, max(1, n // 3))
    pid = 0
    tid = 0
    for (l, _, _) in d.lines:
        for _ in range(rng.randint(1, 2)):
            pid += 1
            k = rng.randint(2, min(6, n + 1))
            nodes = []
            if d.paths and rng.chance(prof.get("shared", 0.0)):
                # the path shares a run of 2-3 consecutive stops, in the same order, with an earlier path, between stops of
                # its own: two vehicles that can be changed at SEVERAL common stops (journey clean-up: which common stop is
                # usable depends on the boarding / alighting permissions at each of them)
                src = rng.choice(d.paths)[2]
                if len(src) >= 2:
                    m = rng.randint(2, min(3, len(src)))
                    i0 = rng.randint(0, len(src) - m)
                    chunk = src[i0:i0 + m]
                    own = [x for x in d.nodes if x not in chunk]
                    pre = rng.sample(own, min(len(own), rng.randint(0, 2)))
                    own2 = [x for x in own if x not in pre]
                    suf = rng.sample(own2, min(len(own2), rng.randint(0, 2)))
                    cand = pre + chunk + suf
                    if len(cand) >= 2 and all(cand[i] != cand[i + 1] for i in range(len(cand) - 1)):
                        nodes = cand
                        k = len(nodes)
            while len(nodes) < k:
                if nodes and rng.chance(prof.get("loops", 0.2)) and len(nodes) >= 2:
                    c = rng.choice(nodes[:-1])   # revisit an earlier stop
                else:
                    c = rng.choice(hubs) if rng.chance(0.4) else rng.choice(d.nodes)
                if nodes and c == nodes[-1]:
                    continue
                nodes.append(c)
            if rng.chance(0.7):
                # (a 0 m segment is legal: two consecutive stops snapped to the same point)
                dists = [0 if rng.chance(0.08) else rng.randint(50, 2000) for _ in range(k - 1)] + ([-1] if rng.chance(0.5) else [])
            elif rng.chance(0.5):
                dists = []
            else:
                dists = [rng.randint(50, 2000) for _ in range(rng.randint(0, k - 1))]
            d.paths.append((pid, l, nodes, dists))
            start = base + rng.randint(-600, 3000)
            for _ in range(rng.randint(1, prof.get("tmax", 3))):
                tid += 1
                t = max(0, start)
                times = []
                for i in range(k):
                    arr = t
                    dwell = rng.choice([0, 0, 0, 20, 30, 60])
                    dep = arr + dwell
                    cb = 0 if rng.chance(prof.get("forbid", 0.1)) else 1
                    cu = 0 if rng.chance(prof.get("forbid", 0.1)) else 1
                    times.append((arr, dep, cb, cu))
                    if prof.get("pos_hops", True):
                        hop = rng.choice([60, 90, 120, 180, 240, 300, 600, rng.randint(1, 900)])
                    else:
                        hop = rng.choice([0, 0, 60, 120, 300, rng.randint(0, 600)])
                    t = dep + hop
                if times[-1][1] >= 115200:
                    tid -= 1
                    continue
                d.trips.append((tid, pid, rng.randint(1, 2), times))
                start += rng.choice([60, 120, 170, 180, 300, 600, 900, rng.randint(1, 1800)])
    if not d.trips:   # make sure there is at least one trip
        p = d.paths[0]
        t = max(0, base)
        times = [(t + 300 * i, t + 300 * i, 1, 1) for i in range(len(p[2]))]
        d.trips.append((1, p[0], 1, times))
    d.scens.append((1, [[1, 2], [], [], [], [], [], [], [], []]))
    # scenario 2 admits service 1 only; a third of the time its list NAMES IT TWICE OR THREE TIMES (the cache directories also hold a service 0; as many entries as there are services in
    # the data without naming them all: shortcuts that compare list sizes show here)
    d.scens.append((2, [[1] * rng.choice([2, 3, 3]) if rng.chance(0.33) else [1], [], [], [], [], [], [], [], []]))
    lines = [l[0] for l in d.lines]

    def restricted(depth=0):
        lists = [[1, 2], [], [], [], [], [], [], [], []]
        k = rng.randint(1, 12 if depth == 0 else 7)
        # 8-11: filters that leave NOTHING enabled (a list naming every agency / line, the same agency or mode in the only- and
        # the except-list): "empty means no filter" shortcuts show here.  12: two filters at once.
        if k == 8:
            lists[7] = [1, 2]
        elif k == 9:
            a = rng.randint(1, 2)
            lists[3], lists[7] = [a], [a]
        elif k == 10:
            lists[5] = list(lines)
        elif k == 11:
            m = rng.choice([1, 2, 3, 4])
            lists[2], lists[6] = [m], [m]
        elif k == 12:
            a, b = restricted(1), restricted(1)
            lists = [a[0]] + [sorted(set(x + y)) for x, y in zip(a[1:], b[1:])]
        if k in (1, 5, 6):
            lists[k] = rng.sample(lines, rng.randint(1, max(1, len(lines) - 1)))
        elif k == 2:
            lists[2] = [rng.choice([1, 2, 3, 4])]
        elif k == 3:
            lists[3] = [rng.randint(1, 2)]
        elif k == 4:
            lists[6] = [rng.choice([0, 1, 2, 3, 4])]
        elif k == 7:
            lists[7] = [rng.randint(1, 2)]
            lists[5] = rng.sample(lines, 1)
        return lists
    lists = restricted()
    d.scens.append((3, lists))
    # a fourth scenario AFTER a restricted one: unrestricted half of the time (a loader that lets lists of one scenario leak
    # into the next is only visible on a later, less restricted scenario)
    # ... and a third of the time the COMPLEMENT of scenario 3: same services, every only-list moved to the except-list of the
    # same kind and back (a connection-set cache or memo keyed by the entries without the list they stand in confuses the two)
    if rng.chance(0.33) and any(lists[1:8]):
        comp = [list(lists[0]), list(lists[5]), list(lists[6]), list(lists[7]), list(lists[8]), list(lists[1]), list(lists[2]), list(lists[3]), list(lists[4])]
        d.scens.append((4, comp))
    else:
        d.scens.append((4, restricted() if rng.chance(0.5) else [[1, 2], [], [], [], [], [], [], [], []]))
    return d


def gen_pair_dataset(rng, prof):
    """Family aimed at the journey clean-up rewrites (optimize_journey.cpp: CSL / BTS / GTF / CSS): two vehicles whose paths
    share a run S of 1-3 stops (same order, reversed, or partly), each with stops of its own before and after the run, the
    second passing after the first; an optional third vehicle going on from the second one's end (through S again half of the
    time).  Boarding / alighting is forbidden at about half of the shared stops, independently per vehicle, so that which
    common stop a rewrite may use differs from stop to stop; footpaths from the first vehicle's later stops to the second
    one's earlier stops make many different transfers possible.  Random journeys over it (gen_journey) board and alight at
    every position relative to the shared run."""
    d = Dataset()
    m = rng.randint(1, 3)
    p1, q1, p2, q2 = rng.randint(1, 2), rng.randint(1, 2), rng.randint(1, 2), rng.randint(1, 2)
    third = rng.chance(0.4)
    n = m + p1 + q1 + p2 + q2 + (1 if third else 0)
    ids = rng.sample(list(range(1, n + 1)), n)
    S, rest = ids[:m], ids[m:]
    P1, rest = rest[:p1], rest[p1:]
    Q1, rest = rest[:q1], rest[q1:]
    P2, rest = rest[:p2], rest[p2:]
    Q2, rest = rest[:q2], rest[q2:]
    k = rng.randint(0, 9)
    S2 = list(S) if k < 6 else (S[::-1] if k < 8 else S[:max(1, m - 1)])
    paths = [P1 + S + Q1, P2 + S2 + Q2]
    if third:
        paths.append([Q2[-1]] + (list(S) if rng.chance(0.5) else []) + rest[:1])
    d.nodes = sorted(ids)
    fp = {x: [(x, 0, 0)] for x in d.nodes}
    g = prof.get("grid") or 60
    for a in S + Q1:
        for b in P2 + S2:
            if a != b and rng.chance(0.6):
                w, dist = rng.choice([0, g, 2 * g]), rng.randint(0, 900)
                fp[a].append((b, w, dist))
                if rng.chance(0.5):
                    fp[b].append((a, w, dist))
    d.fp = fp
    rfp = {}
    for x in d.nodes:
        rows = []
        for mm in d.nodes:
            for (t, w, dist) in fp[mm]:
                if t == x:
                    rows.append((mm, w, dist))
        rows.sort(key=lambda r: (0 if r[0] == x else 1))
        rows.append((x, 0, 0))
        rfp[x] = rows
    d.rfp = rfp
    base = rng.choice([5, 8, 9, 12, 17, 22]) * 3600
    t = base
    tid = 0
    shared = set(S)
    for li, nodes in enumerate(paths):
        d.lines.append((li + 1, rng.randint(1, 2), rng.choice([1, 2, 3])))
        dists = [rng.randint(50, 2000) for _ in range(len(nodes) - 1)] if rng.chance(0.7) else []
        d.paths.append((li + 1, li + 1, nodes, dists))
        for rep in range(rng.randint(1, 2)):
            tid += 1
            tt = t + rep * 5 * g
            times = []
            for i, x in enumerate(nodes):
                dwell = rng.choice([0, 0, g])
                pf = 0.5 if x in shared else 0.1
                cb = 0 if (rng.chance(pf) and i > 0) else 1
                cu = 0 if (rng.chance(pf) and i < len(nodes) - 1) else 1
                times.append((tt, tt + dwell, cb, cu))
                tt += dwell + rng.choice([g, 2 * g, 5 * g])
            d.trips.append((tid, li + 1, rng.randint(1, 2), times))
        t = max(x[-1][1] for (_, pth, _, x) in [(a, b, c, e) for (a, b, c, e) in d.trips if b == li + 1]) + rng.choice([5 * g, 10 * g, 15 * g])
    for sid in (1, 2, 3, 4):
        d.scens.append((sid, [[1, 2], [], [], [], [], [], [], [], []]))
    return d


def gen_dataset_grid(rng, prof):
    g = prof["grid"]
    p2 = dict(prof)
    p2.pop("grid")
    d = gen_dataset(rng, p2)
    snap = lambda x: (x // g) * g
    d.fp = {n: [(m, snap(w), dist) for (m, w, dist) in rows] for n, rows in d.fp.items()}
    d.rfp = {n: [(m, snap(w), dist) for (m, w, dist) in rows] for n, rows in d.rfp.items()}
    trips = []
    for (tid, path, service, times) in d.trips:
        nt = []
        prev = 0
        for (arr, dep, cb, cu) in times:
            a = max(snap(arr), prev)
            if prof.get("pos_hops", True) and nt and a <= nt[-1][1]:
                a = nt[-1][1] + g
            dd = max(snap(dep), a)
            nt.append((a, dd, cb, cu))
            prev = dd
        if nt[-1][1] < 115200:
            trips.append((tid, path, service, nt))
    if trips:
        d.trips = trips
    return d


def gen_tables(rng, d, prof):
    def table():
        k = rng.choice([1, 1, 2, 2, 3, 3, 4]) if not rng.chance(prof.get("pempty", 0.03)) else 0
        g = prof.get("grid")
        tt = (lambda: rng.choice([0, 0, g, 2 * g, 3 * g])) if g else (lambda: rng.choice([0, 0, 60, 120, 300, rng.randint(0, 600)]))
        return [(x, tt(), rng.randint(0, 800)) for x in rng.sample(d.nodes, min(k, len(d.nodes)))]
    return table(), table()


def gen_params(rng, d, prof, fwd):
    cs = d.conns()
    deps = [c[4] for c in cs] or [36000]
    arrs = [c[5] for c in cs] or [36000]
    if fwd:
        t = rng.choice(deps) - rng.choice([0, 60, 180, 300, 600, 900, 1800, rng.randint(0, 3600)])
    else:
        t = rng.choice(arrs) + rng.choice([0, 60, 180, 300, 600, 900, 1800, rng.randint(0, 3600)])
    g = prof.get("grid")
    if g:
        t = (t // g) * g
    t = max(0, min(115199, t))
    if rng.chance(0.06):
        # the last seconds before an hour mark (3600k - r, r <= k): where an hour computed with a slightly wrong divisor or
        # rounding differs from floor(t / 3600)
        h = min(31, t // 3600 + 1)
        t = max(0, 3600 * h - rng.randint(1, max(1, h)))
    minw = rng.choice(prof.get("minws") or [0, 60, 180, 180, 180, 300, rng.randint(0, 600)])
    if g:
        minw = rng.choice([0, g, g, 2 * g, 3 * g]) if not prof.get("minws") else minw
    maxtt = rng.choice([MAX_INT, MAX_INT, MAX_INT, 7200, 3600, 1800, rng.randint(300, 5000)])
    maxtr = rng.choice([1200, 1200, 600, 300, 120, MAX_INT, MAX_INT, 2400])
    if g:
        maxtt = rng.choice([MAX_INT, MAX_INT, 10 * g, 20 * g, 30 * g, 40 * g, 60 * g])
        maxtr = rng.choice([MAX_INT, g, 2 * g, 5 * g])
    maxfw = rng.choice(prof.get("maxfws", [-1, -1, -1, 1800, 600, 300, 100]))
    scen = rng.choice([1, 1, 1, 2, 3, 4, 4])
    # access / egress maxima: table rows never exceed 600 s, so every value >= 600 and "no limit" (MAX_INT, sent as 0 or a
    # negative number over HTTP) must give the same answer as the default 1200; large finite values exercise the walking-radius
    # arithmetic in front of the router
    walk_limits = [1200, 1200, 1200, MAX_INT, 900, 40000, 99999, 2000000]
    maxacc = rng.choice(walk_limits)
    maxegr = rng.choice(walk_limits)
    # small and UNEQUAL limits (rows slower than a limit are then dropped from the table by gen_case, as a router would):
    # the two limits are told apart, and a table can be empty because of its limit
    if rng.chance(prof.get("psmall_walk", 0.2)):
        small = [g, 2 * g, 5 * g] if g else [60, 120, 300, 30]
        if rng.chance(0.5):
            maxacc = rng.choice(small)
        if rng.chance(0.5) or maxacc >= 900:
            maxegr = rng.choice(small)
    return dict(scen=scen, time=t, minw=minw, maxtt=maxtt, maxacc=maxacc, maxegr=maxegr, maxtr=maxtr, maxfw=maxfw, fwd=1 if fwd else 0)


def plan_journey(rng, d, minw):
    """pick an origin stop/time and a destination stop reachable from it, preferring journeys with transfers.
    A plain connection scan over all trips (permissions and limits ignored: it only steers the generator)."""
    cs = sorted(d.conns(), key=lambda c: (c[4], c[0], c[1]))
    if not cs:
        return None
    c0 = rng.choice(cs)
    start, t0 = c0[2], c0[4] - minw - rng.choice([0, 0, 60, 120, 300])
    best = {start: (t0, 0)}
    onboard = {}
    fp = d.fp
    for (tid, seq, a, b, dep, arr, cb, cu) in cs:
        if tid in onboard or (a in best and best[a][0] + minw <= dep):
            if tid not in onboard:
                onboard[tid] = best[a][1] + 1
            legs = onboard[tid]
            for (m, w, _) in fp.get(b, [(b, 0, 0)]):
                if m not in best or arr + w < best[m][0]:
                    best[m] = (arr + w, legs)
    cands = [(n, v) for n, v in best.items() if n != start and v[1] >= 1]
    if not cands:
        return None
    multi = [c for c in cands if c[1][1] >= 2]
    n, (t, legs) = rng.choice(multi) if (multi and rng.chance(0.75)) else rng.choice(cands)
    return start, t0, n, t


def gen_journey(rng, d, minw, maxlegs=4, pstop=0.25):
    """a random VALID journey (not an optimal one): rides alternating with footpath walks, every boarding
    at least minw after the traveller is ready.  Returns (accnode, egrnode, legs) with legs =
    (trip, boardSeq, alightSeq, walkAfter, distAfter)."""
    cs = d.conns()
    by_trip = {}
    for c in cs:
        by_trip.setdefault(c[0], []).append(c)
    boardable = [c for c in cs if c[6] == 1]
    if not boardable:
        return None
    b = rng.choice(boardable)
    legs = []
    accnode = b[2]
    while True:
        trip = by_trip[b[0]]
        later = [c for c in trip if c[1] >= b[1] and c[7] == 1]
        if not later:
            break
        e = rng.choice(later)
        legs.append([b[0], b[1], e[1], 0, 0])
        if len(legs) >= maxlegs or rng.chance(pstop):
            break
        rows = d.fp.get(e[3], [])
        if not rows:
            break
        (m, w, dist) = rng.choice(rows)
        nxt = [c for c in boardable if c[2] == m and c[4] >= e[5] + w + minw and c[0] != b[0]]
        if not nxt:
            break
        nxt.sort(key=lambda c: c[4])
        nb = rng.choice(nxt[:4])
        legs[-1][3], legs[-1][4] = (0 if m == e[3] else w), (0 if m == e[3] else dist)
        b = nb
    if not legs:
        return None
    last_trip = by_trip[legs[-1][0]]
    egrnode = [c for c in last_trip if c[1] == legs[-1][2]][0][3]
    legs[-1][3], legs[-1][4] = rng.choice([0, 0, 60, -1]), 0    # stale value kept by the rebuild loop
    return accnode, egrnode, legs


def rows_text(rows):
    return "%d %s" % (len(rows), " ".join("%d %d %d" % r for r in rows))


def q_text(q):
    return "%d %d %d %d %d %d %d %d %d" % (q["scen"], q["time"], q["minw"], q["maxtt"], q["maxacc"], q["maxegr"], q["maxtr"], q["maxfw"], q["fwd"])


def gen_case(rng, prof, nq):
    d = gen_dataset(rng, prof)
    out = [d.text()]
    for _ in range(nq):
        acc, egr = gen_tables(rng, d, prof)
        fwd = rng.chance(0.5)
        q = gen_params(rng, d, prof, fwd)
        if rng.chance(prof.get("pplan", 0.65)):
            pl = plan_journey(rng, d, q["minw"])
            if pl:
                start, t0, dest, t1 = pl
                g = prof.get("grid")
                aw = rng.choice([0, 0, g or 60, 2 * (g or 60)])
                ew = rng.choice([0, 0, g or 60, 2 * (g or 60)])
                acc = [(start, aw, rng.randint(0, 800))] + [r for r in acc if r[0] != start][:rng.randint(0, 2)]
                egr = [(dest, ew, rng.randint(0, 800))] + [r for r in egr if r[0] != dest][:rng.randint(0, 2)]
                # the router lists stops in its own order: the planted (usually nearest) stop is not always first
                if rng.chance(0.5):
                    acc = acc[1:] + acc[:1]
                if rng.chance(0.5):
                    egr = egr[1:] + egr[:1]
                if fwd:
                    q["time"] = max(0, t0 - aw - rng.choice([0, 0, 60, 300, 900]))
                else:
                    q["time"] = min(115199, t1 + ew + rng.choice([0, 0, 60, 300, 900]))
                if rng.chance(0.6):
                    q["maxtt"] = MAX_INT
                if rng.chance(0.6):
                    q["scen"] = 1
        acc = [r for r in acc if r[1] <= q["maxacc"]]
        egr = [r for r in egr if r[1] <= q["maxegr"]]
        out.append("route %s 0 %s %s" % (q_text(q), rows_text(acc), rows_text(egr)))
        if rng.chance(prof.get("palt", 0.25)):
            out.append("route %s 1 %s %s" % (q_text(q), rows_text(acc), rows_text(egr)))
        if rng.chance(prof.get("pacc", 0.35)):
            out.append("access %s %s" % (q_text(q), rows_text(acc if fwd else egr)))
    for _ in range(prof.get("njourneys", 6)):
        minw = rng.choice([0, 60, 180])
        j = gen_journey(rng, d, minw, pstop=prof.get("pstop", 0.25))
        if j:
            accnode, egrnode, legs = j
            out.append("optimize %d %d %d %d %d %d %d %d %s" % (minw, accnode, rng.choice([0, 60]), 10, egrnode, rng.choice([0, 60]), 10,
                                                          len(legs), " ".join("%d %d %d %d %d" % tuple(l) for l in legs)))
    out.append("index 1")
    out.append("index 3")
    return "\n".join(out) + "\n"


PROFILES = {
    # the common domain of C03-C05/C08/C09: positive hops, uniform waiting, cap mostly off
    "opt": dict(pos_hops=True, transferable=False, loops=0.15, forbid=0.08, maxfws=[-1, -1, -1, -1, -1, 600]),
    # loop-heavy networks to reach the clean-up rewrites
    "loops": dict(pos_hops=True, transferable=False, loops=0.45, forbid=0.12, nmax=6, lmax=6, tmax=2, pfp=0.3),
    # everything allowed by the C01 domain: zero hops, transferable lines, caps
    "wide": dict(pos_hops=False, transferable=True, loops=0.25, forbid=0.15, minws=[60, 180, 300, 1]),
    # tiny networks
    "tiny": dict(pos_hops=True, transferable=False, nmin=2, nmax=4, lmax=3, loops=0.3, forbid=0.1, pfp=0.4),
    # everything on a coarse grid: guards meet their equality points, labels tie
    "grid": dict(pos_hops=True, transferable=False, nmin=3, nmax=6, lmax=5, tmax=3, loops=0.3, forbid=0.08, pfp=0.35,
                 grid=60, minws=None, maxfws=[-1, -1, -1, 120, 300]),
    "grid300": dict(pos_hops=True, transferable=False, nmin=3, nmax=6, lmax=5, tmax=3, loops=0.35, forbid=0.05, pfp=0.35,
                    grid=300, maxfws=[-1, -1, -1, -1, 600]),
    # rewrites: few stops, many looping lines through the same stops
    "rewrites": dict(pos_hops=True, transferable=False, nmin=3, nmax=5, lmax=6, tmax=2, loops=0.55, forbid=0.15, pfp=0.35,
                     grid=60, maxfws=[-1, -1, -1, 600], njourneys=40),
    # the domain of C03/C08 beyond uniform waiting: positive hops, but lines of mode "transferable" (own minimum waiting 0 s)
    # next to ordinary ones, request waiting times well above 0, departures close together
    "mixedwait": dict(pos_hops=True, transferable=True, ptransferable=0.45, nmin=3, nmax=6, lmax=5, tmax=3, loops=0.2, forbid=0.05,
                      pfp=0.3, minws=[180, 300, 300, 600, 60], maxfws=[-1, -1, -1, -1, 600]),
    # dense, mostly ASYMMETRIC footpaths (A->B and B->A differ, or only one direction exists): journeys that transfer on
    # foot, so that forward and reverse footpath lists are both exercised (loader: reverse lists are derived)
    "asymfp": dict(pos_hops=True, transferable=False, nmin=4, nmax=7, lmax=5, tmax=3, loops=0.1, forbid=0.05, pfp=0.55,
                   pback=0.6, asym=0.85, maxfws=[-1, -1, -1, -1, 600]),
    # lines sharing runs of consecutive stops, many forbidden boardings / alightings: the clean-up rewrites have several
    # common stops to choose from and must test the permissions of each
    "shared": dict(pos_hops=True, transferable=False, nmin=5, nmax=7, lmin=2, lmax=4, tmax=3, loops=0.05, forbid=0.3, pfp=0.5,
                   shared=0.8, grid=60, maxfws=[-1, -1, -1, 600], njourneys=40),
    # two (three) vehicles sharing a run of stops with forbidden boardings / alightings: every clean-up rewrite case with
    # several candidate stops (see gen_pair_dataset)
    # requests with a first-waiting limit most of the time (the limit is applied in both passes of a departure request)
    "fwlim": dict(pos_hops=True, transferable=False, nmin=3, nmax=6, lmax=5, tmax=3, loops=0.2, forbid=0.08, pfp=0.35,
                  grid=60, minws=None, maxfws=[120, 300, 600, 100, 900, -1]),
    "pairfam": dict(family="pair", pos_hops=True, transferable=False, grid=60, minws=[0, 60, 60, 180], maxfws=[-1, -1, -1, 600],
                    njourneys=150, pplan=0.8, palt=0.35, pstop=0.03),
    # zero-time hops and zero waiting (termination)
    "zero": dict(pos_hops=False, transferable=False, nmin=3, nmax=5, lmax=4, loops=0.4, forbid=0.05, pfp=0.3,
                 grid=300, minws=[0, 0, 300]),
}


def gen_batch(outdir, seed, count, nq, profiles=("opt", "loops", "wide", "tiny", "grid", "grid300")):
    os.makedirs(outdir, exist_ok=True)
    rng = Rng(seed)
    files = []
    for i in range(count):
        prof_name = profiles[i % len(profiles)]
        r = rng.fork()
        path = os.path.join(outdir, "g%04d_%s.case" % (i, prof_name))
        with open(path, "w") as f:
            f.write("# seed=%d index=%d profile=%s\n" % (seed, i, prof_name))
            f.write(gen_case(r, PROFILES[prof_name], nq))
        files.append(path)
    return files


if __name__ == "__main__":
    out = sys.argv[1]
    seed = int(sys.argv[2]) if len(sys.argv) > 2 else 1
    count = int(sys.argv[3]) if len(sys.argv) > 3 else 20
    nq = int(sys.argv[4]) if len(sys.argv) > 4 else 20
    print(len(gen_batch(out, seed, count, nq)))
