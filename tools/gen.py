#!/usr/bin/env python3
"""Structured random generator of case files (dataset + operations).  Every random choice derives from
one splitmix64 state seeded by VERIF_SEED, so a batch is reproducible."""
import os, sys

MAX_INT = 2147483647
MASK = (1 << 64) - 1


class Rng:
    def __init__(self, seed):
        self.s = (seed * 0x9E3779B97F4A7C15 + 0x1234567) & MASK

    def next(self):
        self.s = (self.s + 0x9E3779B97F4A7C15) & MASK
        z = self.s
        z = ((z ^ (z >> 30)) * 0xBF58476D1CE4E5B9) & MASK
        z = ((z ^ (z >> 27)) * 0x94D049BB133111EB) & MASK
        return z ^ (z >> 31)

    def randint(self, a, b):
        return a + self.next() % (b - a + 1)

    def chance(self, p):
        return (self.next() % 10000) < int(p * 10000)

    def choice(self, l):
        return l[self.next() % len(l)]

    def sample(self, l, k):
        l = list(l)
        out = []
        for _ in range(min(k, len(l))):
            i = self.next() % len(l)
            out.append(l.pop(i))
        return out

    def fork(self):
        return Rng(self.next())


class Dataset:
    def __init__(self):
        self.nodes = []
        self.fp = {}     # node -> [(node,time,dist)]
        self.rfp = {}
        self.lines = []  # (id, agency, mode)
        self.paths = []  # (id, line, [nodes], [dists])
        self.trips = []  # (id, path, service, [(arr,dep,cb,cu)])
        self.scens = []  # (id, [9 lists])

    def text(self):
        o = ["dataset", "nodes %d %s" % (len(self.nodes), " ".join(map(str, self.nodes)))]
        for n in self.nodes:
            rows = self.fp.get(n, [])
            o.append("fp %d %d %s" % (n, len(rows), " ".join("%d %d %d" % r for r in rows)))
        for n in self.nodes:
            rows = self.rfp.get(n, [])
            o.append("rfp %d %d %s" % (n, len(rows), " ".join("%d %d %d" % r for r in rows)))
        for l in self.lines:
            o.append("line %d %d %d" % l)
        for (pid, line, nodes, dists) in self.paths:
            o.append("path %d %d %d %s %d %s" % (pid, line, len(nodes), " ".join(map(str, nodes)), len(dists), " ".join(map(str, dists))))
        for (tid, path, service, times) in self.trips:
            o.append("trip %d %d %d %d %s" % (tid, path, service, len(times), " ".join("%d %d %d %d" % t for t in times)))
        for (sid, lists) in self.scens:
            o.append("scen %d %s" % (sid, " ".join("%d %s" % (len(l), " ".join(map(str, l))) for l in lists)))
        o.append("end")
        return "\n".join(o) + "\n"

    def conns(self):
        """(trip, seq, from, to, dep, arr, cb, cu) for all trips"""
        out = []
        pmap = {p[0]: p for p in self.paths}
        for (tid, path, service, times) in self.trips:
            nodes = pmap[path][2]
            for i in range(min(len(nodes), len(times)) - 1):
                out.append((tid, i + 1, nodes[i], nodes[i + 1], times[i][1], times[i + 1][0], times[i][2], times[i + 1][3]))
        return out


def gen_dataset(rng, prof):
    """prof: dict of knobs: pos_hops (bool), transferable (bool), loops (float), forbid (float), nmax, base_hour"""
    d = Dataset()
    n = rng.randint(prof.get("nmin", 3), prof.get("nmax", 9))
    d.nodes = list(range(1, n + 1))
    fp = {x: [(x, 0, 0)] for x in d.nodes}
    pfp = prof.get("pfp", 0.15)
    for a in d.nodes:
        for b in d.nodes:
            if a < b and rng.chance(pfp):
                w = rng.choice([0, 30, 60, 120, 180, 300, 600, rng.randint(1, 900)])
                dist = rng.randint(0, 1200)
                fp[a].append((b, w, dist))
                if rng.chance(0.8):
                    w2 = w if rng.chance(0.7) else rng.randint(1, 900)
                    fp[b].append((a, w2, dist))
    d.fp = fp
    rfp = {}
    dup_self = rng.chance(0.5)
    for x in d.nodes:
        rows = []
        for m in d.nodes:
            for (t, w, dist) in fp[m]:
                if t == x:
                    rows.append((m, w, dist))
        # real cache files list the stop itself first; the loader appends one more self row
        rows.sort(key=lambda r: (0 if r[0] == x else 1))
        if dup_self:
            rows.append((x, 0, 0))
        rfp[x] = rows
    d.rfp = rfp
    nl = rng.randint(1, prof.get("lmax", 5))
    for l in range(1, nl + 1):
        mode = 0 if (prof.get("transferable", False) and rng.chance(0.15)) else rng.randint(1, 2)
        d.lines.append((l, rng.randint(1, 2), mode))
    base = prof.get("base", rng.choice([0, 1, 5, 8, 9, 12, 17, 22, 23, 24, 27, 30])) * 3600 + rng.randint(0, 3599)
    hubs = rng.sample(d.nodes, max(1, n // 3))
    pid = 0
    tid = 0
    for (l, _, _) in d.lines:
        for _ in range(rng.randint(1, 2)):
            pid += 1
            k = rng.randint(2, min(6, n + 1))
            nodes = []
            while len(nodes) < k:
                if nodes and rng.chance(prof.get("loops", 0.2)) and len(nodes) >= 2:
                    c = rng.choice(nodes[:-1])   # revisit an earlier stop
                else:
                    c = rng.choice(hubs) if rng.chance(0.4) else rng.choice(d.nodes)
                if nodes and c == nodes[-1]:
                    continue
                nodes.append(c)
            if rng.chance(0.7):
                dists = [rng.randint(50, 2000) for _ in range(k - 1)] + ([-1] if rng.chance(0.5) else [])
            elif rng.chance(0.5):
                dists = []
            else:
                dists = [rng.randint(50, 2000) for _ in range(rng.randint(0, k - 1))]
            d.paths.append((pid, l, nodes, dists))
            start = base + rng.randint(-600, 3000)
            for _ in range(rng.randint(1, prof.get("tmax", 3))):
                tid += 1
                t = max(0, start)
                times = []
                for i in range(k):
                    arr = t
                    dwell = rng.choice([0, 0, 0, 20, 30, 60])
                    dep = arr + dwell
                    cb = 0 if rng.chance(prof.get("forbid", 0.1)) else 1
                    cu = 0 if rng.chance(prof.get("forbid", 0.1)) else 1
                    times.append((arr, dep, cb, cu))
                    if prof.get("pos_hops", True):
                        hop = rng.choice([60, 90, 120, 180, 240, 300, 600, rng.randint(1, 900)])
                    else:
                        hop = rng.choice([0, 0, 60, 120, 300, rng.randint(0, 600)])
                    t = dep + hop
                if times[-1][1] >= 115200:
                    tid -= 1
                    continue
                d.trips.append((tid, pid, rng.randint(1, 2), times))
                start += rng.choice([60, 120, 170, 180, 300, 600, 900, rng.randint(1, 1800)])
    if not d.trips:   # make sure there is at least one trip
        p = d.paths[0]
        t = max(0, base)
        times = [(t + 300 * i, t + 300 * i, 1, 1) for i in range(len(p[2]))]
        d.trips.append((1, p[0], 1, times))
    d.scens.append((1, [[1, 2], [], [], [], [], [], [], [], []]))
    d.scens.append((2, [[1], [], [], [], [], [], [], [], []]))
    lines = [l[0] for l in d.lines]
    lists = [[1, 2], [], [], [], [], [], [], [], []]
    k = rng.randint(1, 7)
    if k in (1, 5, 6):
        lists[k] = rng.sample(lines, rng.randint(1, max(1, len(lines) - 1)))
    elif k == 2:
        lists[2] = [rng.randint(1, 2)]
    elif k == 3:
        lists[3] = [rng.randint(1, 2)]
    elif k == 4:
        lists[6] = [rng.randint(0, 2)]
    elif k == 7:
        lists[7] = [rng.randint(1, 2)]
        lists[5] = rng.sample(lines, 1)
    d.scens.append((3, lists))
    return d


def gen_tables(rng, d, prof):
    def table():
        k = rng.choice([1, 1, 2, 2, 3]) if not rng.chance(prof.get("pempty", 0.03)) else 0
        return [(x, rng.choice([0, 0, 60, 120, 300, rng.randint(0, 600)]), rng.randint(0, 800)) for x in rng.sample(d.nodes, k)]
    return table(), table()


def gen_params(rng, d, prof, fwd):
    cs = d.conns()
    deps = [c[4] for c in cs] or [36000]
    arrs = [c[5] for c in cs] or [36000]
    if fwd:
        t = rng.choice(deps) - rng.choice([0, 60, 180, 300, 600, 900, 1800, rng.randint(0, 3600)])
    else:
        t = rng.choice(arrs) + rng.choice([0, 60, 180, 300, 600, 900, 1800, rng.randint(0, 3600)])
    t = max(0, min(115199, t))
    minw = rng.choice(prof.get("minws", [0, 60, 180, 180, 180, 300, rng.randint(0, 600)]))
    maxtt = rng.choice([MAX_INT, MAX_INT, MAX_INT, 7200, 3600, 1800, rng.randint(300, 5000)])
    maxtr = rng.choice([1200, 1200, 600, 300, 120, MAX_INT])
    maxfw = rng.choice(prof.get("maxfws", [-1, -1, -1, 1800, 600, 300, 100]))
    scen = rng.choice([1, 1, 1, 2, 3])
    return dict(scen=scen, time=t, minw=minw, maxtt=maxtt, maxacc=1200, maxegr=1200, maxtr=maxtr, maxfw=maxfw, fwd=1 if fwd else 0)


def rows_text(rows):
    return "%d %s" % (len(rows), " ".join("%d %d %d" % r for r in rows))


def q_text(q):
    return "%d %d %d %d %d %d %d %d %d" % (q["scen"], q["time"], q["minw"], q["maxtt"], q["maxacc"], q["maxegr"], q["maxtr"], q["maxfw"], q["fwd"])


def gen_case(rng, prof, nq):
    d = gen_dataset(rng, prof)
    out = [d.text()]
    for _ in range(nq):
        acc, egr = gen_tables(rng, d, prof)
        fwd = rng.chance(0.5)
        q = gen_params(rng, d, prof, fwd)
        out.append("route %s 0 %s %s" % (q_text(q), rows_text(acc), rows_text(egr)))
        if rng.chance(prof.get("palt", 0.25)):
            out.append("route %s 1 %s %s" % (q_text(q), rows_text(acc), rows_text(egr)))
        if rng.chance(prof.get("pacc", 0.35)):
            out.append("access %s %s" % (q_text(q), rows_text(acc if fwd else egr)))
    out.append("index 1")
    out.append("index 3")
    return "\n".join(out) + "\n"


PROFILES = {
    # the common domain of C03-C05/C08/C09: positive hops, uniform waiting, cap mostly off
    "opt": dict(pos_hops=True, transferable=False, loops=0.15, forbid=0.08, maxfws=[-1, -1, -1, -1, -1, 600]),
    # loop-heavy networks to reach the clean-up rewrites
    "loops": dict(pos_hops=True, transferable=False, loops=0.45, forbid=0.12, nmax=6, lmax=6, tmax=2, pfp=0.3),
    # everything allowed by the C01 domain: zero hops, transferable lines, caps
    "wide": dict(pos_hops=False, transferable=True, loops=0.25, forbid=0.15, minws=[60, 180, 300, 1]),
    # tiny networks
    "tiny": dict(pos_hops=True, transferable=False, nmin=2, nmax=4, lmax=3, loops=0.3, forbid=0.1, pfp=0.4),
}


def gen_batch(outdir, seed, count, nq, profiles=("opt", "loops", "wide", "tiny")):
    os.makedirs(outdir, exist_ok=True)
    rng = Rng(seed)
    files = []
    for i in range(count):
        prof_name = profiles[i % len(profiles)]
        r = rng.fork()
        path = os.path.join(outdir, "g%04d_%s.case" % (i, prof_name))
        with open(path, "w") as f:
            f.write("# seed=%d index=%d profile=%s\n" % (seed, i, prof_name))
            f.write(gen_case(r, PROFILES[prof_name], nq))
        files.append(path)
    return files


if __name__ == "__main__":
    out = sys.argv[1]
    seed = int(sys.argv[2]) if len(sys.argv) > 2 else 1
    count = int(sys.argv[3]) if len(sys.argv) > 3 else 20
    nq = int(sys.argv[4]) if len(sys.argv) > 4 else 20
    print(len(gen_batch(out, seed, count, nq)))
