#!/usr/bin/env python3
"""Translator, stage 3c: two more loops regenerated from the CURRENT sources as Coq statement trees whose conditions
and operands are translated source expressions (as gen_emit.py does for the step-emission loop):

  (A) coq/gen/Rebuild.v - the journey rebuild of Calculator::reverseJourneyStep (reverse_journey.cpp): declarations,
      `while (resultingNodeJourneyStep.hasConnections())` with its body, the access / egress pushes after it
      (type `rskel`, coq/Rebuild.v);
  (B) coq/gen/Alt.v - Calculator::alternativesRouting (alternatives_routing.cpp): counters, the derivation of the
      maximum travel time of the recalculations, the initial combinations, the loop over the combinations with its
      try / catch, duplicate test, pushes and caps, the result (type `askel`, coq/Alt.v).

Proofs/LoopsTie.v proves that the model (Journey.rebuild / Calc.rev_journey; Calc.alt_maxtt / alt_loop /
alternatives) computes what the interpreters compute on THESE trees.

Policy as in gen_guards.py / gen_skel.py / gen_emit.py: what the translator cannot read (unknown statement, unknown
operand, a refactoring - e.g. the max-travel-time computation extracted into a helper function: calls are not followed)
is emitted as the committed tree and reported `fallback` (no alarm by itself)."""
import os, re, sys, json

HERE = os.path.dirname(os.path.abspath(__file__))
sys.path.insert(0, HERE)
import gen_guards as GG
import gen_skel as SK
import gen_emit as GE
from gen_skel import Untranslatable, flat

VERIF = os.path.dirname(HERE)
B, Z = GG.B, GG.Z


def parse_expr(text, ty, atoms):
    return GE.expr(text, ty, atoms)


def first_match(table, text, what):
    """table: list of (regex, function of the match -> Coq term)"""
    for rx, fn in table:
        m = re.match(rx, text)
        if m:
            return fn(m)
    raise Untranslatable("unrecognised %s: %s" % (what, text[:90]))


def write_if_changed(path, text):
    os.makedirs(os.path.dirname(path), exist_ok=True)
    old = open(path).read() if os.path.exists(path) else None
    if old != text:
        with open(path, "w") as fh:
            fh.write(text)
    return old != text


# ------------------------------------------------------------------------------------------------
# (A) rebuild

RB_SRC = "connection_scan_algorithm/src/reverse_journey.cpp"
RB_SIG = "Calculator::reverseJourneyStep("
RB_OUT = os.path.join(VERIF, "coq", "gen", "Rebuild.v")

RB_ATOMS = {
    "resultingNodeJourneyStep.hasConnections()": ("(js_has_conns (rb_cur m))", B),
    "journey.size()": ("(Z.of_nat (length (rb_journey m)))", Z),
    "journey.empty()": ("(negb (nonempty (rb_journey m)))", B),
    "nodesAccess.at(resultingNode.uid).time": ("(x_row_time (row_of (re_node e) (re_acc e)))", Z),
    "nodesAccess.at(resultingNode.uid).distance": ("(x_row_dist (row_of (re_node e) (re_acc e)))", Z),
    "nodesEgress.at(bestEgressNode.value().get().uid).time": ("(x_row_time (row_of (x_best m) (re_egr e)))", Z),
    "nodesEgress.at(bestEgressNode.value().get().uid).distance": ("(x_row_dist (row_of (x_best m) (re_egr e)))", Z),
}


def rb_walk(m):
    args = GE.split_top(m.group(1), ",")
    if len(args) != 3 or args[1] not in ("true", "false"):
        raise Untranslatable("walking JourneyStep with unexpected arguments: " + m.group(0)[:90])
    return "(x_walk %s %s %s)" % (parse_expr(args[0], Z, RB_ATOMS), args[1], parse_expr(args[2], Z, RB_ATOMS))


RB_JSTEP = [
    (r"^resultingNodeJourneyStep$", lambda m: "(rb_cur m)"),
    (r"^reverseAccessJourneysSteps\.at\(resultingNode\.uid\)$", lambda m: "(x_start e)"),
    (r"^reverseJourneysSteps\.at\(bestEgressNode\.value\(\)\.get\(\)\.uid\)$", lambda m: "(re_steps e (x_best m))"),
    (r"^JourneyStep\(std::nullopt,std::nullopt,std::nullopt,(.+)\)$", rb_walk),
]
RB_NODE = [
    (r"^resultingNodeJourneyStep\.getFinalExitConnection\(\)\.value\(\)\.get\(\)\.getArrivalNode\(\)$",
     lambda m: "(x_exit_node (rb_cur m))"),
    (r"^std::nullopt$", lambda m: "None"),
]
OPT_NODE = r"std::optional<std::reference_wrapper<constNode>>"


def rb_statement(text):
    t = flat(text)
    if SK.LOGGING.match(t):
        return None
    if re.match(r"^std::deque<JourneyStep>journey$", t):
        return ("RNewJourney", None)
    if re.match("^" + OPT_NODE + "bestEgressNode$", t):
        return ("RNewBest", None)
    m = re.match(r"^(?:JourneyStep)?resultingNodeJourneyStep=(?!=)(.+)$", t)
    if m:
        return ("RSetCur", first_match(RB_JSTEP, m.group(1), "journey step"))
    m = re.match(r"^bestEgressNode=(?!=)(.+)$", t)
    if m:
        return ("RSetBest", first_match(RB_NODE, m.group(1), "stop"))
    m = re.match(r"^journey\.push_(back|front)\((.+)\)$", t)
    if m:
        return ("RPushBack" if m.group(1) == "back" else "RPushFront", first_match(RB_JSTEP, m.group(2), "journey step"))
    m = re.match(r"^(?:journey\[journey\.size\(\)-1\]|journey\.back\(\))\.copyTransferTimeDistance\((.+)\)$", t)
    if m:
        return ("RCopyWalk", first_match(RB_JSTEP, m.group(1), "journey step"))
    raise Untranslatable("unrecognised statement: " + t[:90])


def rb_convert(nodes, in_loop, loops):
    out = []
    for n in nodes:
        if n[0] == "stmt":
            s = rb_statement(n[1])
            if s is not None:
                out.append(s)
        elif n[0] == "if":
            th, el = rb_convert(n[2], in_loop, loops), rb_convert(n[3], in_loop, loops)
            if th or el:
                out.append(("RIf", parse_expr(flat(n[1]), B, RB_ATOMS), th, el))
        elif n[0] == "while":
            if in_loop:
                raise Untranslatable("nested loop in the rebuild")
            body = rb_convert(n[2], True, loops)
            loops.append(body)
            out.append(("RWhile", parse_expr(flat(n[1]), B, RB_ATOMS)))
        else:
            raise Untranslatable("`%s` in the rebuild" % n[0])
    return out


def rb_emit(nodes, indent):
    pad = "  " * indent
    if not nodes:
        return "RDone"
    n, rest = nodes[0], nodes[1:]
    k = rb_emit(rest, indent)
    if n[0] == "RIf":
        return "RIf (fun e m => %s)\n%s  (%s)\n%s  (%s)\n%s(%s)" % (n[1], pad, rb_emit(n[2], indent + 1), pad, rb_emit(n[3], indent + 1), pad, k)
    if n[0] == "RWhile":
        return "RWhile (fun e m => %s) gen_rebuild_body\n%s(%s)" % (n[1], pad, k)
    if n[1] is None:
        return "%s\n%s(%s)" % (n[0], pad, k)
    return "%s (fun e m => %s)\n%s(%s)" % (n[0], n[1], pad, k)


def rb_translate(src):
    body = GG.fn_body(src, RB_SIG)
    m = re.search(r"if\s*\(\s*reverseAccessJourneysSteps\s*\.\s*count\s*\(\s*resultingNode\s*\.\s*uid\s*\)\s*>\s*0\s*\)", body)
    if not m:
        raise Untranslatable("the block guarded by reverseAccessJourneysSteps.count(resultingNode.uid) > 0 not found")
    k = SK.skip_ws(body, m.end())
    if body[k] != "{":
        raise Untranslatable("block expected")
    nodes = []
    k = SK.skip_ws(body, k + 1)
    found_end = False
    while k < len(body) and body[k] != "}":
        ns, k = SK.parse_stmt(body, k)
        if ns and ns[0][0] == "stmt" and re.match(r"^std::vector<int>\w+=optimizeJourney\(journey\)$", flat(ns[0][1])):
            found_end = True
            break
        nodes += ns
        k = SK.skip_ws(body, k)
    if not found_end:
        raise Untranslatable("call of optimizeJourney(journey) not found after the rebuild")
    loops = []
    tree = rb_convert(nodes, False, loops)
    if len(loops) != 1:
        raise Untranslatable("%d loops in the rebuild, 1 expected" % len(loops))
    return dict(gen_rebuild_body=rb_emit(loops[0], 1), gen_rebuild_skel=rb_emit(tree, 1))


RB_DEFS = [("gen_rebuild_body", "the body of `while (resultingNodeJourneyStep.hasConnections())`"),
           ("gen_rebuild_skel", "from the declaration of `journey` to the call of optimizeJourney")]
RB_HAND = dict(
    gen_rebuild_body="""RIf (fun e m => ((Z.of_nat (length (rb_journey m))) >? 0))
    (RCopyWalk (fun e m => (rb_cur m))
    (RDone))
    (RDone)
  (RPushBack (fun e m => (rb_cur m))
  (RSetBest (fun e m => (x_exit_node (rb_cur m)))
  (RSetCur (fun e m => (re_steps e (x_best m)))
  (RDone))))""",
    gen_rebuild_skel="""RNewJourney
  (RSetCur (fun e m => (x_start e))
  (RNewBest
  (RWhile (fun e m => (js_has_conns (rb_cur m))) gen_rebuild_body
  (RPushFront (fun e m => (x_walk (x_row_time (row_of (re_node e) (re_acc e))) false (x_row_dist (row_of (re_node e) (re_acc e)))))
  (RPushBack (fun e m => (x_walk (x_row_time (row_of (x_best m) (re_egr e))) false (x_row_dist (row_of (x_best m) (re_egr e)))))
  (RDone))))))""")


def rb_regenerate(repo, report):
    origin = "source"
    try:
        defs = rb_translate(GG.strip_c_comments(open(os.path.join(repo, RB_SRC)).read()))
    except (Untranslatable, GG.Untranslatable, ValueError, OSError) as e:
        if RB_HAND is None:
            raise RuntimeError("rebuild: %s, and no committed tree to fall back to" % e)
        origin = "fallback"
        report["fallback"].append("rebuild: %s" % e)
        defs = RB_HAND
    report["functions"]["rebuild"] = origin
    lines = [
        "(* GENERATED by tools/gen_loops.py from /repo's reverse_journey.cpp (Calculator::reverseJourneyStep) - do not edit.",
        "   rebuild: %s *)" % origin,
        "From Coq Require Import List ZArith Bool.",
        "From TrV Require Import Scan Journey.",
        "Require Import TrV.Rebuild.",
        "Local Open Scope Z_scope.",
        "Local Open Scope bool_scope.",
        ""]
    for name, what in RB_DEFS:
        lines += ["(* %s *)" % what, "Definition %s : rskel :=\n  %s." % (name, defs[name]), ""]
    return write_if_changed(RB_OUT, "\n".join(lines))


# ------------------------------------------------------------------------------------------------
# (B) alternativesRouting

AL_SRC = "connection_scan_algorithm/src/alternatives_routing.cpp"
AL_SIG = "Calculator::alternativesRouting("
AL_OUT = os.path.join(VERIF, "coq", "gen", "Alt.v")

ST, LO = "(am_st m)", "(am_l m)"
AL_ZVARS = {"alternativeSequence": ("VSeq", "(a_seq %s)" % ST), "alternativesCalculatedCount": ("VCount", "(a_count %s)" % ST),
            "maxTravelTime": ("VMaxtt", "(al_maxtt %s)" % LO), "maxAlternatives": ("VMaxalt", "(al_maxalt %s)" % LO),
            "lastFoundedAtNum": ("VLastFound", "(al_lastfound %s)" % LO)}
AL_ATOMS = {k: (v[1], Z) for k, v in AL_ZVARS.items()}
AL_ATOMS.update({
    "parameters.getMaxAlternatives()": ("GEN_MAX_ALTERNATIVES", Z),
    "parameters.getMaxValidAlternatives()": ("GEN_MAX_VALID_ALTERNATIVES", Z),
    "parameters.getMinAlternativeMaxTravelTimeSeconds()": ("GEN_ALT_MIN_MAXTT", Z),
    "parameters.getAlternativesMaxAddedTravelTimeSeconds()": ("GEN_ALT_ADDED", Z),
    "parameters.getMaxTotalTravelTimeSeconds()": ("(q_maxtt (ae_p e))", Z),
    "parameters.getTimeOfTrip()": ("(q_time (ae_p e))", Z),
    "parameters.isForwardCalculation()": ("(q_fwd (ae_p e))", B),
    "routingResult.totalTravelTime": ("(rt_ttt (al_first %s))" % LO, Z),
    "routingResult.departureTime": ("(rt_dep (al_first %s))" % LO, Z),
    "alternativeCalcResult.totalTravelTime": ("(rt_ttt (al_res %s))" % LO, Z),
    "foundLines.size()": ("(Z.of_nat (length (al_fl %s)))" % LO, Z),
    "failedCombinations.size()": ("(Z.of_nat (length (a_failed %s)))" % ST, Z),
    "allCombinations.size()": ("(Z.of_nat (length (a_all %s)))" % ST, Z),
    "alreadyFoundLines.count(foundLines)==0": ("(negb (mem_list (al_fl %s) (a_found %s)))" % (LO, ST), B),
    "alreadyCalculatedCombinations.count(newCombination)==0": ("(negb (mem_list (al_nc %s) (a_calculated %s)))" % (LO, ST), B),
    "combinationMatchesWithAtLeastOneFailed": ("(al_flag %s)" % LO, B),
})
RATIO = "parameters.getAlternativesMaxTravelTimeRatio()"

AL_LVARS = {"foundLines": ("LFound", "(al_fl %s)" % LO), "combination": ("LComb", "(al_comb %s)" % LO),
            "newCombination": ("LNew", "(al_nc %s)" % LO), "alternativeParameters.exceptLines": ("LExcept", "(al_ex %s)" % LO)}
AL_LISTS = dict({k: v[1] for k, v in AL_LVARS.items()}, **{
    "exceptLinesFromParameters": "(q_except_lines (ae_p e))",
    "allCombinations.at(i)": "(nth (al_i %s) (a_all %s) nil)" % (LO, ST),
    "allCombinations[i]": "(nth (al_i %s) (a_all %s) nil)" % (LO, ST),
    "routingResult.accept(visitor)": "(route_lines (ae_d e) (al_first %s))" % LO,
    "alternativeCalcResult.accept(alternativeVisitor)": "(route_lines (ae_d e) (al_res %s))" % LO,
})
AL_PUSH = {"allCombinations": "CAll", "failedCombinations": "CFailed"}
AL_SETS = {"alreadyCalculatedCombinations": "CCalculated", "alreadyFoundLines": "CFoundLines"}

LV = r"(?:LineVector|std::vector<std::reference_wrapper<constLine>>)"
AL_BINDINGS = [
    r"^usingLineVector=std::vector<std::reference_wrapper<constLine>>$",
    "^" + LV + r"exceptLinesFromParameters=parameters\.getExceptLines\(\)$",
    r"^std::vector<LineVector>allCombinations$", r"^std::vector<LineVector>failedCombinations$",
    r"^boolcombinationMatchesWithFailed\{false\}$", r"^boolcombinationMatchesWithAtLeastOneFailed\{false\}$",
    r"^std::map<LineVector,bool>alreadyCalculatedCombinations$", r"^std::map<LineVector,bool>alreadyFoundLines$",
    r"^std::map<LineVector,int>foundLinesTravelTimeSeconds$", r"^intmaxTravelTime$",
    r"^SingleCalculationResult&routingResult=\*result\.get\(\)$",
    r"^AlternativesResultalternatives=AlternativesResult\(\)$",
    r"^LineVisitorvisitor=LineVisitor\(\)$", r"^LineVisitoralternativeVisitor=LineVisitor\(\)$",
    r"^Point\*origin=parameters\.getOrigin\(\)$", r"^Point\*dest=parameters\.getDestination\(\)$",
    r"^RouteParametersalternativeParameters=RouteParameters\(std::make_unique<Point>\(origin->latitude,origin->longitude\),std::make_unique<Point>\(dest->latitude,dest->longitude\),parameters\.isWithAlternatives\(\),commonAlternativeParameters\)$",
    r"^SingleCalculationResult&alternativeCalcResult=\*result\.get\(\)$",
    # a map that is only read by the log output
    r"^foundLinesTravelTimeSeconds\[foundLines\]=(?:routingResult|alternativeCalcResult)\.totalTravelTime$",
    r"^inti\{0\}$",
]
COMMON_PARAMS = (r"^CommonParameterscommonAlternativeParameters=CommonParameters\(parameters\.getScenario\(\),parameters\.getTimeOfTrip\(\),"
                 r"parameters\.getMinWaitingTimeSeconds\(\),(.+),parameters\.getMaxAccessWalkingTravelTimeSeconds\(\),"
                 r"parameters\.getMaxEgressWalkingTravelTimeSeconds\(\),parameters\.getMaxTransferWalkingTravelTimeSeconds\(\),"
                 r"parameters\.getMaxFirstWaitingTimeSeconds\(\),parameters\.isForwardCalculation\(\)\)$")
MATCH_FAILED_BODY = ("combinationMatchesWithFailed=true;for(autofailedLine:failedCombination){if(std::find(newCombination.begin(),"
                     "newCombination.end(),failedLine)==newCombination.end()){combinationMatchesWithFailed=false;break;}}"
                     "if(combinationMatchesWithFailed){combinationMatchesWithAtLeastOneFailed=true;break;}")


def ser(nodes):
    out = ""
    for n in nodes:
        if n[0] == "stmt":
            out += flat(n[1]) + ";"
        elif n[0] == "if":
            out += "if(%s){%s}" % (flat(n[1]), ser(n[2])) + ("else{%s}" % ser(n[3]) if n[3] else "")
        elif n[0] in ("for", "while"):
            out += "%s(%s){%s}" % (n[0], flat(n[1]), ser(n[2]))
        elif n[0] in ("break", "continue"):
            out += n[0] + ";"
        else:
            out += "<%s>" % n[0]
    return out


def split_additive(t):
    """top-level terms of a sum: [(sign, text)]"""
    terms, depth, cur, sign = [], 0, "", "+"
    for ch in t:
        if ch in "([":
            depth += 1
        elif ch in ")]":
            depth -= 1
        if ch in "+-" and depth == 0 and cur != "" and not cur.endswith(("*", "/", "?", ":")):
            terms.append((sign, cur))
            cur, sign = "", ch
        else:
            cur += ch
    terms.append((sign, cur))
    return terms


def quarters(text):
    """a float expression built from int sub-expressions, the ratio, + - and ?: -> its exact value times 4"""
    t = GE.strip_parens(text)
    if RATIO not in t:
        return "(4 * %s)" % parse_expr(t, Z, AL_ATOMS)
    if len(GE.split_top(t, "?")) > 1:
        cond, rest = t.split("?", 1)
        parts = GE.split_top(rest, ":")
        return "(if %s then %s else %s)" % (parse_expr(cond, B, AL_ATOMS), quarters(parts[0]), quarters(":".join(parts[1:])))
    terms = split_additive(t)
    if len(terms) > 1:
        out = None
        for sign, term in terms:
            q = quarters(term)
            out = (q if sign == "+" else "(- %s)" % q) if out is None else "(%s %s %s)" % (out, sign, q)
        return out
    if t.startswith(RATIO + "*"):
        return "(GEN_ALT_RATIO_QUARTERS * %s)" % parse_expr(t[len(RATIO) + 1:], Z, AL_ATOMS)
    if t.endswith("*" + RATIO):
        return "(GEN_ALT_RATIO_QUARTERS * %s)" % parse_expr(t[:-len(RATIO) - 1], Z, AL_ATOMS)
    raise Untranslatable("the ratio is used in an expression that is not ratio * int: " + t[:80])


def al_zexpr(text):
    t = GE.strip_parens(text)
    m = re.match(r"^std::(min|max)\((.+)\)$", t)
    if m and len(GE.split_top(m.group(2), ",")) == 2:
        a, b = GE.split_top(m.group(2), ",")
        return "(Z.%s %s %s)" % (m.group(1), al_zexpr(a), al_zexpr(b))
    if RATIO in t:
        # a float value converted to int: truncation toward zero of the exact value (quarters / 4)
        return "(Z.quot %s 4)" % quarters(t)
    return parse_expr(t, Z, AL_ATOMS)


def al_list(text):
    if text in AL_LISTS:
        return AL_LISTS[text]
    raise Untranslatable("unrecognised list of lines: " + text[:80])


def al_statement(text):
    """-> list of (constructor, args...); [] for bindings / logging"""
    t = flat(text)
    if SK.LOGGING.match(t):
        return []
    for rx in AL_BINDINGS:
        if re.match(rx, t):
            return []
    if re.match(r"^std::unique_ptr<SingleCalculationResult>result=calculateSingle\(parameters\)$", t):
        return [("ACalcFirst",)]
    m = re.match(COMMON_PARAMS, t)
    if m:
        return [("ANewAltParams", al_zexpr(m.group(1)))]
    if t == "alternatives.alternatives.push_back(std::move(result))":
        return [("APushRoute", "(al_res %s)" % LO)]
    m = re.match(r"^alternatives\.totalAlternativesCalculated=(?!=)(.+)$", t)
    if m:
        return [("AResultCount", al_zexpr(m.group(1)))]
    m = re.match(r"^std::stable_sort\((.+)\.begin\(\),(.+)\.end\(\)\)$", t)
    if m and m.group(1) == m.group(2) and m.group(1) in AL_LVARS:
        v = AL_LVARS[m.group(1)]
        return [("ASetList", v[0], "(sort_nat %s)" % v[1])]
    m = re.match(r"^std::copy\((.+)\.begin\(\),(.+)\.end\(\),std::back_inserter\((.+)\)\)$", t)
    if m and m.group(1) == m.group(2) and m.group(3) in AL_LVARS:
        v = AL_LVARS[m.group(3)]
        return [("ASetList", v[0], "(%s ++ %s)" % (v[1], al_list(m.group(1))))]
    m = re.match(r"^(\w+)\.push_back\((.+)\)$", t)
    if m and m.group(1) in AL_PUSH:
        return [("APush", AL_PUSH[m.group(1)], al_list(m.group(2)))]
    m = re.match(r"^(\w+)\[(.+)\]=true$", t)
    if m and m.group(1) in AL_SETS:
        return [("APush", AL_SETS[m.group(1)], al_list(m.group(2)))]
    m = re.match(r"^(?:const)?" + LV + r"?([\w.]+)=(?!=)(.+)$", t)
    if m and m.group(1) in AL_LVARS:
        return [("ASetList", AL_LVARS[m.group(1)][0], al_list(m.group(2)))]
    m = re.match(r"^(?:int)?(\w+)(\+=|-=|=)(?!=)(.+)$", t)
    if m and m.group(1) in AL_ZVARS:
        var, old = AL_ZVARS[m.group(1)]
        rhs = al_zexpr(m.group(3))
        if m.group(2) != "=":
            rhs = "(%s %s %s)" % (old, m.group(2)[0], rhs)
        return [("ASetZ", var, rhs)]
    m = re.match(r"^(?:(\w+)\+\+|\+\+(\w+))$", t)
    if m and (m.group(1) or m.group(2)) in AL_ZVARS:
        var, old = AL_ZVARS[m.group(1) or m.group(2)]
        return [("ASetZ", var, "(%s + 1)" % old)]
    raise Untranslatable("unrecognised statement: " + t[:90])


def al_convert(nodes):
    out = []
    k = 0
    while k < len(nodes):
        n = nodes[k]
        nxt = nodes[k + 1] if k + 1 < len(nodes) else None
        if n[0] == "stmt":
            if flat(n[1]) == "combinationMatchesWithAtLeastOneFailed=false" and nxt and nxt[0] == "for" \
                    and flat(nxt[1]) == "autofailedCombination:failedCombinations":
                if ser(nxt[2]) != MATCH_FAILED_BODY:
                    raise Untranslatable("the loops that compare a new combination with the failed ones are not the expected ones")
                out.append(("AMatchFailed",))
                k += 2
                continue
            out += al_statement(n[1])
        elif n[0] == "if":
            th, el = al_convert(n[2]), al_convert(n[3])
            if th or el:
                out.append(("AIf", parse_expr(flat(n[1]), B, AL_ATOMS), th, el))
        elif n[0] == "try":
            body = n[1]
            if not body or body[0][0] != "stmt" or flat(body[0][1]) != "result=calculateSingle(alternativeParameters,false,true)":
                raise Untranslatable("`try` does not start with result = calculateSingle(alternativeParameters, false, true)")
            if len(n[2]) != 1 or not re.match(r"^NoRoutingFoundException&\w*$", flat(n[2][0][0])):
                raise Untranslatable("unexpected exception handlers")
            out.append(("ATryCalc", al_convert(body[1:]), al_convert(n[2][0][1])))
        elif n[0] == "for":
            h = flat(n[1])
            m = re.match(r"^size_tk=1;k<=(\w+)\.size\(\);(?:k\+\+|\+\+k)$", h)
            if h in ("size_ti=0;i<allCombinations.size();i++", "size_ti=0;i<allCombinations.size();++i"):
                out.append(("AForAll", al_convert(n[2])))
            elif m:
                src, b = m.group(1), n[2]
                if len(b) != 2 or b[0][0] != "stmt" or b[1][0] != "for" or flat(b[1][1]) != "autonewCombination:combinations" \
                        or flat(b[0][1]) != "Combinations<std::reference_wrapper<constLine>>combinations(%s,k)" % src:
                    raise Untranslatable("unexpected loop over the combinations of " + src)
                out.append(("AForCombs", al_list(src), al_convert(b[1][2]), None))
            elif h == "autoline:combination" and ser(n[2]) == "alternativeParameters.exceptLines.push_back(line);":
                v = AL_LVARS["alternativeParameters.exceptLines"]
                out.append(("ASetList", v[0], "(%s ++ %s)" % (v[1], AL_LISTS["combination"])))
            elif re.match(r"^auto\w+:\w+$", h):
                # a loop that only logs (and counts what it logs) does nothing
                rest = [b for b in n[2] if not (b[0] == "stmt" and (SK.LOGGING.match(flat(b[1])) or flat(b[1]) == "i++"))]
                if rest:
                    raise Untranslatable("unrecognised loop: for(%s)" % h[:80])
            else:
                raise Untranslatable("unrecognised loop: for(%s)" % h[:80])
        else:
            raise Untranslatable("`%s` in alternativesRouting" % n[0])
        k += 1
    return out


def al_emit(nodes, indent):
    pad = "  " * indent
    if not nodes:
        return "ADone"
    n, rest = nodes[0], nodes[1:]
    k = al_emit(rest, indent)
    fn = lambda x: "(fun e m => %s)" % x
    sub = lambda x: al_emit(x, indent + 1)
    c = n[0]
    if c in ("ACalcFirst", "AMatchFailed"):
        return "%s\n%s(%s)" % (c, pad, k)
    if c in ("ANewAltParams", "APushRoute", "AResultCount"):
        return "%s %s\n%s(%s)" % (c, fn(n[1]), pad, k)
    if c in ("ASetZ", "ASetList", "APush"):
        return "%s %s %s\n%s(%s)" % (c, n[1], fn(n[2]), pad, k)
    if c == "AIf":
        return "AIf %s\n%s  (%s)\n%s  (%s)\n%s(%s)" % (fn(n[1]), pad, sub(n[2]), pad, sub(n[3]), pad, k)
    if c == "ATryCalc":
        return "ATryCalc\n%s  (%s)\n%s  (%s)\n%s(%s)" % (pad, sub(n[1]), pad, sub(n[2]), pad, k)
    if c == "AForCombs":
        if n[3] is None:
            raise Untranslatable("a loop over new combinations in an unexpected place")
        return "AForCombs %s %s\n%s(%s)" % (fn(n[1]), n[3], pad, k)
    if c == "AForAll":
        return "AForAll gen_alt_body\n%s(%s)" % (pad, k)
    if c == "ASeq":
        return "ASeq %s\n%s(%s)" % (n[1], pad, k)
    raise Untranslatable("unexpected node " + c)


def name_combs(nodes, name, defs):
    """the single loop over new combinations inside `nodes` (searched through if / try) is emitted as the definition
    `name`; returns the list with that loop referring to the name"""
    count = [0]

    def rec(ns):
        out = []
        for n in ns:
            if n[0] == "AForCombs":
                count[0] += 1
                defs[name] = al_emit(n[2], 1)
                out.append((n[0], n[1], n[2], name))
            elif n[0] == "AIf":
                out.append((n[0], n[1], rec(n[2]), rec(n[3])))
            elif n[0] == "ATryCalc":
                out.append((n[0], rec(n[1]), rec(n[2])))
            else:
                out.append(n)
        return out

    res = rec(nodes)
    if count[0] != 1:
        raise Untranslatable("%d loops over new combinations where 1 is expected (%s)" % (count[0], name))
    return res


def writes_maxtt(n):
    if n[0] == "ASetZ":
        return n[1] == "VMaxtt"
    if n[0] == "AIf":
        return bool(n[2] + n[3]) and all(writes_maxtt(x) for x in n[2] + n[3])
    return n[0] == "ANewAltParams"


def al_translate(src):
    body = GG.fn_body(src, AL_SIG)
    nodes = []
    k = SK.skip_ws(body, 1)
    returned = False
    while k < len(body) and body[k] != "}":
        if SK.keyword_at(body, k, "return"):
            j = body.index(";", k)
            if flat(body[k:j]) != "returnalternatives":
                raise Untranslatable("unexpected return")
            returned = True
            k = SK.skip_ws(body, j + 1)
            if body[k] != "}":
                raise Untranslatable("statements after the return")
            break
        ns, k = SK.parse_stmt(body, k)
        nodes += ns
        k = SK.skip_ws(body, k)
    if not returned:
        raise Untranslatable("`return alternatives` not found")
    tree = al_convert(nodes)
    loops = [i for i, n in enumerate(tree) if n[0] == "AForAll"]
    if len(loops) != 1:
        raise Untranslatable("%d loops over allCombinations at the top level, 1 expected" % len(loops))
    if not any(n[0] == "AResultCount" for n in tree):
        raise Untranslatable("totalAlternativesCalculated is not assigned")
    defs = {}
    loop_body = name_combs(tree[loops[0]][1], "gen_alt_new_comb", defs)
    top = name_combs(tree[:loops[0]], "gen_alt_init_comb", defs) + [tree[loops[0]]] + tree[loops[0] + 1:]
    # the derivation of the maximum travel time: the top-level statements that write maxTravelTime, up to the construction
    # of the recalculation parameters
    idx = [i for i, n in enumerate(top) if writes_maxtt(n)]
    if not idx or idx != list(range(idx[0], idx[-1] + 1)) or top[idx[-1]][0] != "ANewAltParams" \
            or sum(1 for i in idx if top[i][0] == "ANewAltParams") != 1:
        raise Untranslatable("the statements that derive maxTravelTime are not one group ending with the construction of the recalculation parameters")
    defs["gen_alt_maxtt"] = al_emit(top[idx[0]:idx[-1] + 1], 1)
    top = top[:idx[0]] + [("ASeq", "gen_alt_maxtt")] + top[idx[-1] + 1:]
    defs["gen_alt_body"] = al_emit(loop_body, 1)
    defs["gen_alt_skel"] = al_emit(top, 1)
    return defs


AL_DEFS = [("gen_alt_new_comb", "the body of `for (auto newCombination : combinations)` inside the loop"),
           ("gen_alt_init_comb", "the body of `for (auto newCombination : combinations)` before the loop"),
           ("gen_alt_maxtt", "the maximum travel time of the recalculations, and the parameters constructed with it"),
           ("gen_alt_body", "the body of `for (size_t i = 0; i < allCombinations.size(); i++)`"),
           ("gen_alt_skel", "the whole function")]
AL_HAND = dict(
    gen_alt_new_comb="""ASetList LNew (fun e m => ((al_nc (am_l m)) ++ (al_comb (am_l m))))
  (ASetList LNew (fun e m => (sort_nat (al_nc (am_l m))))
  (AIf (fun e m => (negb (mem_list (al_nc (am_l m)) (a_calculated (am_st m)))))
    (AMatchFailed
    (AIf (fun e m => (negb (al_flag (am_l m))))
      (APush CAll (fun e m => (al_nc (am_l m)))
      (ADone))
      (ADone)
    (APush CCalculated (fun e m => (al_nc (am_l m)))
    (ADone))))
    (ADone)
  (ADone)))""",
    gen_alt_init_comb="""ASetList LNew (fun e m => (sort_nat (al_nc (am_l m))))
  (APush CAll (fun e m => (al_nc (am_l m)))
  (APush CCalculated (fun e m => (al_nc (am_l m)))
  (ADone)))""",
    gen_alt_maxtt="""ASetZ VMaxtt (fun e m => (Z.quot ((GEN_ALT_RATIO_QUARTERS * (rt_ttt (al_first (am_l m)))) + (4 * (if (q_fwd (ae_p e)) then ((rt_dep (al_first (am_l m))) - (q_time (ae_p e))) else 0))) 4))
  (AIf (fun e m => ((al_maxtt (am_l m)) <? GEN_ALT_MIN_MAXTT))
    (ASetZ VMaxtt (fun e m => GEN_ALT_MIN_MAXTT)
    (ADone))
    (AIf (fun e m => ((al_maxtt (am_l m)) >? ((rt_ttt (al_first (am_l m))) + GEN_ALT_ADDED)))
      (ASetZ VMaxtt (fun e m => ((rt_ttt (al_first (am_l m))) + GEN_ALT_ADDED))
      (ADone))
      (ADone)
    (ADone))
  (ASetZ VMaxtt (fun e m => (Z.min (al_maxtt (am_l m)) (q_maxtt (ae_p e))))
  (ANewAltParams (fun e m => (al_maxtt (am_l m)))
  (ADone))))""",
    gen_alt_body="""AIf (fun e m => (((a_count (am_st m)) <? (al_maxalt (am_l m))) && (((a_seq (am_st m)) - 1) <? GEN_MAX_VALID_ALTERNATIVES)))
    (ASetList LComb (fun e m => (nth (al_i (am_l m)) (a_all (am_st m)) nil))
    (ASetList LExcept (fun e m => (q_except_lines (ae_p e)))
    (ASetList LExcept (fun e m => ((al_ex (am_l m)) ++ (al_comb (am_l m))))
    (ATryCalc
      (ASetList LFound (fun e m => (route_lines (ae_d e) (al_res (am_l m))))
      (ASetList LFound (fun e m => (sort_nat (al_fl (am_l m))))
      (AIf (fun e m => (((Z.of_nat (length (al_fl (am_l m)))) >? 0) && (negb (mem_list (al_fl (am_l m)) (a_found (am_st m))))))
        (APushRoute (fun e m => (al_res (am_l m)))
        (ASetZ VLastFound (fun e m => (a_count (am_st m)))
        (APush CFoundLines (fun e m => (al_fl (am_l m)))
        (AForCombs (fun e m => (al_fl (am_l m))) gen_alt_new_comb
        (ASetZ VSeq (fun e m => ((a_seq (am_st m)) + 1))
        (ADone))))))
        (ADone)
      (ADone))))
      (APush CFailed (fun e m => (al_comb (am_l m)))
      (ADone))
    (ASetZ VCount (fun e m => ((a_count (am_st m)) + 1))
    (ADone))))))
    (ADone)
  (ADone)""",
    gen_alt_skel="""ASetZ VSeq (fun e m => 1)
  (ASetZ VCount (fun e m => 1)
  (ASetZ VMaxalt (fun e m => GEN_MAX_ALTERNATIVES)
  (ASetZ VLastFound (fun e m => 0)
  (ACalcFirst
  (APushRoute (fun e m => (al_res (am_l m)))
  (ASetZ VSeq (fun e m => ((a_seq (am_st m)) + 1))
  (ASetZ VCount (fun e m => ((a_count (am_st m)) + 1))
  (ASeq gen_alt_maxtt
  (ASetList LFound (fun e m => (route_lines (ae_d e) (al_first (am_l m))))
  (ASetList LFound (fun e m => (sort_nat (al_fl (am_l m))))
  (APush CFoundLines (fun e m => (al_fl (am_l m)))
  (ASetZ VLastFound (fun e m => 1)
  (AForCombs (fun e m => (al_fl (am_l m))) gen_alt_init_comb
  (AForAll gen_alt_body
  (AResultCount (fun e m => (a_count (am_st m)))
  (ADone))))))))))))))))""")


def al_regenerate(repo, report):
    origin = "source"
    try:
        defs = al_translate(GG.strip_c_comments(open(os.path.join(repo, AL_SRC)).read()))
    except (Untranslatable, GG.Untranslatable, ValueError, OSError) as e:
        if AL_HAND is None:
            raise RuntimeError("alternatives: %s, and no committed tree to fall back to" % e)
        origin = "fallback"
        report["fallback"].append("alternatives: %s" % e)
        defs = AL_HAND
    report["functions"]["alternatives"] = origin
    lines = [
        "(* GENERATED by tools/gen_loops.py from /repo's alternatives_routing.cpp (Calculator::alternativesRouting) - do not edit.",
        "   alternatives: %s *)" % origin,
        "From Coq Require Import List ZArith Bool.",
        "From TrV Require Import gen.Consts Scan Journey Calc.",
        "Require Import TrV.Alt.",
        "Local Open Scope Z_scope.",
        "Local Open Scope bool_scope.",
        ""]
    for name, what in AL_DEFS:
        lines += ["(* %s *)" % what, "Definition %s : askel :=\n  %s." % (name, defs[name]), ""]
    return write_if_changed(AL_OUT, "\n".join(lines))


# ------------------------------------------------------------------------------------------------
# (C) the all-nodes result builders

AN_OUT = os.path.join(VERIF, "coq", "gen", "AllNodes.v")
AN_COMMON = {
    "resultingNodeJourneyStep.hasConnections()": ("(js_has_conns (nb_cur m))", B),
    "journeyStep.hasConnections()": ("(js_has_conns (nb_step m))", B),
    "journey.size()": ("(Z.of_nat (length (nb_journey m)))", Z),
    "departureTimeSeconds": ("(k_dep (ne_k e))", Z),
    "arrivalTimeSeconds": ("(k_arr (ne_k e))", Z),
    "parameters.getMaxTotalTravelTimeSeconds()": ("(q_maxtt (ne_p e))", Z),
    "numberOfTransfers": ("(nb_ntr m)", Z),
    "arrivalTime": ("(nb_time m)", Z),
    "departureTimeD": ("(nb_time m)", Z),
    "nodesEgress.at(bestEgressNode.value().get().uid).time": ("(x_row_time (row_of (x_best m) (k_egrfp (ne_k e))))", Z),
    "nodesEgress.at(bestEgressNode.value().get().uid).distance": ("(x_row_dist (row_of (x_best m) (k_egrfp (ne_k e))))", Z),
}
FE, RA = "forwardEgressJourneysSteps", "reverseAccessJourneysSteps"
AN_FUNCS = [
    dict(prefix="fwdall", file="connection_scan_algorithm/src/forward_journey.cpp", sig="Calculator::forwardJourneyStepAllNodes(",
         labels=FE, steps="forwardJourneysSteps", best="bestAccessNode",
         atoms=dict(AN_COMMON, **{
             FE + ".count(resultingNode.uid)==0": ("(negb (is_some (ne_labels e (ne_node e))))", B),
             FE + ".at(resultingNode.uid).getFinalEnterConnection().has_value()": ("(is_some (js_enter (x_label e)))", B),
             FE + ".at(resultingNode.uid).getFinalExitConnection().value().get().getArrivalTime()": ("(x_exit_arr (x_label e))", Z),
             "journeyStepTrip.line.mode.isTransferable()": ("(x_cur_transferable e m)", B)}),
         bindings=[r"^constTrip&journeyStepTrip=resultingNodeJourneyStep\.getFinalTrip\(\)\.value\(\)\.get\(\)$"],
         node=[(r"^resultingNodeJourneyStep\.getFinalEnterConnection\(\)\.value\(\)\.get\(\)\.getDepartureNode\(\)$", "(x_enter_node (nb_cur m))")]),
    dict(prefix="revall", file="connection_scan_algorithm/src/reverse_journey.cpp", sig="Calculator::reverseJourneyStepAllNodes(",
         labels=RA, steps="reverseJourneysSteps", best="bestEgressNode",
         atoms=dict(AN_COMMON, **{
             RA + ".count(resultingNode.uid)==0": ("(negb (is_some (ne_labels e (ne_node e))))", B),
             RA + ".at(resultingNode.uid).getFinalEnterConnection().has_value()": ("(is_some (js_enter (x_label e)))", B),
             RA + ".at(resultingNode.uid).getFinalEnterConnection().value().get().getDepartureTime()": ("(x_enter_dep (x_label e))", Z),
             RA + ".at(resultingNode.uid).getFinalEnterConnection().value().get().getMinWaitingTimeOrDefault(parameters.getMinWaitingTimeSeconds())": ("(x_enter_minw (ne_p e) (x_label e))", Z),
             "journeyStepTrip.line.mode.isTransferable()": ("(x_step_transferable e m)", B)}),
         bindings=[r"^constTrip&journeyStepTrip=journeyStep\.getFinalTrip\(\)\.value\(\)\.get\(\)$"],
         node=[(r"^resultingNodeJourneyStep\.getFinalExitConnection\(\)\.value\(\)\.get\(\)\.getArrivalNode\(\)$", "(x_exit_node (nb_cur m))")]),
]
# sub-expressions that throw where the model has an outcome for it: (text, condition under which they do not, exception)
AN_THROWS = [("bestEgressNode.value()", "(is_some (nb_best m))", "X_BAD_OPTIONAL"),
             ("nodesEgress.at(bestEgressNode.value().get().uid)", "(is_some (row_of (x_best m) (k_egrfp (ne_k e))))", "X_OUT_OF_RANGE")]


def an_jstep(f, text):
    if text == "resultingNodeJourneyStep":
        return "(nb_cur m)"
    if text == f["labels"] + ".at(resultingNode.uid)":
        return "(x_label e)"
    if text == "%s.at(%s.value().get().uid)" % (f["steps"], f["best"]):
        return "(ne_steps e (x_best m))"
    m = re.match(r"^JourneyStep\(std::nullopt,std::nullopt,std::nullopt,(.+)\)$", text)
    if m:
        args = GE.split_top(m.group(1), ",")
        if len(args) == 3 and args[1] in ("true", "false"):
            return "(x_walk %s %s %s)" % (parse_expr(args[0], Z, f["atoms"]), args[1], parse_expr(args[2], Z, f["atoms"]))
    raise Untranslatable("unrecognised journey step: " + text[:90])


def an_statement(f, text, in_loop):
    """-> list of nodes"""
    t = flat(text)
    if SK.LOGGING.match(t):
        return []
    for rx in f["bindings"] + [r"^constNode&resultingNode=nodeIte->second$"]:
        if re.match(rx, t):
            return []
    checks = []
    if not in_loop:
        checks = [("NCheck", cond, exn) for sub, cond, exn in AN_THROWS if sub in t]
    if re.match(r"^std::deque<JourneyStep>journey$", t):
        return [("NNewJourney",)]
    if re.match("^" + OPT_NODE + f["best"] + "$", t):
        return [("NSetBest", "None")]
    m = re.match(r"^(?:JourneyStep)?resultingNodeJourneyStep=(?!=)(.+)$", t)
    if m:
        return checks + [("NSetCur", an_jstep(f, m.group(1)))]
    m = re.match("^" + f["best"] + r"=(?!=)(.+)$", t)
    if m:
        for rx, term in f["node"]:
            if re.match(rx, m.group(1)):
                return [("NSetBest", term)]
        raise Untranslatable("unrecognised stop: " + m.group(1)[:80])
    m = re.match(r"^journey\.push_back\((.+)\)$", t)
    if m:
        return checks + [("NPushBack", an_jstep(f, m.group(1)))]
    m = re.match(r"^(?:journey\[journey\.size\(\)-1\]|journey\.back\(\))\.copyTransferTimeDistance\((.+)\)$", t)
    if m:
        return [("NCopyWalk", an_jstep(f, m.group(1)))]
    if re.match(r"^std::vector<int>\w+=optimizeJourney\(journey\)$", t):
        return [("NOptimize",)]
    m = re.match(r"^int(?:arrivalTime|departureTimeD)=(?!=)(.+)$", t)
    if m:
        return [("NSetTime", parse_expr(m.group(1), Z, f["atoms"]))]
    m = re.match(r"^(?:int)?numberOfTransfers(?:(\+=|-=|=)(?!=)(.+)|\{(.+)\})$", t)
    if m:
        if m.group(3) is not None:
            return [("NSetNtr", parse_expr(m.group(3), Z, f["atoms"]))]
        rhs = parse_expr(m.group(2), Z, f["atoms"])
        if m.group(1) != "=":
            rhs = "((nb_ntr m) %s %s)" % (m.group(1)[0], rhs)
        return [("NSetNtr", rhs)]
    if t in ("reachableNodesCount++", "++reachableNodesCount", "reachableNodesCount+=1"):
        return [("NIncCount",)]
    m = re.match(r"^AccessibleNodesnode=AccessibleNodes\((.+)\)$", t)
    if m:
        args = GE.split_top(m.group(1), ",")
        if len(args) != 4 or args[0] != "resultingNode":
            raise Untranslatable("AccessibleNodes with unexpected arguments")
        a = [parse_expr(x, Z, f["atoms"]) for x in args[1:]]
        return [("NMakeNode", "{| an_node := ne_node e; an_time := %s; an_ttt := %s; an_ntr := %s |}" % tuple(a))]
    if t == "allNodesResult.get()->nodes.push_back(node)":
        return [("NPushNode",)]
    raise Untranslatable("unrecognised statement: " + t[:90])


def an_convert(f, nodes, in_loop, names):
    out = []
    for n in nodes:
        if n[0] == "stmt":
            out += an_statement(f, n[1], in_loop)
        elif n[0] == "if":
            th, el = an_convert(f, n[2], in_loop, names), an_convert(f, n[3], in_loop, names)
            if th or el:
                out.append(("NIf", parse_expr(flat(n[1]), B, f["atoms"]), th, el))
        elif n[0] == "while":
            if in_loop:
                raise Untranslatable("nested loop")
            names["gen_%s_walk" % f["prefix"]] = an_convert(f, n[2], True, names)
            out.append(("NWhile", parse_expr(flat(n[1]), B, f["atoms"]), "gen_%s_walk" % f["prefix"]))
        elif n[0] == "for" and re.match(r"^auto&journeyStep:journey$", flat(n[1])) and not in_loop:
            names["gen_%s_count" % f["prefix"]] = an_convert(f, n[2], True, names)
            out.append(("NForJourney", "gen_%s_count" % f["prefix"]))
        elif n[0] == "continue":
            out.append(("NContinue",))
        else:
            raise Untranslatable("`%s` in the all-nodes loop" % n[0])
    return out


def an_emit(nodes, indent):
    pad = "  " * indent
    if not nodes:
        return "NDone"
    n, rest = nodes[0], nodes[1:]
    c = n[0]
    if c == "NContinue":
        if rest:
            raise Untranslatable("statements after `continue`")
        return "NContinue"
    k = an_emit(rest, indent)
    fn = lambda x: "(fun e m => %s)" % x
    if c in ("NNewJourney", "NOptimize", "NIncCount", "NPushNode"):
        return "%s\n%s(%s)" % (c, pad, k)
    if c in ("NSetNtr", "NSetCur", "NSetBest", "NPushBack", "NCopyWalk", "NSetTime", "NMakeNode"):
        return "%s %s\n%s(%s)" % (c, fn(n[1]), pad, k)
    if c == "NCheck":
        return "NCheck %s %s\n%s(%s)" % (fn(n[1]), n[2], pad, k)
    if c == "NIf":
        return "NIf %s\n%s  (%s)\n%s  (%s)\n%s(%s)" % (fn(n[1]), pad, an_emit(n[2], indent + 1), pad, an_emit(n[3], indent + 1), pad, k)
    if c == "NWhile":
        return "NWhile %s %s\n%s(%s)" % (fn(n[1]), n[2], pad, k)
    if c == "NForJourney":
        return "NForJourney %s\n%s(%s)" % (n[1], pad, k)
    raise Untranslatable("unexpected node " + c)


AN_LOOP = r"^autonodeIte=transitData\.getNodes\(\)\.begin\(\);nodeIte!=transitData\.getNodes\(\)\.end\(\);(?:nodeIte\+\+|\+\+nodeIte)$"
AN_PROLOGUE = [r"^std::unique_ptr<AllNodesResult>allNodesResult=std::make_unique<AllNodesResult>\(\)$", r"^intnodesCount\{1\}$",
               r"^intreachableNodesCount\{0\}$", r"^(?:int)?nodesCount=transitData\.getNodes\(\)\.size\(\)$"]
AN_EPILOGUE = [r"^allNodesResult\.get\(\)->numberOfReachableNodes=reachableNodesCount$",
               r"^allNodesResult\.get\(\)->totalNodeCount=nodesCount$"]


def an_translate(f, src):
    body = GG.fn_body(src, f["sig"])
    k = SK.skip_ws(body, 1)
    loop, before, after = None, [], []
    while k < len(body) and body[k] != "}":
        if SK.keyword_at(body, k, "return"):
            j = body.index(";", k)
            if flat(body[k:j]) != "returnallNodesResult":
                raise Untranslatable("unexpected return")
            break
        ns, k = SK.parse_stmt(body, k)
        for n in ns:
            if n[0] == "for" and re.match(AN_LOOP, flat(n[1])) and loop is None:
                loop = n
            elif n[0] == "stmt":
                (before if loop is None else after).append(flat(n[1]))
            else:
                raise Untranslatable("`%s` outside the loop over the stops" % n[0])
        k = SK.skip_ws(body, k)
    if loop is None:
        raise Untranslatable("loop over transitData.getNodes() not found")
    for t in before:
        if not (SK.LOGGING.match(t) or any(re.match(rx, t) for rx in AN_PROLOGUE)):
            raise Untranslatable("unrecognised statement before the loop: " + t[:80])
    for t in after:
        if not (SK.LOGGING.match(t) or any(re.match(rx, t) for rx in AN_EPILOGUE)):
            raise Untranslatable("unrecognised statement after the loop: " + t[:80])
    for rx in AN_EPILOGUE + [AN_PROLOGUE[3]]:
        if not any(re.match(rx, t) for t in before + after):
            raise Untranslatable("the counts of the result are not assigned as expected")
    names = {}
    tree = an_convert(f, loop[2], False, names)
    if "gen_%s_walk" % f["prefix"] not in names:
        raise Untranslatable("the walk over the labels was not found")
    defs = {name: an_emit(nodes, 1) for name, nodes in names.items()}
    defs["gen_%s_stop" % f["prefix"]] = an_emit(tree, 1)
    return defs


AN_DEFS = {"fwdall": [("gen_fwdall_walk", "the body of the backwards walk over the labels"),
                      ("gen_fwdall_stop", "the body of the loop over the stops")],
           "revall": [("gen_revall_walk", "the body of the journey rebuild"),
                      ("gen_revall_count", "the body of the count over the optimised journey"),
                      ("gen_revall_stop", "the body of the loop over the stops")]}
AN_HAND = dict(
    fwdall=dict(
        gen_fwdall_walk="""NIf (fun e m => (negb (x_cur_transferable e m)))
    (NSetNtr (fun e m => ((nb_ntr m) + 1))
    (NDone))
    (NDone)
  (NSetBest (fun e m => (x_enter_node (nb_cur m)))
  (NSetCur (fun e m => (ne_steps e (x_best m)))
  (NDone)))""",
        gen_fwdall_stop="""NSetNtr (fun e m => (-1))
  (NIf (fun e m => (negb (is_some (ne_labels e (ne_node e)))))
    (NContinue)
    (NDone)
  (NSetCur (fun e m => (x_label e))
  (NSetBest (fun e m => None)
  (NWhile (fun e m => (js_has_conns (nb_cur m))) gen_fwdall_walk
  (NIf (fun e m => (is_some (js_enter (x_label e))))
    (NSetTime (fun e m => (x_exit_arr (x_label e)))
    (NIf (fun e m => (((nb_time m) - (k_dep (ne_k e))) <=? (q_maxtt (ne_p e))))
      (NIncCount
      (NMakeNode (fun e m => {| an_node := ne_node e; an_time := (nb_time m); an_ttt := ((nb_time m) - (k_dep (ne_k e))); an_ntr := (nb_ntr m) |})
      (NPushNode
      (NDone))))
      (NDone)
    (NDone)))
    (NDone)
  (NDone))))))"""),
    revall=dict(
        gen_revall_walk="""NIf (fun e m => ((Z.of_nat (length (nb_journey m))) >? 0))
    (NCopyWalk (fun e m => (nb_cur m))
    (NDone))
    (NDone)
  (NPushBack (fun e m => (nb_cur m))
  (NSetBest (fun e m => (x_exit_node (nb_cur m)))
  (NSetCur (fun e m => (ne_steps e (x_best m)))
  (NDone))))""",
        gen_revall_count="""NIf (fun e m => (js_has_conns (nb_step m)))
    (NIf (fun e m => (negb (x_step_transferable e m)))
      (NSetNtr (fun e m => ((nb_ntr m) + 1))
      (NDone))
      (NDone)
    (NDone))
    (NDone)
  (NDone)""",
        gen_revall_stop="""NNewJourney
  (NIf (fun e m => (negb (is_some (ne_labels e (ne_node e)))))
    (NContinue)
    (NDone)
  (NSetCur (fun e m => (x_label e))
  (NSetBest (fun e m => None)
  (NWhile (fun e m => (js_has_conns (nb_cur m))) gen_revall_walk
  (NCheck (fun e m => (is_some (nb_best m))) X_BAD_OPTIONAL
  (NCheck (fun e m => (is_some (row_of (x_best m) (k_egrfp (ne_k e))))) X_OUT_OF_RANGE
  (NPushBack (fun e m => (x_walk (x_row_time (row_of (x_best m) (k_egrfp (ne_k e)))) false (x_row_dist (row_of (x_best m) (k_egrfp (ne_k e))))))
  (NOptimize
  (NSetNtr (fun e m => (-1))
  (NForJourney gen_revall_count
  (NIf (fun e m => (is_some (js_enter (x_label e))))
    (NSetTime (fun e m => ((x_enter_dep (x_label e)) - (x_enter_minw (ne_p e) (x_label e))))
    (NIf (fun e m => (((k_arr (ne_k e)) - (nb_time m)) <=? (q_maxtt (ne_p e))))
      (NIncCount
      (NMakeNode (fun e m => {| an_node := ne_node e; an_time := (k_arr (ne_k e)); an_ttt := ((k_arr (ne_k e)) - (nb_time m)); an_ntr := (nb_ntr m) |})
      (NPushNode
      (NDone))))
      (NDone)
    (NDone)))
    (NDone)
  (NDone))))))))))))"""),
)


def an_regenerate(repo, report):
    lines = [
        "(* GENERATED by tools/gen_loops.py from /repo's forward_journey.cpp (Calculator::forwardJourneyStepAllNodes) and",
        "   reverse_journey.cpp (Calculator::reverseJourneyStepAllNodes) - do not edit.",
        "   %s *)",
        "From Coq Require Import List ZArith Bool.",
        "From TrV Require Import Scan Journey Calc.",
        "Require Import TrV.AllNodes.",
        "Local Open Scope Z_scope.",
        "Local Open Scope bool_scope.",
        ""]
    origins = []
    for f in AN_FUNCS:
        origin = "source"
        try:
            defs = an_translate(f, GG.strip_c_comments(open(os.path.join(repo, f["file"])).read()))
            if set(defs) != set(n for n, _ in AN_DEFS[f["prefix"]]):
                raise Untranslatable("unexpected set of loops")
        except (Untranslatable, GG.Untranslatable, ValueError, OSError) as e:
            if AN_HAND is None:
                raise RuntimeError("%s all-nodes builder: %s, and no committed tree to fall back to" % (f["prefix"], e))
            origin = "fallback"
            report["fallback"].append("allnodes_%s: %s" % (f["prefix"], e))
            defs = AN_HAND[f["prefix"]]
        report["functions"]["allnodes_" + f["prefix"]] = origin
        origins.append("%s: %s" % (f["prefix"], origin))
        lines.append("(* %s: %s *)" % (f["sig"].rstrip("("), origin))
        for name, what in AN_DEFS[f["prefix"]]:
            lines += ["(* %s *)" % what, "Definition %s : nskel :=\n  %s." % (name, defs[name]), ""]
    lines[2] = lines[2] % ", ".join(origins)
    return write_if_changed(AN_OUT, "\n".join(lines))


# ------------------------------------------------------------------------------------------------
# (D) Calculator::reset, the footpath part

RS_SRC = "connection_scan_algorithm/src/resets.cpp"
RS_SIG = "Calculator::reset("
RS_OUT = os.path.join(VERIF, "coq", "gen", "Reset.v")
RS_ZVARS = {"departureTimeSeconds": ("ZDep", "(z_dep m)"), "arrivalTimeSeconds": ("ZArr", "(z_arr m)"),
            "minAccessTravelTime": ("ZMinAcc", "(z_minacc m)"), "maxAccessTravelTime": ("ZMaxAcc", "(z_maxacc m)"),
            "minEgressTravelTime": ("ZMinEgr", "(z_minegr m)"), "maxEgressTravelTime": ("ZMaxEgr", "(z_maxegr m)"),
            "footpathTravelTimeSeconds": ("ZT", "(z_t m)"), "footpathDistanceMeters": ("ZDist", "(z_dist m)")}
RS_FLAGS = {"accessFootpathOk": ("ZAccOk", "(z_accok m)"), "egressFootpathOk": ("ZEgrOk", "(z_egrok m)")}
RS_ROWS = {"accessFootpaths": ("ZAccFp", "(z_accfp m)"), "egressFootpaths": ("ZEgrFp", "(z_egrfp m)"),
           "nodesAccess": ("ZNodesAcc", "(z_nacc m)"), "nodesEgress": ("ZNodesEgr", "(z_negr m)")}
RS_TABS = {"nodesTentativeTime": "ZTau", "nodesReverseTentativeTime": "ZTauR"}
RS_STEPS = {"forwardJourneysSteps": "ZFSteps", "reverseJourneysSteps": "ZRSteps"}
RS_ATOMS = {k: (v[1], Z) for k, v in RS_ZVARS.items()}
RS_ATOMS.update({k: (v[1], B) for k, v in RS_FLAGS.items()})
RS_ATOMS.update({
    "MAX_INT": ("MAX_INT", Z),
    "origin.has_value()": ("(ze_origin e)", B), "destination.has_value()": ("(ze_dest e)", B),
    "resetAccessPaths": ("(ze_fresh e)", B), "doResetFilters": ("(ze_dofilters e)", B),
    "odTripGlob.has_value()": ("(ze_odtrip e)", B),
    "odTripGlob.value().get().departureTimeSeconds": ("(ze_odtrip_dep e)", Z),
    "parameters.isForwardCalculation()": ("(q_fwd (ze_p e))", B),
    "parameters.getTimeOfTrip()": ("(q_time (ze_p e))", Z),
    "parameters.getMaxAccessWalkingTravelTimeSeconds()": ("(q_maxacc (ze_p e))", Z),
    "parameters.getMaxEgressWalkingTravelTimeSeconds()": ("(q_maxegr (ze_p e))", Z),
    "accessFootpaths.size()": ("(Z.of_nat (length (z_accfp m)))", Z),
    "egressFootpaths.size()": ("(Z.of_nat (length (z_egrfp m)))", Z),
    "accessFootpath.distance": ("(fp_dist (z_row m))", Z), "egressFootpath.distance": ("(fp_dist (z_row m))", Z),
})
RS_IGNORED = [r"^calculationTime=algorithmCalculationTime\.getDurationMicrosecondsNoStop\(\)$",
              r"^(?:access|egress)Footpaths\.shrink_to_fit\(\)$", r"^intfootpathTravelTimeSeconds$", r"^intfootpathDistanceMeters$"]
RS_HELPERS = {"accessFootpathOk": ("Calculator::resetAccessFootpaths(", "origin"),
              "egressFootpathOk": ("Calculator::resetEgressFootpaths(", "destination")}
RS_REASONS = {"NO_ACCESS_AT_ORIGIN_AND_DESTINATION": "R_NO_ACCESS_AT_ORIGIN_AND_DESTINATION",
              "NO_ACCESS_AT_ORIGIN": "R_NO_ACCESS_AT_ORIGIN", "NO_ACCESS_AT_DESTINATION": "R_NO_ACCESS_AT_DESTINATION"}


def rs_z(text):
    return parse_expr(text, Z, RS_ATOMS)


def rs_statement(text, src, var):
    """var: name of the range-for variable of the enclosing loop, or None"""
    t = flat(text)
    if SK.LOGGING.match(t) or any(re.match(rx, t) for rx in RS_IGNORED):
        return []
    key = "(fp_node (z_row m))"
    m = re.match(r"^(?:constbool|bool)?(\w+)=(?!=)(.+)$", t)
    if m and m.group(1) in RS_FLAGS:
        flag, rhs = m.group(1), m.group(2)
        hm = re.match(r"^reset(Access|Egress)Footpaths\(parameters,(origin|destination)\.value\(\)\)$", rhs)
        if hm:
            sig, point = RS_HELPERS[flag]
            if (hm.group(1) == "Access") != (flag == "accessFootpathOk") or hm.group(2) != point:
                raise Untranslatable("unexpected helper call: " + t[:80])
            return rs_helper(src, sig, flag, point)
        if rhs in ("true", "false"):
            return [("ZSetFlag", RS_FLAGS[flag][0], rhs)]
        return [("ZSetFlag", RS_FLAGS[flag][0], parse_expr(rhs, B, RS_ATOMS))]
    hm = re.match(r"^reset(Access|Egress)Footpaths\(parameters,(origin|destination)\.value\(\)\)$", t)
    if hm and (hm.group(1) == "Access") == (hm.group(2) == "origin"):
        # the helper called for its effect only
        return rs_helper(src, "Calculator::reset%sFootpaths(" % hm.group(1), None, hm.group(2))
    m = re.match(r"^(\w+)\.clear\(\)$", t)
    if m and m.group(1) in RS_ROWS:
        return [("ZSetRows", RS_ROWS[m.group(1)][0], "nil")]
    if m and m.group(1) in RS_STEPS:
        return [("ZAssignSteps", RS_STEPS[m.group(1)])]
    m = re.match(r"^(\w+)\.assign\(Node::getMaxUid\(\)\+1,(.+)\)$", t)
    if m and m.group(1) in RS_STEPS and m.group(2) == "JourneyStep()":
        return [("ZAssignSteps", RS_STEPS[m.group(1)])]
    if m and m.group(1) in RS_TABS:
        return [("ZAssignTable", RS_TABS[m.group(1)], rs_z(m.group(2)))]
    if t == "tripsQueryOverlay.assign(Trip::getMaxUid()+1,TripQueryData())":
        return [("ZResetOverlay",)]
    if t == "resetFilters(parameters)":
        return [("ZResetFilters",)]
    m = re.match(r"^(access|egress)Footpaths=geoFilter\.getAccessibleNodesFootpathsFromPoint\((origin|destination),transitData\.getNodes\(\),(.+),parameters\.getWalkingSpeedMetersPerSecond\(\)\)$", t)
    if m:
        return [("ZSetRows", RS_ROWS[m.group(1) + "Footpaths"][0],
                 "(ze_lookup e %s %s)" % ("true" if m.group(2) == "origin" else "false", rs_z(m.group(3))))]
    if var is not None:
        m = re.match(r"^footpathTravelTimeSeconds=\(int\)ceil\(\(float\)\(" + var + r"\.time\)/parameters\.getWalkingSpeedFactor\(\)\)$", t)
        if m:
            return [("ZSetZ", "ZT", "(fp_time (z_row m))")]
        m = re.match(r"^(\w+)\.emplace\(" + var + r"\.node\.uid,NodeTimeDistance\(" + var + r"\.node,(.+)\)\)$", t)
        if m and m.group(1) in RS_ROWS:
            a = GE.split_top(m.group(2), ",")
            if len(a) == 2:
                return [("ZEmplace", RS_ROWS[m.group(1)][0], "{| fp_node := fp_node (z_row m); fp_time := %s; fp_dist := %s |}" % (rs_z(a[0]), rs_z(a[1])))]
        m = re.match(r"^(\w+)\.at\(" + var + r"\.node\.uid\)=JourneyStep\(std::nullopt,std::nullopt,std::nullopt,(.+)\)$", t)
        if m and m.group(1) in RS_STEPS:
            a = GE.split_top(m.group(2), ",")
            if len(a) == 3 and a[1] in ("true", "false"):
                return [("ZSetStep", RS_STEPS[m.group(1)], key, "(x_walk %s %s %s)" % (rs_z(a[0]), a[1], rs_z(a[2])))]
        m = re.match(r"^(\w+)\[" + var + r"\.node\.uid\]=(?!=)(.+)$", t)
        if m and m.group(1) in RS_TABS:
            return [("ZSetTable", RS_TABS[m.group(1)], key, rs_z(m.group(2)))]
    m = re.match(r"^(?:int)?(\w+)(\+=|-=|=)(?!=)(.+)$", t)
    if m and m.group(1) in RS_ZVARS:
        v, old = RS_ZVARS[m.group(1)]
        rhs = rs_z(m.group(3))
        if m.group(2) != "=":
            rhs = "(%s %s %s)" % (old, m.group(2)[0], rhs)
        return [("ZSetZ", v, rhs)]
    raise Untranslatable("unrecognised statement: " + t[:90])


def rs_helper(src, sig, flag, point):
    """the body of resetAccessFootpaths / resetEgressFootpaths, inlined: its local flag is the caller's"""
    body = GG.fn_body(src, sig)
    nodes, k, returned = [], SK.skip_ws(body, 1), False
    while k < len(body) and body[k] != "}":
        if SK.keyword_at(body, k, "return"):
            j = body.index(";", k)
            if flag is None or flat(body[k:j]) != "return" + flag:
                raise Untranslatable("the helper does not return what the caller assigns")
            returned = True
            break
        ns, k = SK.parse_stmt(body, k)
        nodes += ns
        k = SK.skip_ws(body, k)
    if not returned and flag is not None:
        raise Untranslatable("helper without return")
    return rs_convert(nodes, src, None)


def rs_convert(nodes, src, var):
    out = []
    for n in nodes:
        if n[0] == "stmt":
            out += rs_statement(n[1], src, var)
        elif n[0] == "if":
            cond = flat(n[1])
            if cond == "odTripGlob.has_value()":
                th = [("ZUnmodelled",)]
            else:
                th = rs_convert(n[2], src, var)
            el = rs_convert(n[3], src, var)
            if th or el:
                out.append(("ZIf", parse_expr(cond, B, RS_ATOMS), th, el))
        elif n[0] == "for":
            m = re.match(r"^auto&(\w+):(\w+)$", flat(n[1]))
            if not m or m.group(2) not in RS_ROWS or var is not None:
                raise Untranslatable("unrecognised loop: for(%s)" % flat(n[1])[:80])
            out.append(("ZForRows", RS_ROWS[m.group(2)][0], rs_convert(n[2], src, m.group(1)), m.group(2)))
        elif n[0] == "throw":
            m = re.match(r"^NoRoutingFoundException\(NoRoutingReason::(\w+)\)$", flat(n[1]))
            if not m or m.group(1) not in RS_REASONS:
                raise Untranslatable("unrecognised exception: " + flat(n[1])[:80])
            out.append(("ZThrow", RS_REASONS[m.group(1)]))
        else:
            raise Untranslatable("`%s` in reset()" % n[0])
    return out


def rs_emit(nodes, indent, defs):
    pad = "  " * indent
    if not nodes:
        return "ZDone"
    n, rest = nodes[0], nodes[1:]
    c = n[0]
    if c == "ZThrow":
        if rest:
            raise Untranslatable("statements after throw")
        return "ZThrow %s" % n[1]
    k = rs_emit(rest, indent, defs)
    fn = lambda x: "(fun e m => %s)" % x
    if c in ("ZResetOverlay", "ZResetFilters", "ZUnmodelled"):
        return "%s\n%s(%s)" % (c, pad, k)
    if c == "ZAssignSteps":
        return "ZAssignSteps %s\n%s(%s)" % (n[1], pad, k)
    if c in ("ZSetZ", "ZSetFlag", "ZSetRows", "ZEmplace", "ZAssignTable"):
        return "%s %s %s\n%s(%s)" % (c, n[1], fn(n[2]), pad, k)
    if c in ("ZSetTable", "ZSetStep"):
        return "%s %s %s %s\n%s(%s)" % (c, n[1], fn(n[2]), fn(n[3]), pad, k)
    if c == "ZIf":
        return "ZIf %s\n%s  (%s)\n%s  (%s)\n%s(%s)" % (fn(n[1]), pad, rs_emit(n[2], indent + 1, defs), pad, rs_emit(n[3], indent + 1, defs), pad, k)
    if c == "ZForRows":
        name = "gen_reset_%s_row" % ("access" if n[3] == "accessFootpaths" else "egress")
        if name in defs:
            raise Untranslatable("two loops over " + n[3])
        defs[name] = rs_emit(n[2], 1, defs)
        return "ZForRows %s %s\n%s(%s)" % (n[1], name, pad, k)
    raise Untranslatable("unexpected node " + c)


def rs_translate(src):
    body = GG.fn_body(src, RS_SIG)
    nodes = SK.parse_list(body[1:-1])
    defs = {}
    defs["gen_reset_skel"] = rs_emit(rs_convert(nodes, src, None), 1, defs)
    if set(defs) != set(n for n, _ in RS_DEFS):
        raise Untranslatable("the loops over accessFootpaths / egressFootpaths were not both found")
    return defs


RS_DEFS = [("gen_reset_access_row", "the body of `for (auto & accessFootpath : accessFootpaths)`"),
           ("gen_reset_egress_row", "the body of `for (auto & egressFootpath : egressFootpaths)`"),
           ("gen_reset_skel", "reset(), with resetAccessFootpaths / resetEgressFootpaths inlined")]
RS_HAND = dict(
    gen_reset_egress_row="""ZSetZ ZT (fun e m => (fp_time (z_row m)))
  (ZSetZ ZDist (fun e m => (fp_dist (z_row m)))
  (ZEmplace ZNodesEgr (fun e m => {| fp_node := fp_node (z_row m); fp_time := (z_t m); fp_dist := (z_dist m) |})
  (ZSetStep ZRSteps (fun e m => (fp_node (z_row m))) (fun e m => (x_walk (z_t m) false (z_dist m)))
  (ZSetTable ZTauR (fun e m => (fp_node (z_row m))) (fun e m => ((z_arr m) - (z_t m)))
  (ZIf (fun e m => ((z_t m) >? (z_maxegr m)))
    (ZSetZ ZMaxEgr (fun e m => (z_t m))
    (ZDone))
    (ZDone)
  (ZIf (fun e m => ((z_t m) <? (z_minegr m)))
    (ZSetZ ZMinEgr (fun e m => (z_t m))
    (ZDone))
    (ZDone)
  (ZDone)))))))""",
    gen_reset_access_row="""ZSetZ ZT (fun e m => (fp_time (z_row m)))
  (ZSetZ ZDist (fun e m => (fp_dist (z_row m)))
  (ZEmplace ZNodesAcc (fun e m => {| fp_node := fp_node (z_row m); fp_time := (z_t m); fp_dist := (z_dist m) |})
  (ZSetStep ZFSteps (fun e m => (fp_node (z_row m))) (fun e m => (x_walk (z_t m) false (z_dist m)))
  (ZSetTable ZTau (fun e m => (fp_node (z_row m))) (fun e m => ((z_dep m) + (z_t m)))
  (ZIf (fun e m => ((z_t m) <? (z_minacc m)))
    (ZSetZ ZMinAcc (fun e m => (z_t m))
    (ZDone))
    (ZDone)
  (ZIf (fun e m => ((z_t m) >? (z_maxacc m)))
    (ZSetZ ZMaxAcc (fun e m => (z_t m))
    (ZDone))
    (ZDone)
  (ZDone)))))))""",
    gen_reset_skel="""ZSetFlag ZAccOk (fun e m => true)
  (ZSetFlag ZEgrOk (fun e m => true)
  (ZIf (fun e m => (ze_fresh e))
    (ZSetRows ZAccFp (fun e m => nil)
    (ZSetRows ZEgrFp (fun e m => nil)
    (ZDone)))
    (ZDone)
  (ZResetOverlay
  (ZAssignSteps ZFSteps
  (ZAssignSteps ZRSteps
  (ZSetZ ZDep (fun e m => (-1))
  (ZSetZ ZArr (fun e m => (-1))
  (ZIf (fun e m => ((ze_odtrip e) && (q_fwd (ze_p e))))
    (ZSetZ ZDep (fun e m => (ze_odtrip_dep e))
    (ZDone))
    (ZIf (fun e m => (q_fwd (ze_p e)))
      (ZSetZ ZDep (fun e m => (q_time (ze_p e)))
      (ZDone))
      (ZDone)
    (ZDone))
  (ZIf (fun e m => (negb (q_fwd (ze_p e))))
    (ZSetZ ZArr (fun e m => (q_time (ze_p e)))
    (ZDone))
    (ZDone)
  (ZSetZ ZMinAcc (fun e m => MAX_INT)
  (ZSetZ ZMaxEgr (fun e m => (-1))
  (ZSetZ ZMinEgr (fun e m => MAX_INT)
  (ZSetZ ZMaxAcc (fun e m => (-1))
  (ZIf (fun e m => (ze_origin e))
    (ZIf (fun e m => (ze_fresh e))
      (ZSetFlag ZAccOk (fun e m => true)
      (ZIf (fun e m => (ze_odtrip e))
        (ZUnmodelled
        (ZDone))
        (ZSetRows ZAccFp (fun e m => (ze_lookup e true (q_maxacc (ze_p e))))
        (ZIf (fun e m => ((Z.of_nat (length (z_accfp m))) =? 0))
          (ZSetFlag ZAccOk (fun e m => false)
          (ZDone))
          (ZDone)
        (ZDone)))
      (ZDone)))
      (ZDone)
    (ZSetRows ZNodesAcc (fun e m => nil)
    (ZAssignSteps ZFSteps
    (ZAssignTable ZTau (fun e m => MAX_INT)
    (ZForRows ZAccFp gen_reset_access_row
    (ZDone))))))
    (ZDone)
  (ZIf (fun e m => (ze_dest e))
    (ZIf (fun e m => (ze_fresh e))
      (ZSetFlag ZEgrOk (fun e m => true)
      (ZIf (fun e m => (ze_odtrip e))
        (ZUnmodelled
        (ZDone))
        (ZSetRows ZEgrFp (fun e m => (ze_lookup e false (q_maxegr (ze_p e))))
        (ZIf (fun e m => ((Z.of_nat (length (z_egrfp m))) =? 0))
          (ZSetFlag ZEgrOk (fun e m => false)
          (ZDone))
          (ZDone)
        (ZDone)))
      (ZDone)))
      (ZDone)
    (ZSetRows ZNodesEgr (fun e m => nil)
    (ZAssignSteps ZRSteps
    (ZAssignTable ZTauR (fun e m => (-1))
    (ZForRows ZEgrFp gen_reset_egress_row
    (ZDone))))))
    (ZDone)
  (ZIf (fun e m => ((negb (z_egrok m)) && (negb (z_accok m))))
    (ZThrow R_NO_ACCESS_AT_ORIGIN_AND_DESTINATION)
    (ZIf (fun e m => (negb (z_accok m)))
      (ZThrow R_NO_ACCESS_AT_ORIGIN)
      (ZIf (fun e m => (negb (z_egrok m)))
        (ZThrow R_NO_ACCESS_AT_DESTINATION)
        (ZDone)
      (ZDone))
    (ZDone))
  (ZIf (fun e m => (ze_dofilters e))
    (ZResetFilters
    (ZDone))
    (ZDone)
  (ZDone))))))))))))))))))""")


def rs_regenerate(repo, report):
    origin = "source"
    try:
        defs = rs_translate(GG.strip_c_comments(open(os.path.join(repo, RS_SRC)).read()))
    except (Untranslatable, GG.Untranslatable, ValueError, OSError) as e:
        if RS_HAND is None:
            raise RuntimeError("reset: %s, and no committed tree to fall back to" % e)
        origin = "fallback"
        report["fallback"].append("reset: %s" % e)
        defs = RS_HAND
    report["functions"]["reset"] = origin
    lines = [
        "(* GENERATED by tools/gen_loops.py from /repo's resets.cpp (Calculator::reset, resetAccessFootpaths, resetEgressFootpaths) - do not edit.",
        "   reset: %s *)" % origin,
        "From Coq Require Import List ZArith Bool.",
        "From TrV Require Import Scan Journey Calc.",
        "Require Import TrV.Reset.",
        "Local Open Scope Z_scope.",
        "Local Open Scope bool_scope.",
        ""]
    for name, what in RS_DEFS:
        lines += ["(* %s *)" % what, "Definition %s : zskel :=\n  %s." % (name, defs[name]), ""]
    return write_if_changed(RS_OUT, "\n".join(lines))


# ------------------------------------------------------------------------------------------------
# (E) the top-level flow: calculateSingle (+ calculateSingleReverse) and calculateAllNodes

FL_SRC = "connection_scan_algorithm/src/calculator.cpp"
FL_OUT = os.path.join(VERIF, "coq", "gen", "Flow.v")
FL_ZVARS = {"departureTimeSeconds": ("CDep", "(c_dep m)"), "arrivalTimeSeconds": ("CArr", "(c_arr m)"),
            "bestArrivalTime": ("CBestArr", "(c_best_arr m)"), "bestDepartureTime": ("CBestDep", "(c_best_dep m)")}
FL_ATOMS = {k: (v[1], Z) for k, v in FL_ZVARS.items()}
FL_ATOMS.update({
    "MAX_INT": ("MAX_INT", Z),
    "parameters.isForwardCalculation()": ("(q_fwd (ce_p e))", B),
    "resultCalculation.has_value()": ("(is_some (c_res m))", B),
    "resultCalculation": ("(is_some (c_res m))", B),
    "std::get<0>(*resultCalculation)": ("(x_res_time m)", Z),
    "egressFootpath.time": ("(fp_time (c_row m))", Z),
})
FL_IGNORED = [r"^calculationTime=algorithmCalculationTime\.getDurationMicrosecondsNoStop\(\)$",
              r"^std::unordered_map<Node::uid_t,JourneyStep>(?:forwardEgress|reverseAccess)JourneysSteps$"]
FL_CALLS = {
    "reset(parameters,*parameters.getOrigin(),*parameters.getDestination(),resetAccessPaths,resetFilters)": "CReset",
    "reset(parameters,parameters.isForwardCalculation()?std::make_optional(*parameters.getPlace()):std::nullopt,"
    "parameters.isForwardCalculation()?std::nullopt:std::make_optional(*parameters.getPlace()),true,true)": "CReset",
    "autoresultCalculation=forwardCalculation(parameters,forwardEgressJourneysSteps)": "CForward",
    "autoresultCalculation=reverseCalculation(parameters,reverseAccessJourneysSteps)": "CReverse",
    "forwardCalculationAllNodes(parameters,forwardEgressJourneysSteps)": "CForwardAll",
    "reverseCalculationAllNodes(parameters,reverseAccessJourneysSteps)": "CReverseAll",
    "result=forwardJourneyStep(parameters,bestEgressNode,forwardEgressJourneysSteps)": "CForwardJourney",
    "result=reverseJourneyStep(parameters,bestDepartureTime,bestAccessNode,reverseAccessJourneysSteps)": "CReverseJourney",
    "result=forwardJourneyStepAllNodes(parameters,forwardEgressJourneysSteps)": "CForwardJourneyAll",
    "result=reverseJourneyStepAllNodes(parameters,reverseAccessJourneysSteps)": "CReverseJourneyAll",
    "assert(false)": "CAssertFalse",
}
FL_USABLE_LOOP = ("auto&&tripIte:transitData.getTrips()", "constTrip&trip=tripIte.second;tripsQueryOverlay[trip.uid].usable=true;")
FL_REASON_NAMES = {"NO_ROUTING_FOUND": "R_NO_ROUTING_FOUND", "NO_ACCESS_AT_ORIGIN": "R_NO_ACCESS_AT_ORIGIN",
                   "NO_ACCESS_AT_DESTINATION": "R_NO_ACCESS_AT_DESTINATION", "NO_SERVICE_FROM_ORIGIN": "R_NO_SERVICE_FROM_ORIGIN",
                   "NO_SERVICE_TO_DESTINATION": "R_NO_SERVICE_TO_DESTINATION",
                   "NO_ACCESS_AT_ORIGIN_AND_DESTINATION": "R_NO_ACCESS_AT_ORIGIN_AND_DESTINATION"}
THROW = r"\{throwNoRoutingFoundException\(NoRoutingReason::(\w+)\);\}"
FL_REASONS = [   # field, file, function, guard of the throw
    ("fr_fwd_empty", "forward_calculation.cpp", "Calculator::forwardCalculation(", r"if\(reachableConnectionsCount==0\)"),
    ("fr_fwdall_empty", "forward_calculation.cpp", "Calculator::forwardCalculationAllNodes(", r"if\(reachableConnectionsCount==0\)"),
    ("fr_rev_empty", "reverse_calculation.cpp", "Calculator::reverseCalculation(", r"if\(reachableConnectionsCount==0\)"),
    ("fr_revall_empty", "reverse_calculation.cpp", "Calculator::reverseCalculationAllNodes(", r"if\(reachableConnectionsCount==0\)"),
    ("fr_fwd_journey", "forward_journey.cpp", "Calculator::forwardJourneyStep(", r"if\(!bestEgressNode\.has_value\(\)\)"),
    ("fr_rev_journey", "reverse_journey.cpp", "Calculator::reverseJourneyStep(", r"if\(!bestAccessNode\.has_value\(\)\)"),
]


def fl_statement(text, src):
    t = flat(text)
    if SK.LOGGING.match(t) or any(re.match(rx, t) for rx in FL_IGNORED):
        return []
    if t in FL_CALLS:
        return [(FL_CALLS[t],)]
    if re.match(r"^std::unique_ptr<(?:SingleCalculationResult|AllNodesResult)>result$", t):
        return [("CNewResult",)]
    if t == "result=calculateSingleReverse(parameters)":
        return [("CSeq", "gen_calculate_single_reverse")]
    if re.match("^" + OPT_NODE + r"best(?:Egress|Access)Node$", t):
        return [("CSetNode", "None")]
    m = re.match(r"^best(?:Egress|Access)Node=(?!=)(.+)$", t)
    if m:
        if m.group(1) == "std::get<1>(*resultCalculation)":
            return [("CSetNode", "(x_res_node m)")]
        raise Untranslatable("unrecognised stop: " + m.group(1)[:80])
    m = re.match(r"^(?:int)?(\w+)(?:(\+=|-=|=)(?!=)(.+)|\{(.+)\})$", t)
    if m and m.group(1) in FL_ZVARS:
        v, old = FL_ZVARS[m.group(1)]
        if m.group(4) is not None:
            return [("CSetZ", v, parse_expr(m.group(4), Z, FL_ATOMS))]
        rhs = parse_expr(m.group(3), Z, FL_ATOMS)
        if m.group(2) != "=":
            rhs = "(%s %s %s)" % (old, m.group(2)[0], rhs)
        return [("CSetZ", v, rhs)]
    raise Untranslatable("unrecognised statement: " + t[:100])


def fl_convert(nodes, src):
    out = []
    for n in nodes:
        if n[0] == "stmt":
            out += fl_statement(n[1], src)
        elif n[0] == "if":
            th, el = fl_convert(n[2], src), fl_convert(n[3], src)
            if th or el:
                out.append(("CIf", parse_expr(flat(n[1]), B, FL_ATOMS), th, el))
        elif n[0] == "for":
            h = flat(n[1])
            if h == FL_USABLE_LOOP[0] and ser(n[2]) == FL_USABLE_LOOP[1]:
                out.append(("CMarkUsable",))
            elif h == "auto&egressFootpath:egressFootpaths" and len(n[2]) == 1 and n[2][0][0] == "stmt":
                m = re.match(r"^nodesReverseTentativeTime\[egressFootpath\.node\.uid\]=(?!=)(.+)$", flat(n[2][0][1]))
                if not m:
                    raise Untranslatable("unrecognised statement in the loop over the egress footpaths")
                out.append(("CForEgress", "(fp_node (c_row m))", parse_expr(m.group(1), Z, FL_ATOMS)))
            else:
                raise Untranslatable("unrecognised loop: for(%s)" % h[:80])
        else:
            raise Untranslatable("`%s` in the calculation flow" % n[0])
    return out


def fl_function(src, sig):
    body = GG.fn_body(src, sig)
    nodes, k, returned = [], SK.skip_ws(body, 1), False
    while k < len(body) and body[k] != "}":
        if SK.keyword_at(body, k, "return"):
            j = body.index(";", k)
            if flat(body[k:j]) != "returnresult":
                raise Untranslatable("unexpected return in " + sig)
            returned = True
            k = SK.skip_ws(body, j + 1)
            if body[k] != "}":
                raise Untranslatable("statements after the return")
            break
        ns, k = SK.parse_stmt(body, k)
        nodes += ns
        k = SK.skip_ws(body, k)
    if not returned:
        raise Untranslatable("`return result` not found in " + sig)
    return fl_convert(nodes, src)


def fl_emit(nodes, indent):
    pad = "  " * indent
    if not nodes:
        return "CDone"
    n, rest = nodes[0], nodes[1:]
    k = fl_emit(rest, indent)
    fn = lambda x: "(fun e m => %s)" % x
    c = n[0]
    if len(n) == 1:
        return "%s\n%s(%s)" % (c, pad, k)
    if c == "CSeq":
        return "CSeq %s\n%s(%s)" % (n[1], pad, k)
    if c == "CSetZ":
        return "CSetZ %s %s\n%s(%s)" % (n[1], fn(n[2]), pad, k)
    if c == "CSetNode":
        return "CSetNode %s\n%s(%s)" % (fn(n[1]), pad, k)
    if c == "CForEgress":
        return "CForEgress %s %s\n%s(%s)" % (fn(n[1]), fn(n[2]), pad, k)
    if c == "CIf":
        return "CIf %s\n%s  (%s)\n%s  (%s)\n%s(%s)" % (fn(n[1]), pad, fl_emit(n[2], indent + 1), pad, fl_emit(n[3], indent + 1), pad, k)
    raise Untranslatable("unexpected node " + c)


def fl_translate(repo):
    src = GG.strip_c_comments(open(os.path.join(repo, FL_SRC)).read())
    defs = {"gen_calculate_single_reverse": fl_emit(fl_function(src, "Calculator::calculateSingleReverse("), 1),
            "gen_calculate_single": fl_emit(fl_function(src, "Calculator::calculateSingle("), 1),
            "gen_calculate_allnodes": fl_emit(fl_function(src, "Calculator::calculateAllNodes("), 1)}
    fields = []
    for field, fname, sig, guard in FL_REASONS:
        body = flat(GG.fn_body(GG.strip_c_comments(open(os.path.join(repo, "connection_scan_algorithm/src", fname)).read()), sig))
        found = re.findall(guard + THROW, body)
        if len(found) != 1 or found[0] not in FL_REASON_NAMES:
            raise Untranslatable("%s: the exception of %s was not found" % (field, sig))
        fields.append("%s := %s" % (field, FL_REASON_NAMES[found[0]]))
    defs["gen_flow_reasons"] = "{| " + ";\n     ".join(fields) + " |}"
    return defs


FL_DEFS = [("gen_flow_reasons", "flow_reasons", "the NoRoutingReason thrown by the scans without a parsed connection and by the journey steps without a best stop"),
           ("gen_calculate_single_reverse", "cskel", "calculateSingleReverse (its local `result` is the caller's)"),
           ("gen_calculate_single", "cskel", "calculateSingle"),
           ("gen_calculate_allnodes", "cskel", "calculateAllNodes")]
FL_HAND = dict(
    gen_calculate_single_reverse="""CNewResult
  (CSetZ CBestDep (fun e m => (-1))
  (CSetNode (fun e m => None)
  (CReverse
  (CIf (fun e m => (is_some (c_res m)))
    (CSetZ CBestDep (fun e m => (x_res_time m))
    (CSetNode (fun e m => (x_res_node m))
    (CDone)))
    (CDone)
  (CReverseJourney
  (CDone))))))""",
    gen_calculate_single="""CReset
  (CNewResult
  (CIf (fun e m => (((c_dep m) >? (-1)) && (q_fwd (ce_p e))))
    (CSetZ CBestArr (fun e m => MAX_INT)
    (CSetNode (fun e m => None)
    (CForward
    (CIf (fun e m => (is_some (c_res m)))
      (CSetZ CBestArr (fun e m => (x_res_time m))
      (CSetNode (fun e m => (x_res_node m))
      (CDone)))
      (CDone)
    (CIf (fun e m => ((c_best_arr m) <? MAX_INT))
      (CSetZ CArr (fun e m => (c_best_arr m))
      (CForEgress (fun e m => (fp_node (c_row m))) (fun e m => ((c_arr m) - (fp_time (c_row m))))
      (CSeq gen_calculate_single_reverse
      (CDone))))
      (CForwardJourney
      (CAssertFalse
      (CDone)))
    (CDone))))))
    (CIf (fun e m => ((c_arr m) >? (-1)))
      (CSetZ CDep (fun e m => (-1))
      (CMarkUsable
      (CSeq gen_calculate_single_reverse
      (CDone))))
      (CDone)
    (CDone))
  (CDone)))""",
    gen_calculate_allnodes="""CReset
  (CNewResult
  (CIf (fun e m => (((c_dep m) >? (-1)) && (q_fwd (ce_p e))))
    (CForwardAll
    (CForwardJourneyAll
    (CDone)))
    (CIf (fun e m => ((c_arr m) >? (-1)))
      (CSetZ CDep (fun e m => (-1))
      (CMarkUsable
      (CReverseAll
      (CReverseJourneyAll
      (CDone)))))
      (CDone)
    (CDone))
  (CDone)))""",
    gen_flow_reasons="""{| fr_fwd_empty := R_NO_SERVICE_FROM_ORIGIN;
     fr_fwdall_empty := R_NO_SERVICE_FROM_ORIGIN;
     fr_rev_empty := R_NO_SERVICE_TO_DESTINATION;
     fr_revall_empty := R_NO_SERVICE_TO_DESTINATION;
     fr_fwd_journey := R_NO_ROUTING_FOUND;
     fr_rev_journey := R_NO_ROUTING_FOUND |}""")


def fl_regenerate(repo, report):
    origin = "source"
    try:
        defs = fl_translate(repo)
    except (Untranslatable, GG.Untranslatable, ValueError, OSError) as e:
        if FL_HAND is None:
            raise RuntimeError("flow: %s, and no committed tree to fall back to" % e)
        origin = "fallback"
        report["fallback"].append("flow: %s" % e)
        defs = FL_HAND
    report["functions"]["flow"] = origin
    lines = [
        "(* GENERATED by tools/gen_loops.py from /repo's calculator.cpp (calculateSingle, calculateSingleReverse, calculateAllNodes) and the",
        "   exceptions of forward_calculation.cpp / reverse_calculation.cpp / forward_journey.cpp / reverse_journey.cpp - do not edit.",
        "   flow: %s *)" % origin,
        "From Coq Require Import List ZArith Bool.",
        "From TrV Require Import Scan Journey Calc.",
        "Require Import TrV.Flow.",
        "Local Open Scope Z_scope.",
        "Local Open Scope bool_scope.",
        ""]
    for name, ty, what in FL_DEFS:
        lines += ["(* %s *)" % what, "Definition %s : %s :=\n  %s." % (name, ty, defs[name]), ""]
    return write_if_changed(FL_OUT, "\n".join(lines))


# ------------------------------------------------------------------------------------------------

def regenerate():
    repo = os.environ.get("TRV_REPO", "/repo")
    report = dict(functions={}, fallback=[])
    changed = rb_regenerate(repo, report)
    changed = al_regenerate(repo, report) or changed
    changed = an_regenerate(repo, report) or changed
    changed = rs_regenerate(repo, report) or changed
    changed = fl_regenerate(repo, report) or changed
    report["changed"] = changed
    report["from_source"] = sum(1 for v in report["functions"].values() if v == "source")
    report["total"] = len(report["functions"])
    return report


def print_hand():
    repo = os.environ.get("TRV_REPO", "/repo")
    for var, fn, path in (("RB_HAND", rb_translate, RB_SRC), ("AL_HAND", al_translate, AL_SRC), ("RS_HAND", rs_translate, RS_SRC)):
        defs = fn(GG.strip_c_comments(open(os.path.join(repo, path)).read()))
        print("%s = dict(\n%s)" % (var, ",\n".join("    %s=\"\"\"%s\"\"\"" % (k, v) for k, v in defs.items())))
    print("FL_HAND = dict(\n%s)" % ",\n".join("    %s=\"\"\"%s\"\"\"" % (k, v) for k, v in fl_translate(repo).items()))
    print("AN_HAND = dict(")
    for f in AN_FUNCS:
        defs = an_translate(f, GG.strip_c_comments(open(os.path.join(repo, f["file"])).read()))
        print("    %s=dict(\n%s)," % (f["prefix"], ",\n".join("        %s=\"\"\"%s\"\"\"" % (k, v) for k, v in defs.items())))
    print(")")


if __name__ == "__main__":
    if len(sys.argv) > 1 and sys.argv[1] == "--print-hand":
        print_hand()
    else:
        print(json.dumps(regenerate(), indent=1))
