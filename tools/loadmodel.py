#!/usr/bin/env python3
"""The tie between the Gallina loader model (coq/Loader2.v: encode_all, load_all, update) and the real cache loaders.

The extracted model is run through the `load` mode of ocaml/driver.ml on the DECODED-LEVEL image of a cache directory:
    dataset (text format of gen.Dataset.text) -> Loader2.encode_all -> (layout of tools/l3.py write_cache) -> decoded-level faults
    -> Loader2.load_all (status, sizes, read error)  [-> Loader2.update names ... (status, sizes)]
and its prediction is compared with what the real server does on the directory with the corresponding byte-level fault.

Faults expressible at decoded level (everything else -- truncation at an arbitrary offset, bit flips, zeroed ranges -- is not):
    delete <file>          FMissing      for the 7 collection files, a per-line file, all per-line files, a per-stop file
    delete2 <f>+<g>        two files (or a collection file and all per-line files) deleted: the only way to empty two collections of
                           which neither depends on the other, i.e. to see the ORDER of the tests of TransitData::getDataStatus
    empty  <file>          FGarbled []   a 0-byte file: capnp::PackedFdMessageReader's constructor (inside the loaders' try blocks)
                                         throws kj::Exception "Premature EOF" before any entry is read -> -EBADMSG
    inconsistency <name>   the change tools/faults.py inconsistencies() makes to the Cap'n Proto text, made to the messages

predict(driver, B, cases, A=None, layout=True) -> {label: dict(load=..., updates=[...])}
"""
import os, re, subprocess, sys, tempfile

sys.path.insert(0, os.path.dirname(os.path.abspath(__file__)))
import l3  # noqa: E402

COLL_FILES = {"agencies.capnpbin": "agencies", "services.capnpbin": "services", "nodes.capnpbin": "nodes", "lines.capnpbin": "lines",
              "paths.capnpbin": "paths", "scenarios.capnpbin": "scenarios", "dataSources.capnpbin": "dataSources"}
INCONSISTENCIES = ("trip_unknown_path", "trip_unknown_service", "trip_no_stop_times", "trip_too_many_stop_times", "trip_one_more_stop_time", "trip_short_flag_array",
                   "trip_bad_uuid_text", "trip_arrival_before_departure", "trip_first_arrival_after_departure", "trip_negative_departure",
                   "trips_times_backwards", "line_unknown_agency", "line_unknown_mode", "nodefile_unknown_stop", "nodefile_bad_uuid_text",
                   "nodefile_short_times", "nodefile_negative_walk_time", "path_unknown_stop", "path_unknown_line", "path_bad_json", "scenario_unknown_service",
                   "scenario_unknown_line_and_mode", "scenario_bad_uuid_text", "agency_bad_uuid_text", "node_bad_uuid_text")
# nodefile_short_times (a stop file whose travel-time list is shorter than its uuid list): Loader.fp_msg is a list of (stop, time,
# distance) rows, i.e. one length for the three lists; since /repo 71e00b0 (D14) nodes_cache_fetcher.cpp:128-136 returns -EBADMSG
# before the first row when the time or distance list is shorter, so the fault is FGarbled [] of that stop file.  (Before that fix the
# loader indexed the lists unchecked -- Cap'n Proto's KJ_IREQUIRE bounds test is compiled out of optimised builds -- and went on.)
# fault classes on which the model is known to differ from the code (reported to the model's owner); the comparison is skipped
# for exactly these and counted in the evidence: {fault kind key (see kind_key): reason}
_D13 = ("Loader.load_trip (coq/Loader.v) does not have the stop-time order test of trips_and_connections_cache_fetcher.cpp:105-127 (/repo 9942fef, D13): "
        "after the count tests the C++ skips the trip when, for some i < n-1, dep[i] < 0 or arr[i+1] < dep[i] or (i > 0 and dep[i] < arr[i]); "
        "the model loads the trip.  Witness: inc trips_times_backwards (every arrival -5): the server has no trip (MISSING_DATA_SCHEDULES), "
        "load_all gives READY with all trips.  Remove these entries once load_trip has the test.")
KNOWN_MODEL_GAPS = {}     # (the D13 gap is closed: Loader.load_trip has the stop-time order test since Proofs/LoadedTimes.v)
SIZE_KEYS = ("agencies", "services", "nodes", "lines", "paths", "scenarios", "trips")
STATUS_ORDER = (("agencies", "NO_AGENCIES"), ("services", "NO_SERVICES"), ("nodes", "NO_NODES"), ("lines", "NO_LINES"), ("paths", "NO_PATHS"),
                ("scenarios", "NO_SCENARIOS"), ("trips", "NO_SCHEDULES"))


def decoded_fault(fault):
    """(kind, relative file, arg) of tools/faults.py, or ("inconsistency", name, None) -> driver directive, or None when
    the fault is not expressible as a change of the decoded messages"""
    kind, rel, _ = fault
    if kind == "inconsistency":
        return "inc " + rel if rel in INCONSISTENCIES else None
    if kind == "delete2":          # two deletions at once: "<collection file>+<collection file>" or "<collection file>+lines/*"
        parts = ["missing_all_linefiles" if r == "lines/*" else ("missing " + COLL_FILES[r] if r in COLL_FILES else None) for r in rel.split("+")]
        return None if None in parts else " ".join(parts)
    if kind not in ("delete", "empty"):
        return None
    word = "missing" if kind == "delete" else "garbled"
    if rel in COLL_FILES:
        return "%s %s" % (word, COLL_FILES[rel])
    m = re.match(r"(nodes/node|lines/line)_([0-9a-f-]{36})\.capnpbin$", rel)
    if not m:
        return None
    return "%s_%s %d" % (word, "stopfile" if m.group(1) == "nodes/node" else "linefile", l3.id_of_uuid(m.group(2)))


def decoded_faults(concrete):
    """list of concrete faults (one history of c17refresh may delete several files) -> list of directives or None"""
    out = [decoded_fault(tuple(f)) for f in concrete]
    return None if (not out or any(d is None for d in out)) else out


def kind_key(fault):
    """the class a comparison is counted under: 'delete collection', 'empty per-line file', 'inconsistency trip_unknown_path', ..."""
    kind, rel, _ = fault
    if kind == "inconsistency":
        return "inconsistency " + rel
    if kind == "delete2":
        return "delete two collections"
    where = "collection" if "/" not in rel else ("per-line file" if rel.startswith("lines/") else "per-stop file")
    return "%s %s" % (kind, where)


def _parse_part(toks):
    # <STATUS> <code|-> agencies=.. ... trips=.. (read_error=|refs_safe=)..
    d = dict(status=toks[0], code=None if toks[1] == "-" else toks[1])
    for t in toks[2:]:
        k, v = t.split("=")
        d[k] = int(v)
    d["sizes"] = tuple(d[k] for k in SIZE_KEYS)
    return d


def predict(driver, B, cases, A=None, layout=True):
    """cases: [(label, [directive], start ('healthy'|'faulted'), [names string, ...])]; labels without spaces or '#'.
    Returns {label: dict(load=dict(status, code, sizes, read_error), updates=[dict(names, status, code, sizes, refs_safe)])}.
    Raises RuntimeError when the driver fails (a harness error, never a property violation)."""
    text = [B.text().rstrip("\n")]
    if layout:
        text.append("layout")
    if A is not None:
        text.append("from " + A.text().rstrip("\n"))
    for (label, directives, start, updates) in cases:
        line = ["case", label] + list(directives)
        if updates:
            line += ["start", start]
            for names in updates:
                ns = names.split(",")
                line += ["update", str(len(ns))] + ns
        text.append(" ".join(line))
    fd, path = tempfile.mkstemp(prefix="loadmodel-", suffix=".txt")
    try:
        with os.fdopen(fd, "w") as f:
            f.write("\n".join(text) + "\n")
        r = subprocess.run([driver, "load", path], stdout=subprocess.PIPE, stderr=subprocess.PIPE, timeout=300)
    finally:
        try:
            os.unlink(path)
        except OSError:
            pass
    if r.returncode != 0:
        raise RuntimeError("driver load failed (rc %d): %s" % (r.returncode, r.stderr.decode(errors="replace")[-600:]))
    out = {}
    for ln in r.stdout.decode().splitlines():
        parts = [p.split() for p in ln.split(" | ")]
        label = parts[0][0]
        assert parts[0][1] == "load", ln
        res = dict(load=_parse_part(parts[0][2:]), updates=[], line=ln)
        for p in parts[1:]:
            assert p[0] == "update", ln
            u = _parse_part(p[2:])
            u["names"] = p[1]
            res["updates"].append(u)
        out[label] = res
    missing = [c[0] for c in cases if c[0] not in out]
    if missing:
        raise RuntimeError("driver load: no output for cases %s" % missing[:5])
    return out


def expected_class(part):
    """the outcome class of the real server the model's status stands for: 'serves' or 'data_error <code>'"""
    return "serves" if part["status"] == "READY" else "data_error " + str(part["code"])


def class_matches(part, answer_classes):
    """answer_classes: the classes of all answers of one phase ('serves' = success / no_routing_found / query_error,
    'data_error <code>').  READY: no answer is a data error; otherwise every answer is the fast error with the model's code."""
    want = expected_class(part)
    if not answer_classes:
        return False
    if want == "serves":
        return all(a == "serves" for a in answer_classes)
    return all(a == want for a in answer_classes)


def dataset_sizes(ds, layout=False):
    """the collection sizes a healthy load of the dataset gives (layout: with the agency 0 / service 0 write_cache always lists)"""
    ag = set([l[1] for l in ds.lines] + [a for (_, ls) in ds.scens for k in (3, 7) for a in ls[k]])
    sv = set([t[2] for t in ds.trips] + [s for (_, ls) in ds.scens for s in ls[0]])
    if layout:
        ag.add(0)
        sv.add(0)
    return (len(ag), len(sv), len(set(ds.nodes)), len(ds.lines), len(ds.paths), len(ds.scens), len(ds.trips))


def status_of_sizes(sizes):
    """TransitData::getDataStatus, written down independently of the model"""
    for (k, name), v in zip(STATUS_ORDER, sizes):
        if v == 0:
            return name
    return "READY"
