#!/usr/bin/env python3
"""Translator for the geographic filters: regenerates coq/gen/Geo.v from the CURRENT sources src/geofilter.cpp
(calculateMaxDistanceSquared, calculateNodeDistanceSquared), src/euclideangeofilter.cpp (the loop over the stops: the
candidate test, `int distanceMeters = sqrt(..)`, `int travelTimeSeconds = distanceMeters / speed`, the row pushed) and
src/osrmgeofilter.cpp (the bird-distance pre-filter loop, the early return on an empty candidate list, the loop over
the walking router's rows).

What is produced are TYPED expression trees (type `gexp` of coq/Geo.v).  C++ arithmetic is typed: `int * int` is a
32-bit int product, `int * float` converts the int operand first, initialising an `int` from a floating value
truncates.  So the translator
  * reads the DECLARED types: the parameters of every function from its definition (`int maxWalkingTravelTime`,
    `float walkingSpeedMetersPerSecond`), the locals from their declarations (`float` / `int` / `double` / `auto`), the
    members of Point from include/point.hpp, the element types of the degree-length tuple from the signature of
    calculateLengthOfOneDegree, the constructor NodeTimeDistance(node, time, distance) from include/node.hpp;
  * parses expressions with the C++ precedence and associativity ( == != / < <= > >= / + - / * / / unary - / casts /
    calls ) and parentheses, giving every node a type by the usual arithmetic conversions: both operands int -> an int
    operation (GIop / GIcmp), otherwise a floating one (GFop / GFcmp) with an explicit GI2F around an int operand;
    `(int)x`, `int y = x`, `y = x` for a declared int, passing x for an int parameter and returning x from an int
    function put a GF2I around a floating x; the other direction puts a GI2F.  `float` and `double` are ONE floating
    type in the tree (rounding is outside the model, see coq/Geo.v);
  * executes the straight-line code symbolically, so locals are substituted back (renaming a local, splitting an
    expression over several locals or joining it again give the same tree), and INLINES the calls of
    calculateMaxDistanceSquared / calculateNodeDistanceSquared with the argument trees converted to the parameter types.
The trigonometry of calculateLengthOfOneDegree stays OUTSIDE: its two results are float inputs (FLenLon, FLenLat) of the
trees; only which component is which (longitude first) is read from its `return std::make_tuple(..)`.

Fragments (Proofs/GeoTie.v ties coq/Geo.v's hand model to them):
  gen_geo_max_dist_sq            body of calculateMaxDistanceSquared over IMaxT, FSpeed
  gen_geo_node_dist_sq           body of calculateNodeDistanceSquared over the two points and the two degree lengths
  gen_geo_euclid_guard / _distance / _time      the Euclidean loop: test, and the 3rd / 2nd constructor argument of the row
  gen_geo_osrm_prefilter_guard   the test under which a stop is sent to the walking router
  gen_geo_osrm_empty_test / gen_geo_osrm_empty_returns_nothing   the early return before the router is asked
  gen_geo_osrm_row_first / _continue / _time / _guard / _distance / _node_index   the loop over the reply

Policy as the other gen_*.py: what cannot be read is emitted as the committed hand tree and reported `fallback` with
the reason (no alarm by itself; never silently).  An early return that is no longer there is NOT a fallback: it is
emitted as `false`, so that the tie breaks."""
import os, re, sys, json
from fractions import Fraction

HERE = os.path.dirname(os.path.abspath(__file__))
sys.path.insert(0, HERE)
import gen_guards as GG

VERIF = os.path.dirname(HERE)
OUT = os.path.join(VERIF, "coq", "gen", "Geo.v")
SRC_GEO = "src/geofilter.cpp"
SRC_EUCLID = "src/euclideangeofilter.cpp"
SRC_OSRM = "src/osrmgeofilter.cpp"
HDR_POINT = "include/point.hpp"
HDR_NODE = "include/node.hpp"
SIG_MAX = "GeoFilter::calculateMaxDistanceSquared("
SIG_NODE = "GeoFilter::calculateNodeDistanceSquared("
SIG_LEN = "GeoFilter::calculateLengthOfOneDegree("
SIG_EUCLID = "EuclideanGeoFilter::getAccessibleNodesFootpathsFromPoint("
SIG_OSRM = "OsrmGeoFilter::getAccessibleNodesFootpathsFromPoint("


class Untranslatable(Exception):
    pass


# ------------------------------------------------------------------------------------------------
# tokens

TOKEN = re.compile(r"""
   (?P<ws>\s+)
 | (?P<num>(?:\d+\.\d*|\.\d+|\d+)(?:[eE][+-]?\d+)?[fFlLuU]*)
 | (?P<id>[A-Za-z_]\w*(?:\s*::\s*[A-Za-z_]\w*)*)
 | (?P<str>"(?:\\.|[^"\\])*"|'(?:\\.|[^'\\])*')
 | (?P<op>->|<=|>=|==|!=|&&|\|\||\+\+|--|\+=|-=|\*=|/=|%=|[-+*/%<>=!&|^~?:;,.(){}\[\]])
""", re.X)


def tokenize(text):
    out, i = [], 0
    while i < len(text):
        m = TOKEN.match(text, i)
        if not m:
            raise Untranslatable("cannot read the source at: " + text[i:i + 30].replace("\n", " "))
        i = m.end()
        k = m.lastgroup
        if k == "ws":
            continue
        t = m.group(k)
        if k == "id":
            t = "".join(t.split())
        out.append((k, t))
    return out


def txt(toks):
    return "".join(t for _, t in toks)


OPEN, CLOSE = {"(": ")", "[": "]", "{": "}"}, {")", "]", "}"}


def balanced(toks, i):
    """toks[i] opens a bracket: -> (inner tokens, index after the closing bracket)"""
    depth = 0
    for k in range(i, len(toks)):
        t = toks[k][1]
        if toks[k][0] == "op" and t in OPEN:
            depth += 1
        elif toks[k][0] == "op" and t in CLOSE:
            depth -= 1
            if depth == 0:
                return toks[i + 1:k], k + 1
    raise Untranslatable("unbalanced brackets")


def split_top(toks, sep, angles=False):
    """split at the separators outside brackets (angles: also outside template arguments - parameter lists only)"""
    parts, cur, depth = [], [], 0
    for t in toks:
        if t[0] == "op" and (t[1] in OPEN or (angles and t[1] == "<")):
            depth += 1
        elif t[0] == "op" and (t[1] in CLOSE or (angles and t[1] == ">")):
            depth -= 1
        if depth == 0 and t == ("op", sep):
            parts.append(cur)
            cur = []
        else:
            cur.append(t)
    parts.append(cur)
    return parts


def is_op(toks, i, t):
    return i < len(toks) and toks[i] == ("op", t)


def is_id(toks, i, t=None):
    return i < len(toks) and toks[i][0] == "id" and (t is None or toks[i][1] == t)


# ------------------------------------------------------------------------------------------------
# statements: ('simple', toks) ('return', toks) ('if', cond, then, else) ('for', header, body) ('while', cond, body)
# ('try', body, [handler bodies]) ('break',) ('continue',)

def parse_block(toks):
    out, i = [], 0
    while i < len(toks):
        ns, i = parse_stmt(toks, i)
        out += ns
    return out


def parse_stmt(toks, i):
    k, t = toks[i]
    if (k, t) == ("op", "{"):
        inner, j = balanced(toks, i)
        return [("block", parse_block(inner))], j
    if (k, t) == ("op", ";"):
        return [], i + 1
    if k == "id" and t in ("if", "while", "for"):
        if not is_op(toks, i + 1, "("):
            raise Untranslatable("`%s` without parentheses" % t)
        head, j = balanced(toks, i + 1)
        body, j = parse_stmt(toks, j)
        if t == "if":
            el = []
            if is_id(toks, j, "else"):
                el, j = parse_stmt(toks, j + 1)
            return [("if", head, unblock(body), unblock(el))], j
        return [(t, head, unblock(body))], j
    if k == "id" and t == "try":
        body, j = parse_stmt(toks, i + 1)
        handlers = []
        while is_id(toks, j, "catch"):
            _, j = balanced(toks, j + 1)
            hb, j = parse_stmt(toks, j)
            handlers.append(unblock(hb))
        return [("try", unblock(body), handlers)], j
    if k == "id" and t in ("do", "switch", "goto", "case", "default"):
        raise Untranslatable("unsupported statement `%s`" % t)
    depth, j = 0, i
    while j < len(toks):
        if toks[j][0] == "op" and toks[j][1] in OPEN:
            depth += 1
        elif toks[j][0] == "op" and toks[j][1] in CLOSE:
            depth -= 1
        elif depth == 0 and toks[j] == ("op", ";"):
            break
        j += 1
    if j >= len(toks):
        raise Untranslatable("statement without `;`")
    body = toks[i:j]
    if k == "id" and t in ("break", "continue"):
        return [(t,)], j + 1
    if k == "id" and t == "return":
        return [("return", body[1:])], j + 1
    return [("simple", body)], j + 1


def unblock(nodes):
    """a `{ ... }` used as the body of if/for/while is its statement list; a free-standing block stays a block"""
    if len(nodes) == 1 and nodes[0][0] == "block":
        return nodes[0][1]
    return nodes


def assigned_names(nodes):
    """every name a statement list may write (used to forget what is known about it)"""
    out = set()

    def scan(toks):
        for i, (k, t) in enumerate(toks):
            if k == "op" and t in ("=", "+=", "-=", "*=", "/=", "%=", "++", "--"):
                if i > 0 and toks[i - 1][0] == "id":
                    out.add(toks[i - 1][1])
                if t in ("++", "--") and is_id(toks, i + 1):
                    out.add(toks[i + 1][1])

    def walk(ns):
        for n in ns:
            if n[0] in ("simple", "return"):
                scan(n[1])
            elif n[0] == "if":
                scan(n[1]); walk(n[2]); walk(n[3])
            elif n[0] in ("for", "while"):
                scan(n[1]); walk(n[2])
            elif n[0] == "try":
                walk(n[1])
                for h in n[2]:
                    walk(h)
            elif n[0] == "block":
                walk(n[1])
    walk(nodes)
    return out


def all_tokens(nodes):
    out = []
    for n in nodes:
        if n[0] in ("simple", "return"):
            out += n[1]
        elif n[0] == "if":
            out += n[1] + all_tokens(n[2]) + all_tokens(n[3])
        elif n[0] in ("for", "while"):
            out += n[1] + all_tokens(n[2])
        elif n[0] == "try":
            out += all_tokens(n[1])
            for h in n[2]:
                out += all_tokens(h)
        elif n[0] == "block":
            out += all_tokens(n[1])
    return out


# ------------------------------------------------------------------------------------------------
# functions

ARITH = {"int": "int", "float": "float", "double": "double", "bool": "bool"}
FLOATING = ("float", "double")


def arith_type(type_toks):
    """the arithmetic type a declaration names, or None (references and const do not matter; pointers are no arithmetic)"""
    ts = [t for _, t in type_toks if t not in ("const", "&", "&&", "static", "constexpr", "inline", "virtual")]
    if len(ts) == 1 and ts[0] in ARITH:
        return ARITH[ts[0]]
    if len(ts) == 1 and ts[0] == "auto":
        return "auto"
    if ts and all(t in ("unsigned", "signed", "long", "short", "char", "int", "size_t", "std::size_t", "int64_t", "uint64_t",
                        "std::int64_t", "int32_t", "uint32_t", "longdouble") for t in ts):
        raise Untranslatable("integer type `%s` is not modelled (only 32-bit int)" % " ".join(ts))
    return None


class Function:
    def __init__(self, src, sig):
        try:
            at = src.index(sig)
        except ValueError:
            raise Untranslatable("function %s not found" % sig.rstrip("("))
        # return type: the text between the previous `;` / `}` / `{` and the qualified name
        start = max(src.rfind(c, 0, at) for c in ";{}") + 1
        self.ret_toks = tokenize(src[start:at])
        self.ret = arith_type(self.ret_toks)
        self.ret_text = txt(self.ret_toks)
        head = tokenize(src[at + len(sig) - 1: src.index("{", at)])
        ptoks, _ = balanced(head, 0)
        self.params = []          # (type tokens, name or None)
        for p in split_top(ptoks, ",", angles=True):
            if not p:
                continue
            eq = [i for i, t in enumerate(p) if t == ("op", "=")]
            if eq:
                p = p[:eq[0]]
            if p[-1][0] == "id" and len(p) > 1 and p[-1][1] not in ARITH:
                self.params.append((p[:-1], p[-1][1]))
            else:
                self.params.append((p, None))
        self.body = parse_block(tokenize(GG.fn_body(src, sig))[1:-1])
        self.name = sig.rstrip("(")


# ------------------------------------------------------------------------------------------------
# values:  ('a', tree, type)  arithmetic: type int | float | double | bool | count (an unsigned size)
#          ('point', 'N'|'P')  ('ptr', value)  ('node',)  ('entry',)  ('nodesmap',)  ('deglen', 'N'|'P', (t0, t1))
#          ('json', path)  ('jsonelem', key)  ('vec', name, kind)  ('cand', index value)  ('ntd', node, time, distance)
#          ('uninit', type)  ('opaque', why)
# trees:   nested tuples named after the constructors of coq/Geo.v

def lit_int(n):
    return ("GIntLit", n)


def to_floating(v, what="operand"):
    if v[0] != "a":
        raise Untranslatable("%s is not a number: %s" % (what, describe(v)))
    if v[2] in FLOATING:
        return v[1]
    if v[2] == "int":
        return ("GI2F", v[1])
    raise Untranslatable("%s of type %s where a floating value is needed" % (what, v[2]))


def convert(v, ty, what):
    """the conversion C++ applies when a value initialises / is assigned to / is passed as / is returned as type `ty`"""
    if v[0] == "uninit":
        raise Untranslatable("%s reads a variable before it has a value" % what)
    if v[0] != "a":
        raise Untranslatable("%s is not a number: %s" % (what, describe(v)))
    if ty == "auto":
        if v[2] == "count":
            raise Untranslatable("%s: an unsigned size kept as such is not modelled" % what)
        return v
    if v[2] == ty:
        return v
    if ty in FLOATING:
        if v[2] in FLOATING:
            return ("a", v[1], ty)                       # float <-> double: rounding only, outside the model
        if v[2] == "int":
            return ("a", ("GI2F", v[1]), ty)
    if ty == "int":
        if v[2] in FLOATING:
            return ("a", ("GF2I", v[1]), "int")
        if v[2] == "count":
            return ("a", v[1], "int")                    # int n = x.size(): the count, as an int
    raise Untranslatable("%s: conversion from %s to %s is not modelled" % (what, v[2], ty))


def describe(v):
    return {"a": "a number", "point": "a Point", "ptr": "a pointer", "node": "the stop of the loop", "nodesmap": "the stops",
            "deglen": "the degree lengths", "json": "a JSON value", "jsonelem": "a JSON number", "vec": "a vector",
            "cand": "a pre-filtered stop", "ntd": "a NodeTimeDistance", "uninit": "an uninitialised variable",
            "entry": "an entry of the stop map"}.get(v[0], v[1] if v[0] == "opaque" else v[0])


CMP = {"<=": "CLe", "<": "CLt", ">=": "CGe", ">": "CGt", "==": "CEq", "!=": "CNe"}
ARI = {"+": "OAdd", "-": "OSub", "*": "OMul", "/": "ODiv"}
MATH1 = {"sqrt": "GSqrt", "std::sqrt": "GSqrt", "sqrtf": "GSqrt", "ceil": "GCeil", "std::ceil": "GCeil", "ceilf": "GCeil",
         "floor": "GFloor", "std::floor": "GFloor", "floorf": "GFloor"}
CAST_TYPES = ("int", "float", "double")


class Ctx:
    """the sources, read once"""

    def __init__(self, repo):
        def read(rel):
            return GG.strip_c_comments(open(os.path.join(repo, rel)).read())
        self.geo, self.euclid, self.osrm = read(SRC_GEO), read(SRC_EUCLID), read(SRC_OSRM)
        self.point_hpp, self.node_hpp = read(HDR_POINT), read(HDR_NODE)
        self.cache = {}

    def fn(self, src, sig):
        if sig not in self.cache:
            self.cache[sig] = Function(src, sig)
        return self.cache[sig]

    def point_field(self, name):
        m = re.search(r"\b([A-Za-z_][\w ]*?)\s+((?:\w+\s*,\s*)*%s(?:\s*,\s*\w+)*)\s*;" % name, self.point_hpp)
        if not m:
            raise Untranslatable("member `%s` of Point not found in %s" % (name, HDR_POINT))
        ty = arith_type(tokenize(m.group(1)))
        if ty not in FLOATING:
            raise Untranslatable("Point::%s is declared `%s`: only floating coordinates are modelled" % (name, m.group(1).strip()))
        return ty

    def deglen_types(self):
        f = self.fn(self.geo, SIG_LEN)
        m = re.match(r"^(?:static)?std::tuple<(\w+),(\w+)>$", f.ret_text)
        if not m or m.group(1) not in FLOATING or m.group(2) not in FLOATING:
            raise Untranslatable("calculateLengthOfOneDegree does not return a tuple of two floating values: " + f.ret_text)
        rets = [n for n in f.body if n[0] == "return"]
        if len(rets) != 1:
            raise Untranslatable("calculateLengthOfOneDegree: one `return` expected")
        m2 = re.match(r"^std::make_tuple\((\w+),(\w+)\)$", txt(rets[0][1]))
        if not m2 or "ongitude" not in m2.group(1) or "atitude" not in m2.group(2) or "ongitude" in m2.group(2):
            raise Untranslatable("calculateLengthOfOneDegree: cannot tell which component is the longitude length: " + txt(rets[0][1])[:80])
        return (m.group(1), m.group(2))

    def ntd_ctor(self):
        """positions of (node, time, distance) among the constructor's parameters, and the parameter types"""
        m = re.search(r"NodeTimeDistance\s*\(\s*const\s+Node\s*&\s*(\w+)\s*,\s*(\w+)\s+(\w+)\s*,\s*(\w+)\s+(\w+)\s*\)\s*:([^{]*)\{", self.node_hpp)
        if not m:
            raise Untranslatable("constructor NodeTimeDistance(const Node&, T, T) not found in " + HDR_NODE)
        p = {m.group(3): (1, m.group(2)), m.group(5): (2, m.group(4))}
        inits = dict((a, b) for a, b in re.findall(r"(\w+)\s*\(\s*(\w+)\s*\)", m.group(6)))
        if inits.get("time") not in p or inits.get("distance") not in p or inits.get("time") == inits.get("distance"):
            raise Untranslatable("NodeTimeDistance: cannot tell which constructor argument is the time and which the distance")
        (ti, tt), (di, dt) = p[inits["time"]], p[inits["distance"]]
        for ty in (tt, dt):
            if ty != "int":
                raise Untranslatable("NodeTimeDistance takes `%s`: only int rows are modelled" % ty)
        return ti, di


class Ev:
    """symbolic execution of straight-line code + typed expression translation"""

    def __init__(self, ctx, env=None, decl=None):
        self.ctx = ctx
        self.env = dict(env or {})
        self.decl = dict(decl or {})        # declared type of the arithmetic locals (for later assignments)
        self.pushes = []                    # (vector value, argument value)
        self.depth = 0

    def child(self):
        e = Ev(self.ctx, self.env, self.decl)
        e.depth = self.depth
        return e

    # ---- expressions -------------------------------------------------------------------------
    def expression(self, toks):
        if not toks:
            raise Untranslatable("empty expression")
        self.t, self.i = toks, 0
        v = self.equality()
        if self.i != len(self.t):
            raise Untranslatable("unsupported operator `%s` in: %s" % (self.t[self.i][1], txt(toks)[:80]))
        return v

    def peek_op(self, *ops):
        return self.i < len(self.t) and self.t[self.i][0] == "op" and self.t[self.i][1] in ops

    def binary(self, op, a, b):
        for v in (a, b):
            if v[0] == "uninit":
                raise Untranslatable("a variable is read before it has a value")
            if v[0] != "a":
                raise Untranslatable("operand of `%s` is not a number: %s" % (op, describe(v)))
        ta, tb = a[2], b[2]
        if "bool" in (ta, tb):
            raise Untranslatable("arithmetic on a truth value (`%s`)" % op)
        if "count" in (ta, tb):
            # an unsigned size: only compared with a non-negative int literal (converted to unsigned without change)
            other = b if ta == "count" else a
            if op in CMP and other[2] == "int" and other[1][0] == "GIntLit" and other[1][1] >= 0:
                return ("a", ("GIcmp", CMP[op], a[1], b[1]), "bool")
            raise Untranslatable("unsigned size used with `%s` other than a comparison with a literal" % op)
        if ta == "int" and tb == "int":
            if op in CMP:
                return ("a", ("GIcmp", CMP[op], a[1], b[1]), "bool")
            return ("a", ("GIop", ARI[op], a[1], b[1]), "int")
        fa, fb = to_floating(a), to_floating(b)
        if op in CMP:
            return ("a", ("GFcmp", CMP[op], fa, fb), "bool")
        return ("a", ("GFop", ARI[op], fa, fb), "double" if "double" in (ta, tb) else "float")

    def level(self, ops, sub):
        v = sub()
        while self.peek_op(*ops):
            op = self.t[self.i][1]
            self.i += 1
            v = self.binary(op, v, sub())
        return v

    def equality(self):
        return self.level(("==", "!="), self.relational)

    def relational(self):
        return self.level(("<", "<=", ">", ">="), self.additive)

    def additive(self):
        return self.level(("+", "-"), self.multiplicative)

    def multiplicative(self):
        if self.peek_op("%"):
            raise Untranslatable("operator % is not modelled")
        return self.level(("*", "/"), self.unary)

    def cast(self, ty, v, what):
        if v[0] == "jsonelem":
            if ty not in FLOATING:
                raise Untranslatable("a JSON number read as %s is not modelled" % ty)
            var = {"durations": "FDuration", "distances": "FDistance"}.get(v[1])
            if var is None:
                raise Untranslatable("unknown table of the reply: " + str(v[1]))
            return ("a", ("GFlt", var), ty)
        return convert(v, ty, what)

    def unary(self):
        if self.peek_op("-"):
            self.i += 1
            v = self.unary()
            if v[0] == "a" and v[2] == "int" and v[1][0] == "GIntLit":
                return ("a", lit_int(-v[1][1]), "int")
            if v[0] == "a" and v[2] in FLOATING and v[1][0] == "GFltLit":
                return ("a", ("GFltLit", -v[1][1]), v[2])
            zero = ("a", lit_int(0), "int")
            return self.binary("-", zero, v)
        if self.peek_op("+"):
            self.i += 1
            return self.unary()
        if self.peek_op("!", "~", "*", "&", "++", "--"):
            raise Untranslatable("unsupported unary operator `%s`" % self.t[self.i][1])
        # (type) operand
        if self.peek_op("(") and is_id(self.t, self.i + 1) and self.t[self.i + 1][1] in CAST_TYPES and is_op(self.t, self.i + 2, ")"):
            ty = self.t[self.i + 1][1]
            self.i += 3
            return self.cast(ty, self.unary(), "cast to " + ty)
        return self.postfix()

    def arguments(self):
        """self.i at `(`: -> list of argument values"""
        inner, j = balanced(self.t, self.i)
        self.i = j
        args = []
        for part in split_top(inner, ","):
            if part:
                args.append(self.child().expression(part))
        return args

    def primary(self):
        if self.i >= len(self.t):
            raise Untranslatable("operand expected at the end of: " + txt(self.t)[:80])
        k, t = self.t[self.i]
        if k == "num":
            self.i += 1
            body = t.rstrip("fFlLuU")
            suffix = t[len(body):].lower()
            if re.match(r"^\d+$", body) and not re.match(r"^0\d", body):
                if suffix:
                    raise Untranslatable("integer literal with suffix: " + t)
                return ("a", lit_int(int(body)), "int")
            if re.match(r"^(?:\d+\.\d*|\.\d+|\d+)(?:[eE][+-]?\d+)?$", body) and suffix in ("", "f"):
                return ("a", ("GFltLit", Fraction(body)), "float" if suffix == "f" else "double")
            raise Untranslatable("literal not understood: " + t)
        if k == "str":
            self.i += 1
            return ("str", t)
        if (k, t) == ("op", "("):
            inner, j = balanced(self.t, self.i)
            self.i = j
            return self.child().expression(inner)
        if k != "id":
            raise Untranslatable("operand expected at `%s` in: %s" % (t, txt(self.t)[:80]))
        self.i += 1
        name = t
        for pre in ("GeoFilter::", "this->"):
            if name.startswith(pre):
                name = name[len(pre):]
        if name == "this" and self.peek_op("->") and is_id(self.t, self.i + 1):
            name = self.t[self.i + 1][1]
            self.i += 2
        if name in ("static_cast", "std::get"):
            if not self.peek_op("<"):
                raise Untranslatable(name + " without template argument")
            j = self.i + 1
            targ = []
            while j < len(self.t) and self.t[j] != ("op", ">"):
                targ.append(self.t[j])
                j += 1
            self.i = j + 1
            if not self.peek_op("("):
                raise Untranslatable(name + " without argument")
            args = self.arguments()
            if len(args) != 1:
                raise Untranslatable(name + ": one argument expected")
            if name == "static_cast":
                ty = arith_type(targ)
                if ty not in CAST_TYPES:
                    raise Untranslatable("static_cast to " + txt(targ))
                return self.cast(ty, args[0], "static_cast")
            if args[0][0] != "deglen" or len(targ) != 1 or targ[0][1] not in ("0", "1"):
                raise Untranslatable("std::get on something else than the degree lengths")
            n = int(targ[0][1])
            if args[0][1] != "P":
                raise Untranslatable("degree lengths taken at the stop, not at the query point")
            return ("a", ("GFlt", ("FLenLon", "FLenLat")[n]), args[0][2][n])
        if name in CAST_TYPES and self.peek_op("("):
            args = self.arguments()
            if len(args) != 1:
                raise Untranslatable("functional cast with %d arguments" % len(args))
            return self.cast(name, args[0], "cast to " + name)
        if name in MATH1 and self.peek_op("("):
            args = self.arguments()
            if len(args) != 1:
                raise Untranslatable(name + ": one argument expected")
            return ("a", (MATH1[name], to_floating(args[0], "argument of " + name)), "float" if name.endswith("f") else "double")
        if name == "NodeTimeDistance" and self.peek_op("("):
            args = self.arguments()
            if len(args) != 3:
                raise Untranslatable("NodeTimeDistance with %d arguments" % len(args))
            ti, di = self.ctx.ntd_ctor()
            return ("ntd", args[0], convert(args[ti], "int", "time of the row"), convert(args[di], "int", "distance of the row"))
        if name in ("calculateMaxDistanceSquared", "calculateNodeDistanceSquared", "calculateLengthOfOneDegree") and self.peek_op("("):
            args = self.arguments()
            return self.call(name, args)
        if name in self.env:
            return self.env[name]
        raise Untranslatable("unknown identifier `%s`" % name)

    def postfix(self):
        v = self.primary()
        while True:
            if self.peek_op(".", "->") and is_id(self.t, self.i + 1):
                arrow = self.t[self.i][1] == "->"
                member = self.t[self.i + 1][1]
                self.i += 2
                call = None
                if self.peek_op("("):
                    call = self.arguments()
                v = self.member(v, member, arrow, call)
            elif self.peek_op("["):
                inner, j = balanced(self.t, self.i)
                self.i = j
                v = self.index(v, self.child().expression(inner))
            else:
                return v

    def member(self, v, m, arrow, call):
        if arrow:
            if v[0] != "ptr":
                raise Untranslatable("`->%s` on %s" % (m, describe(v)))
            v = v[1]
        elif v[0] == "ptr" and m == "get" and call == []:
            return v                                          # unique_ptr::get()
        if v[0] == "point" and call is None and m in ("longitude", "latitude"):
            ty = self.ctx.point_field(m)
            return ("a", ("GFlt", {"longitude": "FLon", "latitude": "FLat"}[m] + v[1]), ty)
        if v[0] == "node" and call is None and m == "point":
            return ("ptr", ("point", "N"))
        if v[0] == "entry" and call is None and m == "second":
            return ("node",)
        if v[0] == "ptr" and m == "get" and call == []:
            return v
        if v[0] == "vec" and m == "size" and call == []:
            if v[2] == "cands":
                return ("a", ("GInt", "ICandidates"), "count")
            return ("opaque", "size of " + v[1])
        if v[0] == "vec" and m == "empty" and call == [] and v[2] == "cands":
            return ("a", ("GIcmp", "CEq", ("GInt", "ICandidates"), lit_int(0)), "bool")
        if v[0] == "vec" and m == "at" and call is not None and len(call) == 1:
            return self.index(v, call[0])
        if v[0] == "json" and m == "size" and call == []:
            if v[1] == ("durations", 0):
                return ("a", ("GInt", "INumDurations"), "count")
            return ("opaque", "size of a JSON array")
        if v[0] == "json" and m == "at" and call is not None and len(call) == 1:
            return self.index(v, call[0])
        if v[0] in ("jsonelem",) and m == "get" and call == []:
            raise Untranslatable("get<T>() on a JSON number is not read")
        if v[0] == "opaque":
            return v
        raise Untranslatable("member `%s` of %s" % (m, describe(v)))

    def index(self, v, ix):
        if v[0] == "json":
            if ix[0] == "str":
                return ("json", v[1] + (ix[1].strip('"'),))
            if ix[0] == "a" and ix[1][0] == "GIntLit":
                return ("json", v[1] + (ix[1][1],))
            if ix[0] == "a" and ix[1] == ("GInt", "IRow") and len(v[1]) == 2 and v[1][1] == 0:
                return ("jsonelem", v[1][0])
            raise Untranslatable("JSON value indexed by something else than a key, a literal or the row index")
        if v[0] == "vec" and v[2] == "cands":
            return ("cand", convert(ix, "int", "index into the pre-filtered stops"))
        if v[0] == "opaque":
            return v
        raise Untranslatable("index into %s" % describe(v))

    # ---- calls -------------------------------------------------------------------------------
    def call(self, name, args):
        if self.depth > 4:
            raise Untranslatable("calls nested too deeply")
        if name == "calculateLengthOfOneDegree":
            if len(args) != 1 or args[0][0] != "point":
                raise Untranslatable("calculateLengthOfOneDegree of something else than a Point")
            return ("deglen", args[0][1], self.ctx.deglen_types())
        f = self.ctx.fn(self.ctx.geo, SIG_MAX if name == "calculateMaxDistanceSquared" else SIG_NODE)
        if len(args) != len(f.params):
            raise Untranslatable("%s called with %d arguments" % (name, len(args)))
        return run_function(self.ctx, f, args, self.depth + 1)

    # ---- statements --------------------------------------------------------------------------
    def declare(self, toks):
        """-> True when the statement is a declaration (and has been executed)"""
        i = 0
        while is_id(toks, i) and toks[i][1] in ("const", "static", "constexpr"):
            i += 1
        if not is_id(toks, i):
            return False
        if toks[i][1] in ("using", "typedef"):
            return True
        j = i + 1
        while is_id(toks, j) and toks[j][1] in ("int", "long", "unsigned", "short", "char", "const", "double"):
            j += 1                                             # `unsigned int`, `long long`, `int const`
        if is_op(toks, j, "<"):                                # template arguments
            depth = 0
            while j < len(toks):
                if toks[j] == ("op", "<"):
                    depth += 1
                elif toks[j] == ("op", ">"):
                    depth -= 1
                    if depth == 0:
                        j += 1
                        break
                j += 1
            if is_op(toks, j, "::") or (is_id(toks, j) and toks[j][1].startswith("::")):
                return False
        while j < len(toks) and toks[j][0] == "op" and toks[j][1] in ("&", "&&", "*"):
            j += 1
        while is_id(toks, j, "const"):
            j += 1
        if is_op(toks, j, "["):                                # structured binding
            type_toks = toks[i:j]
            names, j2 = balanced(toks, j)
            for n in names:
                if n[0] == "id":
                    self.env[n[1]] = ("opaque", "structured binding")
            return True
        if not is_id(toks, j) or not (j + 1 == len(toks) or (toks[j + 1][0] == "op" and toks[j + 1][1] in ("=", "(", "{", ","))):
            return False
        type_toks = toks[i:j]
        ty = arith_type(type_toks)
        rest = toks[j:]
        if ty is None:
            # an object
            name = rest[0][1]
            t = txt(type_toks)
            if "vector" in t and "NodeTimeDistance" in t:
                self.env[name] = ("vec", name, "rows")
            elif "vector" in t and "Node" in t:
                self.env[name] = ("vec", name, "cands")
            elif "json" in t:
                self.env[name] = ("json", ())
            else:
                self.env[name] = ("opaque", "an object of type " + t)
            return True
        for d in split_top(rest, ","):
            if not d or d[0][0] != "id":
                raise Untranslatable("declaration not understood: " + txt(toks)[:80])
            name, init = d[0][1], d[1:]
            if not init:
                if ty == "auto":
                    raise Untranslatable("`auto %s` without initial value" % name)
                self.decl[name] = ty
                self.env[name] = ("uninit", ty)
                continue
            if init[0] == ("op", "="):
                init = init[1:]
            elif init[0][0] == "op" and init[0][1] in ("(", "{"):
                init, _ = balanced(init, 0)
            try:
                v = self.child().expression(init)
                if ty == "auto" and v[0] != "a":
                    self.env[name] = v                         # an object (degree lengths, ...)
                    continue
                v = convert(v, ty, "initial value of `%s`" % name)
                self.decl[name] = v[2]
                self.env[name] = v
            except Untranslatable as e:
                if ty != "auto":
                    self.decl[name] = ty
                self.env[name] = ("opaque", "`%s`: %s" % (name, e))
        return True

    def simple(self, toks):
        if not toks:
            return
        if self.declare(toks):
            return
        if is_id(toks, 0) and len(toks) > 1 and toks[1][0] == "op" and toks[1][1] in ("=", "+=", "-=", "*=", "/=", "%="):
            name = toks[0][1]
            if toks[1][1] != "=":
                if name in self.env and self.env[name][0] in ("a", "uninit"):
                    self.env[name] = ("opaque", "`%s` is changed by `%s`" % (name, toks[1][1]))
                return
            if name not in self.env:
                return                                         # a member or something not tracked
            old = self.env[name]
            if old[0] in ("a", "uninit") or name in self.decl:
                ty = self.decl.get(name, old[2] if old[0] == "a" else None)
                try:
                    self.env[name] = convert(self.child().expression(toks[2:]), ty, "value assigned to `%s`" % name)
                except Untranslatable as e:
                    self.env[name] = ("opaque", "`%s`: %s" % (name, e))
            return
        # X.push_back(arg) / X.emplace_back(args)
        if len(toks) >= 4 and is_id(toks, 0) and is_op(toks, 1, ".") and is_id(toks, 2) and toks[2][1] in ("push_back", "emplace_back") \
                and is_op(toks, 3, "("):
            vec = self.env.get(toks[0][1])
            if vec is not None and vec[0] == "vec":
                inner, j = balanced(toks, 3)
                if j != len(toks):
                    raise Untranslatable("text after push_back(...)")
                try:
                    if toks[2][1] == "emplace_back" and vec[2] == "rows":
                        inner = [("id", "NodeTimeDistance"), ("op", "(")] + inner + [("op", ")")]
                    arg = self.child().expression(inner)
                except Untranslatable as e:
                    arg = ("opaque", str(e))
                self.pushes.append((vec, arg))
            return
        for n in assigned_names([("simple", toks)]):
            if n in self.env and self.env[n][0] in ("a", "uninit"):
                self.env[n] = ("opaque", "`%s` is changed by an unread statement" % n)

    def forget(self, nodes):
        """statements whose effect is not followed: what they may write is no longer known"""
        for n in assigned_names(nodes):
            if n in self.env and self.env[n][0] in ("a", "uninit"):
                self.env[n] = ("opaque", "`%s` is assigned under a condition or in a loop" % n)

    def condition(self, toks):
        v = self.child().expression(toks)
        if v[0] != "a" or v[2] != "bool":
            raise Untranslatable("condition is not a comparison: " + txt(toks)[:80])
        return v[1]


def run_function(ctx, f, args, depth=0):
    """the value a call returns: parameters bound to the converted arguments, body executed, `return` converted"""
    ev = Ev(ctx)
    ev.depth = depth
    for (ptoks, pname), a in zip(f.params, args):
        if pname is None:
            continue
        ty = arith_type(ptoks)
        if ty is not None:
            v = convert(a, ty, "argument `%s` of %s" % (pname, f.name))
            ev.decl[pname] = v[2]
            ev.env[pname] = v
            continue
        t = txt(ptoks)
        if "Point" in t and "*" in t:
            want = "ptr"
        elif "Point" in t:
            want = "point"
        elif "tuple" in t:
            want = "deglen"
        else:
            want = None
        if a[0] == "ptr" and want == "point":
            raise Untranslatable("a pointer passed where %s takes a Point" % f.name)
        if want is not None and a[0] != want:
            raise Untranslatable("argument `%s` of %s is %s" % (pname, f.name, describe(a)))
        ev.env[pname] = a
    for n in f.body:
        if n[0] == "simple":
            ev.simple(n[1])
        elif n[0] == "return":
            if f.ret is None:
                raise Untranslatable("%s returns `%s`" % (f.name, f.ret_text))
            return convert(ev.child().expression(n[1]), f.ret, "value returned by " + f.name)
        else:
            raise Untranslatable("%s is not straight-line code any more (`%s`)" % (f.name, n[0]))
    raise Untranslatable("%s: no `return`" % f.name)


# ------------------------------------------------------------------------------------------------
# the fragments

def frag_max_dist_sq(ctx):
    f = ctx.fn(ctx.geo, SIG_MAX)
    ar = [(p, n) for p, n in f.params]
    if len(ar) != 2:
        raise Untranslatable("calculateMaxDistanceSquared takes %d parameters" % len(ar))
    v = run_function(ctx, f, [("a", ("GInt", "IMaxT"), "int"), ("a", ("GFlt", "FSpeed"), "float")])
    return v[1]


def frag_node_dist_sq(ctx):
    f = ctx.fn(ctx.geo, SIG_NODE)
    args, points = [], 0
    for ptoks, _ in f.params:
        t = txt(ptoks)
        if "Point" in t:
            which = "NP"[points] if points < 2 else None
            if which is None:
                raise Untranslatable("calculateNodeDistanceSquared takes more than two points")
            points += 1
            args.append(("ptr", ("point", which)) if "*" in t else ("point", which))
        elif "tuple" in t:
            args.append(("deglen", "P", ctx.deglen_types()))
        else:
            raise Untranslatable("calculateNodeDistanceSquared: parameter of type " + t)
    if points != 2:
        raise Untranslatable("calculateNodeDistanceSquared does not take two points")
    return run_function(ctx, f, args)[1]


def filter_env(ctx, f):
    """the parameters of getAccessibleNodesFootpathsFromPoint: the query point, the stops, the maximum (sent as an int), the
    speed (sent as a float) - each converted to the type the parameter is declared with"""
    ev = Ev(ctx)
    canon = [("a", ("GInt", "IMaxT"), "int"), ("a", ("GFlt", "FSpeed"), "float")]
    for ptoks, pname in f.params:
        ty = arith_type(ptoks)
        t = txt(ptoks)
        if ty == "bool":
            if pname:
                ev.env[pname] = ("opaque", "the direction flag")
        elif ty is not None:
            if not canon:
                raise Untranslatable("%s takes more than two numbers" % f.name)
            v = convert(canon.pop(0), ty, "parameter `%s`" % pname)
            if pname:
                ev.env[pname] = v
                ev.decl[pname] = v[2]
        elif "map" in t and "Node" in t:
            if pname:
                ev.env[pname] = ("nodesmap",)
        elif "Point" in t and "*" not in t:
            if pname:
                ev.env[pname] = ("point", "P")
        else:
            raise Untranslatable("%s: parameter of type %s" % (f.name, t))
    if canon:
        raise Untranslatable("%s does not take a maximum and a speed" % f.name)
    return ev


def range_for_node(ev, header):
    """`for (auto &&[uuid, node] : nodes)` / `for (auto &entry : nodes)`: binds the stop; False when the loop is another one"""
    parts = split_top(header, ":")
    if len(parts) != 2 or any(t == ("op", ";") for t in header):
        return False
    try:
        rng = ev.child().expression(parts[1])
    except Untranslatable:
        return False
    if rng[0] != "nodesmap":
        return False
    d = parts[0]
    br = [i for i, t in enumerate(d) if t == ("op", "[")]
    if br:
        names, _ = balanced(d, br[0])
        ids = [t[1] for t in names if t[0] == "id"]
        if len(ids) != 2:
            raise Untranslatable("structured binding over the stops with %d names" % len(ids))
        ev.env[ids[0]] = ("opaque", "the uuid of the stop")
        ev.env[ids[1]] = ("node",)
    elif d and d[-1][0] == "id":
        ev.env[d[-1][1]] = ("entry",)
    else:
        raise Untranslatable("loop variable over the stops not understood")
    return True


def guarded_push(ev, body, kind):
    """a loop body: statements executed in order; exactly one `if` (without else) whose block pushes once to the vector
    of kind `kind`, and no other push to it -> (condition tree, pushed value)"""
    found = None
    for n in body:
        if n[0] == "simple":
            ev.simple(n[1])
        elif n[0] == "if":
            inner = ev.child()
            inner.pushes = []
            for s in n[2]:
                if s[0] == "simple":
                    inner.simple(s[1])
                else:
                    inner.forget([s])
                    if any(t == ("id", "push_back") or t == ("id", "emplace_back") for t in all_tokens([s])):
                        raise Untranslatable("a push inside a nested statement")
            mine = [p for p in inner.pushes if p[0][2] == kind]
            if mine:
                if n[3]:
                    raise Untranslatable("the test around the push has an `else`")
                if found is not None or len(mine) != 1:
                    raise Untranslatable("more than one push in the loop")
                found = (ev.condition(n[1]), mine[0][1])
                ev.pushes += [p for p in inner.pushes if p[0][2] != kind]
            else:
                if any(t in (("id", "push_back"), ("id", "emplace_back")) for t in all_tokens(n[3])) and \
                        any(p[0][2] == kind for p in push_scan(ev, n[3])):
                    raise Untranslatable("a push in an `else`")
                ev.pushes += inner.pushes
            ev.forget([n])
        elif n[0] in ("break", "continue", "return"):
            raise Untranslatable("`%s` in the loop body" % n[0])
        else:
            if any(t in (("id", "push_back"), ("id", "emplace_back")) for t in all_tokens([n])):
                raise Untranslatable("a push inside a nested `%s`" % n[0])
            ev.forget([n])
    if any(p[0][2] == kind for p in ev.pushes):
        raise Untranslatable("a push outside the test")
    if found is None:
        raise Untranslatable("no tested push found in the loop")
    return found


def push_scan(ev, nodes):
    inner = ev.child()
    inner.pushes = []
    for s in nodes:
        if s[0] == "simple":
            try:
                inner.simple(s[1])
            except Untranslatable:
                pass
    return inner.pushes


def frag_euclid(ctx):
    f = ctx.fn(ctx.euclid, SIG_EUCLID)
    ev = filter_env(ctx, f)
    for n in f.body:
        if n[0] == "simple":
            ev.simple(n[1])
            continue
        if n[0] == "for" and range_for_node(ev, n[1]):
            if any(p[0][2] == "rows" for p in ev.pushes):
                raise Untranslatable("a row is pushed before the loop over the stops")
            inner = ev.child()
            inner.pushes = []
            cond, row = guarded_push(inner, n[2], "rows")
            if row[0] != "ntd":
                raise Untranslatable("what is pushed is not NodeTimeDistance(...): " + describe(row))
            if row[1] != ("node",):
                raise Untranslatable("the row is not about the stop of the loop")
            return dict(gen_geo_euclid_guard=cond, gen_geo_euclid_distance=row[3][1], gen_geo_euclid_time=row[2][1])
        if n[0] == "return":
            break
        ev.forget([n])
    raise Untranslatable("the loop over the stops was not found")


ASKS = ("request", "HttpClient", "SimpleWeb::Client", "client")


def frag_osrm(ctx, report):
    """-> dict name -> tree/bool for the groups that could be read; report[group] = reason for the others"""
    out = {}
    f = ctx.fn(ctx.osrm, SIG_OSRM)
    ev = filter_env(ctx, f)
    body = f.body
    # 1. the pre-filter loop
    k = 0
    pre = None
    while k < len(body):
        n = body[k]
        k += 1
        if n[0] == "simple":
            ev.simple(n[1])
        elif n[0] == "for" and range_for_node(ev, n[1]):
            if any(p[0][2] == "cands" for p in ev.pushes):
                raise Untranslatable("a stop is sent before the loop over the stops")
            inner = ev.child()
            inner.pushes = []
            pre = True
            try:
                cond, what = guarded_push(inner, n[2], "cands")
                if what != ("node",):
                    raise Untranslatable("what is pushed in the pre-filter loop is not the stop of the loop")
                if any(p[0][2] == "rows" for p in inner.pushes + ev.pushes):
                    raise Untranslatable("a row is pushed in or before the pre-filter loop")
                out["gen_geo_osrm_prefilter_guard"] = cond
            except Untranslatable as e:
                # the rest of the function is still read
                report["fallback"].append("osrm_prefilter: %s" % e)
                if any(p[0][2] == "rows" for p in push_scan(ev, [s for s in all_simple(n[2])])):
                    raise Untranslatable("a row is pushed in the pre-filter loop")
            ev.forget([n])
            break
        elif n[0] == "return":
            raise Untranslatable("`return` before the pre-filter loop")
        else:
            ev.forget([n])
    if pre is None:
        raise Untranslatable("the pre-filter loop over the stops was not found")
    # 2. the early return: between the pre-filter loop and the first statement that talks to the router
    try:
        asked_at = None
        for j in range(k, len(body)):
            if any(t[0] == "id" and (t[1] in ASKS or t[1].startswith("SimpleWeb")) for t in all_tokens([body[j]])):
                asked_at = j
                break
        if asked_at is None:
            raise Untranslatable("the statement that asks the walking router was not found")
        test = None
        for j in range(k, asked_at):
            n = body[j]
            if n[0] == "simple":
                ev.simple(n[1])
            elif n[0] == "if" and not n[3] and n[2] and n[2][-1][0] == "return":
                c = ev.condition(n[1])
                if "ICandidates" not in flatten(c):
                    raise Untranslatable("a `return` before the router is asked that does not test the candidate list")
                inner = ev.child()
                inner.pushes = []
                for s in n[2][:-1]:
                    if s[0] == "simple":
                        inner.simple(s[1])
                    else:
                        raise Untranslatable("the early-return block is not straight-line code")
                rv = inner.child().expression(n[2][-1][1])
                ok = rv[0] == "vec" and rv[2] == "rows" and not any(p[0][2] == "rows" for p in inner.pushes + ev.pushes)
                test = (c, ok)
            elif n[0] == "return":
                raise Untranslatable("unconditional `return` before the router is asked")
            else:
                ev.forget([n])
        if test is None:
            # the test is gone: said so, as `false` (this is a change of behaviour, not a translator limit)
            out["gen_geo_osrm_empty_test"] = ("GIcmp", "CEq", ("GInt", "ICandidates"), lit_int(0))
            out["gen_geo_osrm_empty_returns_nothing"] = False
            report["notes"].append("osrm_empty: no `if (<no candidate>) return <rows>;` before the walking router is asked - emitted as false")
        else:
            out["gen_geo_osrm_empty_test"], out["gen_geo_osrm_empty_returns_nothing"] = test
        k = asked_at
    except Untranslatable as e:
        report["fallback"].append("osrm_empty: %s" % e)
        k = len(body) if asked_at is None else asked_at
    # 3. the loop over the reply
    try:
        rows = find_row_loop(ev, body[k:])
        if rows is None:
            raise Untranslatable("the loop over the rows of the reply was not found")
        out.update(rows)
    except Untranslatable as e:
        report["fallback"].append("osrm_rows: %s" % e)
    return out


def all_simple(nodes):
    """the simple statements of a statement list, at any depth"""
    out = []
    for n in nodes:
        if n[0] == "simple":
            out.append(n)
        elif n[0] == "if":
            out += all_simple(n[2]) + all_simple(n[3])
        elif n[0] in ("for", "while"):
            out += all_simple(n[2])
        elif n[0] == "try":
            out += all_simple(n[1])
            for h in n[2]:
                out += all_simple(h)
        elif n[0] == "block":
            out += all_simple(n[1])
    return out


def flatten(tree):
    if isinstance(tree, tuple):
        return [x for t in tree for x in flatten(t)]
    return [tree]


def find_row_loop(ev, nodes):
    for n in nodes:
        if n[0] == "simple":
            ev.simple(n[1])
        elif n[0] == "for":
            r = row_loop(ev, n)
            if r is not None:
                return r
            ev.forget([n])
        elif n[0] == "if":
            for branch in (n[2], n[3]):
                r = find_row_loop(ev.child(), branch)
                if r is not None:
                    return r
            ev.forget([n])
        elif n[0] == "try":
            inner = ev.child()
            r = find_row_loop(inner, n[1])
            if r is not None:
                return r
            # declarations inside a `try` are not visible after it; what it assigns is still known to be assigned
            ev.forget([n])
        elif n[0] in ("while",):
            ev.forget([n])
        elif n[0] == "block":
            r = find_row_loop(ev.child(), n[1])
            if r is not None:
                return r
            ev.forget([n])
    return None


def row_loop(ev, n):
    if not any(t in (("id", "push_back"), ("id", "emplace_back")) for t in all_tokens(n[2])):
        return None
    parts = split_top(n[1], ";")
    if len(parts) != 3:
        return None
    init, cond, step = parts
    if len(init) < 4 or not is_id(init, 0, "int") or not is_id(init, 1) or not is_op(init, 2, "="):
        raise Untranslatable("the row loop does not start with `int i = ...`")
    var = init[1][1]
    inner = ev.child()
    inner.pushes = []
    first = convert(inner.child().expression(init[3:]), "int", "first row index")[1]
    inner.env[var] = ("a", ("GInt", "IRow"), "int")
    inner.decl[var] = "int"
    cont = inner.condition(cond)
    st = txt(step)
    if st not in (var + "++", "++" + var, var + "+=1", "%s=%s+1" % (var, var)):
        raise Untranslatable("the row loop does not advance by one: " + st)
    c, row = guarded_push(inner, n[2], "rows")
    if row[0] != "ntd":
        raise Untranslatable("what is pushed is not NodeTimeDistance(...): " + describe(row))
    if row[1][0] != "cand":
        raise Untranslatable("the row is not about a pre-filtered stop: " + describe(row[1]))
    return dict(gen_geo_osrm_row_first=first, gen_geo_osrm_row_continue=cont, gen_geo_osrm_row_time=row[2][1],
                gen_geo_osrm_row_guard=c, gen_geo_osrm_row_distance=row[3][1], gen_geo_osrm_row_node_index=row[1][1][1])


# ------------------------------------------------------------------------------------------------
# Coq text

def coq_z(n):
    return str(n) if n >= 0 else "(%d)" % n


def coq(tree):
    h = tree[0]
    if h in ("GInt", "GFlt"):
        return "(%s %s)" % (h, tree[1])
    if h == "GIntLit":
        return "(GIntLit %s)" % coq_z(tree[1])
    if h == "GFltLit":
        q = tree[1]
        return "(GFltLit (Qmake %s %d))" % (coq_z(q.numerator), q.denominator)
    if h in ("GI2F", "GF2I", "GSqrt", "GCeil", "GFloor"):
        return "(%s %s)" % (h, coq(tree[1]))
    if h in ("GIop", "GFop", "GIcmp", "GFcmp"):
        return "(%s %s %s %s)" % (h, tree[1], coq(tree[2]), coq(tree[3]))
    raise Untranslatable("internal: unknown tree node " + str(h))


def coq_value(v):
    if isinstance(v, bool):
        return "true" if v else "false"
    return coq(v)


# name, Coq type, group, what it is
FRAGMENTS = [
    ("gen_geo_max_dist_sq", "gexp", "max_dist_sq", "GeoFilter::calculateMaxDistanceSquared(int maxWalkingTravelTime, float walkingSpeed): what it returns"),
    ("gen_geo_node_dist_sq", "gexp", "node_dist_sq", "GeoFilter::calculateNodeDistanceSquared(stop, point, lengthOfOneDegree): what it returns (degree lengths are inputs)"),
    ("gen_geo_euclid_guard", "gexp", "euclid", "EuclideanGeoFilter: the test under which a stop gets a row (calls inlined)"),
    ("gen_geo_euclid_distance", "gexp", "euclid", "EuclideanGeoFilter: the distance argument of the row"),
    ("gen_geo_euclid_time", "gexp", "euclid", "EuclideanGeoFilter: the time argument of the row"),
    ("gen_geo_osrm_prefilter_guard", "gexp", "osrm_prefilter", "OsrmGeoFilter: the test under which a stop is sent to the walking router"),
    ("gen_geo_osrm_empty_test", "gexp", "osrm_empty", "OsrmGeoFilter: the test of the early return"),
    ("gen_geo_osrm_empty_returns_nothing", "bool", "osrm_empty",
     "OsrmGeoFilter: under that test the (still empty) row vector is returned, before anything talks to the walking router"),
    ("gen_geo_osrm_row_first", "gexp", "osrm_rows", "OsrmGeoFilter: first index of the loop over the reply"),
    ("gen_geo_osrm_row_continue", "gexp", "osrm_rows", "OsrmGeoFilter: continuation test of the loop over the reply"),
    ("gen_geo_osrm_row_time", "gexp", "osrm_rows", "OsrmGeoFilter: the time argument of the row"),
    ("gen_geo_osrm_row_guard", "gexp", "osrm_rows", "OsrmGeoFilter: the test under which a row of the reply is kept"),
    ("gen_geo_osrm_row_distance", "gexp", "osrm_rows", "OsrmGeoFilter: the distance argument of the row"),
    ("gen_geo_osrm_row_node_index", "gexp", "osrm_rows", "OsrmGeoFilter: which pre-filtered stop the row is about"),
]
GROUPS = ["max_dist_sq", "node_dist_sq", "euclid", "osrm_prefilter", "osrm_empty", "osrm_rows"]

# the committed trees (python3 tools/gen_geo.py --print-hand)
HAND = [
    ('gen_geo_max_dist_sq', 'gexp',
     '(GFop OMul (GFop OMul (GI2F (GInt IMaxT)) (GFlt FSpeed)) (GFop OMul (GI2F (GInt IMaxT)) (GFlt FSpeed)))'),
    ('gen_geo_node_dist_sq', 'gexp',
     '(GFop OAdd (GFop OMul (GFop OMul (GFop OSub (GFlt FLonN) (GFlt FLonP)) (GFlt FLenLon)) (GFop OMul (GFop OSub (GFlt FLonN) (GFlt FLonP)) (GFlt FLenLon))) (GFop OMul (GFop OMul (GFop OSub (GFlt FLatN) (GFlt FLatP)) (GFlt FLenLat)) (GFop OMul (GFop OSub (GFlt FLatN) (GFlt FLatP)) (GFlt FLenLat))))'),
    ('gen_geo_euclid_guard', 'gexp',
     '(GFcmp CLe (GFop OAdd (GFop OMul (GFop OMul (GFop OSub (GFlt FLonN) (GFlt FLonP)) (GFlt FLenLon)) (GFop OMul (GFop OSub (GFlt FLonN) (GFlt FLonP)) (GFlt FLenLon))) (GFop OMul (GFop OMul (GFop OSub (GFlt FLatN) (GFlt FLatP)) (GFlt FLenLat)) (GFop OMul (GFop OSub (GFlt FLatN) (GFlt FLatP)) (GFlt FLenLat)))) (GFop OMul (GFop OMul (GI2F (GInt IMaxT)) (GFlt FSpeed)) (GFop OMul (GI2F (GInt IMaxT)) (GFlt FSpeed))))'),
    ('gen_geo_euclid_distance', 'gexp',
     '(GF2I (GSqrt (GFop OAdd (GFop OMul (GFop OMul (GFop OSub (GFlt FLonN) (GFlt FLonP)) (GFlt FLenLon)) (GFop OMul (GFop OSub (GFlt FLonN) (GFlt FLonP)) (GFlt FLenLon))) (GFop OMul (GFop OMul (GFop OSub (GFlt FLatN) (GFlt FLatP)) (GFlt FLenLat)) (GFop OMul (GFop OSub (GFlt FLatN) (GFlt FLatP)) (GFlt FLenLat))))))'),
    ('gen_geo_euclid_time', 'gexp',
     '(GF2I (GFop ODiv (GI2F (GF2I (GSqrt (GFop OAdd (GFop OMul (GFop OMul (GFop OSub (GFlt FLonN) (GFlt FLonP)) (GFlt FLenLon)) (GFop OMul (GFop OSub (GFlt FLonN) (GFlt FLonP)) (GFlt FLenLon))) (GFop OMul (GFop OMul (GFop OSub (GFlt FLatN) (GFlt FLatP)) (GFlt FLenLat)) (GFop OMul (GFop OSub (GFlt FLatN) (GFlt FLatP)) (GFlt FLenLat))))))) (GFlt FSpeed)))'),
    ('gen_geo_osrm_prefilter_guard', 'gexp',
     '(GFcmp CLe (GFop OAdd (GFop OMul (GFop OMul (GFop OSub (GFlt FLonN) (GFlt FLonP)) (GFlt FLenLon)) (GFop OMul (GFop OSub (GFlt FLonN) (GFlt FLonP)) (GFlt FLenLon))) (GFop OMul (GFop OMul (GFop OSub (GFlt FLatN) (GFlt FLatP)) (GFlt FLenLat)) (GFop OMul (GFop OSub (GFlt FLatN) (GFlt FLatP)) (GFlt FLenLat)))) (GFop OMul (GFop OMul (GI2F (GInt IMaxT)) (GFlt FSpeed)) (GFop OMul (GI2F (GInt IMaxT)) (GFlt FSpeed))))'),
    ('gen_geo_osrm_empty_test', 'gexp',
     '(GIcmp CEq (GInt ICandidates) (GIntLit 0))'),
    ('gen_geo_osrm_empty_returns_nothing', 'bool',
     'true'),
    ('gen_geo_osrm_row_first', 'gexp',
     '(GIntLit 1)'),
    ('gen_geo_osrm_row_continue', 'gexp',
     '(GIcmp CLt (GInt IRow) (GInt INumDurations))'),
    ('gen_geo_osrm_row_time', 'gexp',
     '(GF2I (GCeil (GFlt FDuration)))'),
    ('gen_geo_osrm_row_guard', 'gexp',
     '(GIcmp CLe (GF2I (GCeil (GFlt FDuration))) (GInt IMaxT))'),
    ('gen_geo_osrm_row_distance', 'gexp',
     '(GF2I (GCeil (GFlt FDistance)))'),
    ('gen_geo_osrm_row_node_index', 'gexp',
     '(GIop OSub (GInt IRow) (GIntLit 1))')]


def translate(ctx, report):
    """-> dict name -> Coq text, for what could be read"""
    got = {}

    def attempt(group, fn):
        try:
            r = fn()
            got.update(r)
        except Untranslatable as e:
            report["fallback"].append("%s: %s" % (group, e))
        except Exception as e:         # a source shape the translator was not written for: a fallback, said so
            report["fallback"].append("%s: not understood (%s: %s)" % (group, type(e).__name__, e))

    attempt("max_dist_sq", lambda: {"gen_geo_max_dist_sq": frag_max_dist_sq(ctx)})
    attempt("node_dist_sq", lambda: {"gen_geo_node_dist_sq": frag_node_dist_sq(ctx)})
    attempt("euclid", lambda: frag_euclid(ctx))
    attempt("osrm_prefilter", lambda: frag_osrm(ctx, report))
    return {k: coq_value(v) for k, v in got.items()}


def regenerate():
    repo = os.environ.get("TRV_REPO", "/repo")
    report = dict(functions={}, fallback=[], notes=[])
    try:
        got = translate(Ctx(repo), report)
    except (OSError, Untranslatable, ValueError) as e:
        report["fallback"].append("sources: %s" % e)
        got = {}
    hand = dict((n, b) for n, _, b in HAND) if HAND else {}
    lines = ["(* GENERATED by tools/gen_geo.py from /repo's src/geofilter.cpp, src/euclideangeofilter.cpp, src/osrmgeofilter.cpp",
             "   (types from the definitions, include/point.hpp, include/node.hpp) - do not edit. *)",
             "From Coq Require Import ZArith QArith.",
             "Require Import TrV.Geo.",
             ""]
    for g in GROUPS:
        names = [f for f in FRAGMENTS if f[2] == g]
        src = all(n in got for n, _, _, _ in names)
        report["functions"][g] = "source" if src else "fallback"
        if not src and not any(r.startswith(g + ":") for r in report["fallback"]):
            # a group that depends on an earlier part of the same function
            report["fallback"].append("%s: not reached (an earlier part of the function could not be read)" % g)
        for n, ty, _, what in names:
            if src:
                body = got[n]
            elif n in hand:
                body = hand[n]
            else:
                raise RuntimeError("geo: %s could not be read and there is no committed tree to fall back to (%s)" % (n, "; ".join(report["fallback"])))
            lines += ["(* %s *)" % what, "Definition %s : %s :=\n  %s.   (* %s *)" % (n, ty, body, "source" if src else "fallback"), ""]
    text = "\n".join(lines)
    os.makedirs(os.path.dirname(OUT), exist_ok=True)
    old = open(OUT).read() if os.path.exists(OUT) else None
    if old != text:
        with open(OUT, "w") as fh:
            fh.write(text)
    report["changed"] = old != text
    report["from_source"] = sum(1 for v in report["functions"].values() if v == "source")
    report["total"] = len(report["functions"])
    report["policy"] = "source" if report["from_source"] == report["total"] else "fallback"
    if report["policy"] == "fallback":
        report["reason"] = "; ".join(report["fallback"])
    return report


if __name__ == "__main__":
    if len(sys.argv) > 1 and sys.argv[1] == "--print-hand":
        rep = dict(functions={}, fallback=[], notes=[])
        got = translate(Ctx(os.environ.get("TRV_REPO", "/repo")), rep)
        if rep["fallback"]:
            sys.exit("cannot print the hand trees: " + "; ".join(rep["fallback"]))
        print("HAND = [\n%s]" % ",\n".join("    (%r, %r,\n     %r)" % (n, ty, got[n]) for n, ty, _, _ in FRAGMENTS))
    else:
        print(json.dumps(regenerate(), indent=1))
